#!/bin/bash
# Build the framework from files on disk only: translate /repo's tables and kernels into
# coq/gen/Src.v and do a full .vo build of the Coq development.
set -e
cd "$(dirname "$0")"
/venv/bin/python tools/translate.py
cd coq
coq_makefile -f _CoqProject -o Makefile > /dev/null
timeout 3000 make -j16
