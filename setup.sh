#!/bin/bash
# Build the framework from files on disk only: a full .vo build of the Coq development over the
# reference translation of the unchanged tree (coq/ref/Src.v, or a fresh translation if that file is
# missing). Every check then re-translates the source families its property depends on from the
# current /repo working tree and rebuilds what that changes (tools/checklib.py build).
set -e
cd "$(dirname "$0")"
VERIF_FAMILIES=none /venv/bin/python tools/translate.py
cd coq
coq_makefile -f _CoqProject -o Makefile > /dev/null
timeout 3000 make -j16
