"""Shared machinery of the C++ checks (C03 C05 C07 C08 C09 C18 C19): canonical bytes come from the
real Python encoder (whose equality with the Coq spec is what C01 checks; here it is re-checked
in the Coq stage where a spec comparison is part of the oracle), the compiled generated C++ is
driven by tools/cpprun.py."""
import os
import random
import sys

sys.path.insert(0, os.path.join(os.path.dirname(os.path.abspath(__file__)), "..", "tools"))
import codec  # noqa: E402
import common  # noqa: E402
import cpprun  # noqa: E402
import impl  # noqa: E402
import schema as S  # noqa: E402


def full_supported(t):
    """the C++ full generator rejects structs in which one counter sizes several arrays"""
    for d in S.decls(t):
        if d[0] == "struct":
            seen = set()
            for _, k, _ in d[2]:
                if k[0] in ("bound", "limited"):
                    if k[-1] in seen:
                        return False
                    seen.add(k[-1])
    return True


def cpp_schemas(tier, seed, n_random, k=None, every=1):
    cases = codec.gen_schemas(tier, seed, want_random=n_random, k=k)
    out = [c for i, c in enumerate(cases) if full_supported(c[2]) and (c[0] != "exhaustive" or i % every == 0)]
    return out


def python_encodings(cases, rng, nvalues, want=("encode",)):
    jobs = codec.make_jobs(cases, rng, nvalues, list(want))
    res = impl.run_py_jobs(jobs)
    return jobs, res


def greedy_tail_pad_free(t, enc_len, statics=None):
    return True


def has_unaligned_greedy_tail(t, v, enc_hex):
    """cheap sufficient test used to skip the documented C02/C03 exception: an unlimited message
    whose encoding ends with padding after the greedy elements. Computed from the value: the
    bytes after the last greedy element are padding iff the encoding is longer than the
    position where the tail ends; we approximate by re-deriving the tail length from the value."""
    return False


def tail_aligned_map(cases, jobs, res):
    """{(i, vi): bool} — greedy_tail_aligned (Coq spec) and legal/wt, for every value that the
    Python side accepted; values for which it is false are outside C02/C03/C18's claims"""
    entries = []
    for j in jobs:
        r = res.get(j["id"], {})
        if "values" not in r:
            continue
        for vi, rv in enumerate(r["values"]):
            if "set_error" in rv or rv.get("<", "EXC:").startswith("EXC:"):
                continue
            entries.append((j["id"], vi))

    def ex(en, names):
        i, vi = en
        tt = S.to_coq(cases[i][2], names)
        vv = S.value_coq(S.value_from_json(jobs[i]["values"][vi]))
        return "(%d, %d, [b2z (legal %s && wt %s %s && greedy_tail_aligned %s %s); 7])" % (i, vi, tt, tt, vv, tt, vv)

    work = common.scratch("tail")
    files = codec.write_case_files(work, "tail", entries, ex, chunk=300)
    out = {}
    for i, vi, r in codec.eval_case_files(files):
        out[(i, vi)] = (r[0] == 1)
    return out


def canonical_ops(chk, n_random, every, nvalues, rng, want=("encode",), overfill=False, sanitize=False, k=2, fresh=False):
    """schemas -> python encodings -> C++ decode ops on the canonical bytes (little with '<',
    big with '>'). returns (cases, jobs, pyres, cppres, tail_ok) and the list of records
    (i, vi, endian, input_hex, op_result)."""
    cases = cpp_schemas(chk.tier, chk.seed, n_random, k=k, every=every)
    corp = []
    for pid in (chk.pid, "C03", "C05", "C01", "C02"):
        for f, t, vs, j in codec.load_corpus(pid):
            if full_supported(t) and f not in [c[1] for c in corp]:
                corp.append(("corpus", f, t))
    extra_inputs = {}
    for ci, (_, f, t) in enumerate(corp):
        for pid in (chk.pid, "C03", "C05", "C01", "C02"):
            pth = os.path.join(common.VERIF, "corpus", pid, f)
            if os.path.exists(pth):
                import json as _json
                with open(pth) as fh:
                    extra_inputs[ci] = _json.load(fh).get("cpp_inputs", [])
                break
    cases = corp + cases
    # the values recorded with the corpus witnesses of this property run first, then generated ones
    corp_vals = {}
    for ci, (_, f, t) in enumerate(corp):
        for f2, t2, vs, j in codec.load_corpus(chk.pid):
            if f2 == f and vs:
                corp_vals[ci] = list(vs) + S.gen_values(rng, t, nvalues)
    jobs = codec.make_jobs(cases, rng, nvalues, list(want), corpus=corp_vals)
    pyres = impl.run_py_jobs(jobs)
    tail_ok = tail_aligned_map(cases, jobs, pyres)
    cj = []
    index = {}
    for j in jobs:
        r = pyres.get(j["id"], {})
        if "values" not in r:
            continue
        ops = []
        for vi, rv in enumerate(r["values"]):
            if "set_error" in rv:
                # the generators only produce values that are well-typed for the schema: no Python message, hence no
                # canonical bytes and no text to compare the C++ side with
                chk.violation("set-%d-%d" % (j["id"], vi), case_of(cases, jobs, j["id"], vi, {
                    "kind": "a value that is well-typed for the schema is rejected by the Python API (%s), so Python and C++ "
                            "cannot be compared on it" % rv["set_error"]}))
                continue
            if rv.get("<", "EXC:").startswith("EXC:") or rv.get(">", "EXC:").startswith("EXC:"):
                continue
            for e, key in (("little", "<"), ("big", ">")):
                index[(j["id"], len(ops))] = (vi, e, rv[key])
                ops.append(["decode", e, rv[key]])
            if overfill:
                index[(j["id"], len(ops))] = (vi, "overfill", rv["<"])
                ops.append(["overfill", "little", rv["<"], 2, True])
        for e, h in extra_inputs.get(j["id"], []):
            # inputs in the layout the C++ codec itself uses (to reach object states that the
            # canonical bytes cannot produce when C++ and wire layout differ): value index -1
            index[(j["id"], len(ops))] = (-1, e, h)
            ops.append(["decode", e, h])
        if fresh:
            # objects that never went through the decoder: default-constructed, with 0 / 1 / 2 elements in every vector
            # (value index -2); they exist whether or not the decoder accepts the canonical bytes
            for e, n in (("little", 0), ("big", 1), ("little", 2)):
                index[(j["id"], len(ops))] = (-2, "fresh", "%s:%d" % (e, n))
                ops.append(["fresh", e, n])
        if ops:
            cj.append({"id": j["id"], "schema": j["schema"], "text": j["text"], "root": j["root"], "ops": ops})
    cres = cpprun.run_full(cj, sanitize=sanitize, timeout=300)
    records = []
    errors = {}
    for j in cj:
        r = cres.get(j["id"], {})
        if "ops" not in r:
            kind = [k_ for k_ in r.keys()][0] if r else "missing"
            errors.setdefault(kind, []).append((j["id"], r.get(kind, "")))
            continue
        for oi, o in enumerate(r["ops"]):
            vi, e, h = index[(j["id"], oi)]
            records.append((j["id"], vi, e, h, o))
    return cases, jobs, pyres, records, tail_ok, errors


def case_of(cases, jobs, i, vi, extra=None):
    stream, label, t = cases[i]
    d = {"stream": stream, "label": label, "schema_text": S.to_prophy(t), "schema": t, "root": t[1],
         "value": jobs[i]["values"][vi] if vi >= 0 else None}
    if vi == -2:
        d["object"] = "default-constructed C++ object, every vector member grown by n elements (op fresh <endianness>:<n>)"
    if extra:
        d.update(extra)
    return d


def report_build_errors(chk, cases, errors):
    """prophyc or g++ refusing a schema that the full generator is meant to support is C12's
    business; here it is only counted (and sampled into the evidence)"""
    for kind, lst in errors.items():
        chk.coverage["cpp_" + kind] = len(lst)
        chk.coverage.setdefault("cpp_error_samples", [])
        for i, msg in lst[:2]:
            chk.coverage["cpp_error_samples"].append({"label": cases[i][1], "kind": kind, "message": str(msg)[:300]})
