#!/venv/bin/python
"""C09 — raw C++ swap converts a whole foreign-endian message to native in place."""
import os
import random
import sys

sys.path.insert(0, os.path.dirname(os.path.abspath(__file__)))
sys.path.insert(0, os.path.join(os.path.dirname(os.path.abspath(__file__)), "..", "tools"))
import codec  # noqa: E402
import cppcommon as C  # noqa: E402
import cpprun  # noqa: E402
import schema as S  # noqa: E402
from checklib import Check  # noqa: E402


def main():
    chk = Check("C09")
    chk.build()
    rng = random.Random(chk.seed)
    quick = chk.tier == "quick"
    cases = codec.gen_schemas(chk.tier, chk.seed, want_random=200 if quick else 800, k=2)
    if quick:
        cases = [c for i, c in enumerate(cases) if c[0] != "exhaustive" or i % 5 == 0]
    # messages with a greedy tail (unlimited roots) are judged by a second oracle (Coq side, cpp_swap_unl_case): only
    # the members before the root's last member are converted, the rest of the buffer stays, its address is returned
    corp = []
    for pid in ("C09", "C03", "C01", "C04"):
        for f, t, vs, j in codec.load_corpus(pid):
            if f not in [c[1] for c in corp]:
                corp.append(("corpus", f, t))
    cases = corp + cases
    corpus_values = {}
    for ci, (_, f, t) in enumerate(corp):
        for pid in ("C09", "C03", "C01", "C04"):
            for f2, t2, vs, j in codec.load_corpus(pid):
                if f2 == f and vs:
                    corpus_values[ci] = vs
    jobs = codec.make_jobs(cases, rng, 3 if quick else 4, ["encode"], corpus=corpus_values)
    import impl
    pyres = impl.run_py_jobs(jobs)
    cj = []
    index = {}
    for j in jobs:
        r = pyres.get(j["id"], {})
        if "values" not in r:
            continue
        ops = []
        for vi, rv in enumerate(r["values"]):
            if "set_error" in rv or rv.get("<", "EXC:").startswith("EXC:") or rv.get(">", "EXC:").startswith("EXC:"):
                continue
            index[(j["id"], len(ops))] = vi
            ops.append(["swap", rv[">"]])        # foreign (big-endian) encoding on this little-endian host
        if ops:
            cj.append({"id": j["id"], "schema": j["schema"], "text": j["text"], "root": j["root"], "ops": ops})
    out = cpprun.run_raw(cj, sanitize=True, timeout=600)
    errors = {}
    entries = []
    uentries = []
    n = 0
    for j in cj:
        r = out.get(j["id"], {})
        if "ops" not in r:
            kind = list(r.keys())[0] if r else "missing"
            errors.setdefault(kind, []).append((j["id"], str(r.get(kind, ""))[:300]))
            continue
        for oi, o in enumerate(r["ops"]):
            vi = index[(j["id"], oi)]
            rv = pyres[j["id"]]["values"][vi]
            chk.count()
            t = cases[j["id"]][2]
            v = S.value_from_json(jobs[j["id"]]["values"][vi])
            chk.seen_class(S.shape_class(t, v), S.nontrivial(t, v))
            bad = None
            unl = S.stiffness(t) == 2
            if unl and "crash" not in o and "bytes" in o:
                uentries.append((j["id"], vi, rv, o))
            if unl and "crash" not in o:
                if "bytes" in o:
                    entries.append((j["id"], vi, rv[">"], o))
                n += 1
                continue
            if "crash" in o:
                bad = "swap crashed / AddressSanitizer report: %s" % o["crash"]
            elif o.get("bytes") != rv["<"]:
                bad = "buffer after swap is not the native-endian encoding"
            elif o.get("ret") != len(rv["<"]) // 2:
                bad = "swap returned offset %s, message length %d" % (o.get("ret"), len(rv["<"]) // 2)
            elif not o.get("canary_ok"):
                bad = "swap changed bytes outside the message"
            if "crash" not in o and "bytes" in o:
                entries.append((j["id"], vi, rv[">"], o))
            if bad:
                chk.violation("swap-%d-%d" % (j["id"], vi), C.case_of(cases, jobs, j["id"], vi, {
                    "kind": bad, "foreign": rv[">"], "native": rv["<"],
                    "cpp": {k: o.get(k) for k in ("ret", "bytes", "canary_ok", "crash")}}))
            n += 1
    C.report_build_errors(chk, cases, errors)
    # ---- the tie of the swap model (model/CppSwap.v, the subject of props/C09.v) to the compiled code: the model
    # run inside Coq on the same foreign bytes + guard must give the same buffer, returned offset and guard state
    # (also where the compiled code is wrong: the model reproduces KF-C)
    names_of = {}

    def cex(en, names):
        i, vi, foreign, o = en
        tt = S.to_coq(cases[i][2], names)
        return "(%d, %d, cpp_swap_case %s %s %s (%d) %s)" % (i, vi, tt, codec.hex_coq(foreign), codec.hex_coq(o["bytes"]),
                                                             o.get("ret", -1), "true" if o.get("canary_ok") else "false")

    import common
    work = common.scratch("c09swap")
    files = codec.write_case_files(work, "swap", entries, cex)
    for i, vi, r in codec.eval_case_files(files):
        o = [x for x in entries if x[0] == i and x[1] == vi][0][3]
        chk.violation("swapmodel-%d-%d" % (i, vi), C.case_of(cases, jobs, i, vi, {
            "kind": "model/implementation correspondence broken (swap): CppSwap.cpp_swap and the compiled prophy::swap disagree",
            "model_result": r[:8], "cpp": {k: o.get(k) for k in ("ret", "bytes", "canary_ok")}}), "no-failing-input-found", match=False)
    chk.coverage["swap_model_cases"] = len(entries)

    def uex(en, names):
        i, vi, rv, o = en
        tt = S.to_coq(cases[i][2], names)
        vv = S.value_coq(S.value_from_json(jobs[i]["values"][vi]))
        return "(%d, %d, cpp_swap_unl_case %s %s %s %s %s (%d) ++ (if %s then [] else [98]))" % (
            i, vi, tt, vv, codec.hex_coq(rv[">"]), codec.hex_coq(rv["<"]), codec.hex_coq(o["bytes"]), o.get("ret", -1),
            "true" if o.get("canary_ok") else "false")

    files = codec.write_case_files(work, "unl", uentries, uex)
    for i, vi, r in codec.eval_case_files(files):
        rv, o = [(x[2], x[3]) for x in uentries if x[0] == i and x[1] == vi][0]
        off = r[1] if len(r) > 1 and r[0] == 96 else None
        chk.violation("swapunl-%d-%d" % (i, vi), C.case_of(cases, jobs, i, vi, {
            "kind": "swap of a message with a greedy tail: the members before the unlimited member must be converted, the rest left "
                    "alone and the unlimited member's address returned",
            "unlimited_member_offset": off, "bytes_ok": bool(len(r) > 2 and r[0] == 96 and r[2] == 1), "ret": o.get("ret"),
            "canary_ok": o.get("canary_ok"), "foreign": rv[">"], "native": rv["<"], "cpp": {k: o.get(k) for k in ("ret", "bytes", "canary_ok")},
            "result": r[:6]}))
    chk.coverage["greedy_tail_cases"] = len(uentries)
    chk.coverage["rule"] = ("all schemas (exhaustive-small sampled + random, special shapes), values as in C01; the big-endian canonical "
                            "encoding (from the Python encoder) is placed between two 64-byte canaries in an 8-aligned buffer and "
                            "prophy::swap<Root> is called (compiled with AddressSanitizer); oracle: buffer equals the little-endian "
                            "canonical encoding, canaries intact, returned pointer = message end; for roots with a greedy tail: bytes before the "
                            "root's last member converted, all later bytes unchanged, returned pointer = that member's offset (Coq side).")
    if cj:
        chk.sample({"schema": cj[len(cj) // 2]["text"], "op": cj[len(cj) // 2]["ops"][0]})
    chk.assumptions += ["strict-aliasing / unaligned-access UB of the generated casts is not checked (ASan only)",
                        "little-endian host: 'foreign' = big-endian"]
    return chk.finish(level="proof")


if __name__ == "__main__":
    sys.exit(main())
