"""Correspondence between prophyc.model.topological_sort and the Coq model PcSort:
random and enumerated definition graphs (acyclic, cyclic, self-referential, dangling, with
duplicate names) are sorted by the real function and by the model (vm_compute); the resulting
order of node identities, or the cycle diagnostic, must agree. Used by C13 and C15."""
import itertools
import json
import os
import random
import subprocess
import sys

sys.path.insert(0, os.path.join(os.path.dirname(os.path.abspath(__file__)), "..", "tools"))
import common  # noqa: E402

RUNNER = r'''
import json, sys, signal
from prophyc import model
def handler(signum, frame): raise TimeoutError()
signal.signal(signal.SIGALRM, handler)
graphs = json.load(sys.stdin)
out = []
for g in graphs:
    nodes = []
    for i, (name, deps) in enumerate(g):
        members = [model.StructMember("m%d" % k, d) for k, d in enumerate(deps)]
        n = model.Struct(name, members)
        nodes.append(n)
    ids = {id(n): i for i, n in enumerate(nodes)}
    signal.alarm(5)
    try:
        model.topological_sort(nodes)
        out.append(["sorted", [ids[id(n)] for n in nodes]])
    except model.ModelError as e:
        out.append(["cycle", str(e)])
    except TimeoutError:
        out.append(["timeout", ""])
    except Exception as e:
        out.append(["exception", type(e).__name__])
    finally:
        signal.alarm(0)
json.dump(out, sys.stdout)
'''

BUILTINS = ["u8", "u16", "u32", "u64", "i8", "i16", "i32", "i64", "r8", "r16", "r32", "r64"]


def graphs(rng, n_random, max_enum):
    """list of graphs; a graph is a list of (name, [dependency names])"""
    out = []
    # every graph over <= max_enum nodes where each node depends on any subset of the others/itself (small)
    for n in range(1, max_enum + 1):
        names = ["N%d" % i for i in range(n)]
        choices = [list(itertools.chain.from_iterable(itertools.combinations(names, r) for r in range(0, min(n, 2) + 1)))] * n
        for combo in itertools.product(*choices):
            out.append([(names[i], list(combo[i])) for i in range(n)])
    for _ in range(n_random):
        n = rng.randint(2, 9)
        names = ["T%d" % i for i in range(n)]
        if rng.random() < 0.15:
            names[rng.randrange(n)] = names[rng.randrange(n)]      # duplicate name
        g = []
        acyclic = rng.random() < 0.6
        order = list(range(n))
        rng.shuffle(order)
        pos = {i: k for k, i in enumerate(order)}
        for i in range(n):
            deps = []
            for _ in range(rng.choice([0, 1, 1, 2, 3])):
                c = rng.random()
                if c < 0.15:
                    deps.append(rng.choice(BUILTINS))
                elif c < 0.22:
                    deps.append("Missing%d" % rng.randrange(3))
                else:
                    j = rng.randrange(n)
                    if acyclic and pos[j] >= pos[i]:
                        continue
                    deps.append(names[j])
            g.append((names[i], deps))
        out.append(g)
    return out


def run(chk, n_random, max_enum):
    rng = random.Random(chk.seed + 15)
    gs = graphs(rng, n_random, max_enum)
    p = subprocess.run([common.PY, "-c", RUNNER], input=json.dumps(gs), capture_output=True, text=True,
                       env=common.impl_env(), timeout=1200)
    if p.returncode != 0:
        chk.violation("sort-runner", {"kind": "could not run model.topological_sort", "detail": p.stderr[-800:]},
                      "no-failing-input-found")
        return 0
    impl = json.loads(p.stdout)
    # intern names
    work = common.scratch("sortcorr")
    files = []
    CH = 400
    for off in range(0, len(gs), CH):
        lines = []
        for gi, g in enumerate(gs[off:off + CH]):
            table = {b: k for k, b in enumerate(BUILTINS)}
            def nm(x, table=table):
                if x not in table:
                    table[x] = len(table)
                return table[x]
            nodes = "; ".join("mk_node %d %d [%s]" % (i, nm(name), "; ".join(str(nm(d)) for d in deps))
                              for i, (name, deps) in enumerate(g))
            lines.append("(%d, flat (topological_sort builtins [%s]))" % (off + gi, nodes))
        f = os.path.join(work, "s%d.v" % off)
        with open(f, "w") as fh:
            fh.write("From Coq Require Import List Arith.\nFrom Prophy Require Import PcSort.\nImport ListNotations.\n")
            fh.write("Definition builtins := [%s].\n" % "; ".join(str(k) for k in range(len(BUILTINS))))
            fh.write("Definition flat (r : sres) : list nat := match r with Sorted l => 0 :: map nid l | Cycle _ => [1] "
                     "| SortOutOfFuel => [2] | SortBad => [3] end.\n")
            fh.write("Eval vm_compute in [\n%s].\n" % ";\n".join(lines))
        files.append(f)
    res = common.coq_eval_many(files)
    n = 0
    kinds = {}
    for f in files:
        for gi, flat in res[f][0]:
            n += 1
            chk.count()
            o = impl[gi]
            kinds[o[0]] = kinds.get(o[0], 0) + 1
            chk.seen_class(("sort", o[0], len(gs[gi]), sum(len(d) for _, d in gs[gi])), len(gs[gi]) > 1)
            ok = (o[0] == "sorted" and flat[0] == 0 and list(flat[1:]) == o[1]) or (o[0] == "cycle" and flat == [1])
            if o[0] in ("timeout", "exception"):
                chk.violation("sort-%d" % gi, {"kind": "model.topological_sort %s on a definition graph" % o[0],
                                               "graph": gs[gi], "observed": o, "model": flat})
            elif not ok:
                chk.violation("sortcorr-%d" % gi, {"kind": "model/implementation correspondence broken (topological_sort)",
                                                   "graph": gs[gi], "observed": o, "model": flat}, "no-failing-input-found")
    chk.coverage["sort_correspondence"] = {"graphs": n, "outcomes": kinds}
    return n
