#!/venv/bin/python
"""C16 — multi-file schemas with includes equal their single-file concatenation.

A valid schema is split over 2-6 files (frontends.split_files: chain / diamond / random / subdirs,
the latter needing -I), every file including the files whose names it uses. Each non-main file
that the main file includes also gets a constant, used by an extra struct of the main file, so
that constants cross file borders too. The split is compiled
  (a) main file only,                          (b) every file on one command line (random order),
  (c) from a sibling working directory with relative (or absolute) paths,
  (d) every file by its own prophyc call into one output directory,
and compared with the single file made of the same declarations (the concatenation of the files in
include order without the #include lines):
  (1) model: byte_size / alignment / kind / paddings of every struct and union, constants, enumerators;
  (2) generated Python: the per-file modules import (as a package: they use `from .stem import`),
      expose the same constants, and encode the same values to the same bytes in both byte orders;
  (3) every file is read and parsed exactly once per prophyc run (codecs.open and
      ModelParser.__call__ are wrapped in the subprocess that calls prophyc.main; /repo is untouched);
  (4) a missing include and a cyclic include (self, A<->B, longer rings, in an included file) make
      prophyc fail, for prophy text and for isar (<xi:include href=.../>); positive controls compile.
The same is done for isar: the xml of frontends.to_isar cut into the same files.

Besides the part<N> file names and the four split styles, every schema is also split
  * into files named after a type they define (rename_files: Point.prophy defines Point and the includer has a
    field of type Point; every 5th time two included files carry each other's name), and
  * into a project / library layout (arrange): main file in the root, proj/ or app/src/, the other files as
    groups of siblings in <library root>[/<sub-directory>], included through the library root
    ("proto/msg.prophy"), through the group directory or by relative paths, with 2-4 -I directories in
    descending, shuffled or ascending command-line order (one sometimes given twice), and with decoys:
    same-named files of other content (decoy_text: other constants, enumerators and layouts) at every place
    that has a lower precedence under the search rule "directory of the including file first, then the -I
    directories in command-line order" (resolve). A build that picks a decoy, or that does not find a sibling
    of a file it reached through -I, differs from the single file in (1)/(2) or fails.
"""
import json
import os
import random
import re
import subprocess
import sys

sys.path.insert(0, os.path.dirname(os.path.abspath(__file__)))
sys.path.insert(0, os.path.join(os.path.dirname(os.path.abspath(__file__)), "..", "tools"))
import common  # noqa: E402
import frontends as F  # noqa: E402
import schema as S  # noqa: E402
from checklib import Check  # noqa: E402

TOOLS = os.path.join(common.VERIF, "tools")

# ------------------------------------------------------------------------------------------
# subprocess scripts
# ------------------------------------------------------------------------------------------

_COUNT_SCRIPT = r'''
import sys, json, os, codecs, collections
real = sys.stdout
sys.stdout = sys.stderr
opens, parses = collections.Counter(), collections.Counter()
_open = codecs.open
def counting_open(path, mode="r", *a, **k):
    if "w" not in mode and "a" not in mode and "+" not in mode:
        opens[os.path.abspath(path)] += 1
    return _open(path, mode, *a, **k)
codecs.open = counting_open
import prophyc
import prophyc.model as M
_call = M.ModelParser.__call__
def counting_call(self, *args):
    parses[os.path.abspath(args[1])] += 1
    return _call(self, *args)
M.ModelParser.__call__ = counting_call
try:
    prophyc.main(sys.argv[1:])
    out = {}
except BaseException as e:
    out = {"error": type(e).__name__, "message": str(e)[-300:]}
out["opens"] = dict(opens)
out["parses"] = dict(parses)
real.write(json.dumps(out))
'''

_ENC_SCRIPT = r'''
import sys, json, importlib, importlib.util, os
sys.path.insert(0, %r)
import pyworker, schema as S
job = json.load(sys.stdin)
t = S.from_json(job["schema"])
values = [S.value_from_json(v) for v in job["values"]]
out = {}
for m in job["mods"]:
    r = {}
    out[m["tag"]] = r
    mods = []
    try:
        if m.get("pkg"):
            if m["dir"] not in sys.path:
                sys.path.insert(0, m["dir"])
            main = importlib.import_module(m["pkg"] + "." + m["module"])
            mods.append(main)
            for o in m.get("others", []):
                try:
                    mods.append(importlib.import_module(m["pkg"] + "." + o))
                except BaseException as e:
                    r.setdefault("other_import_errors", {})[o] = "%%s: %%s" %% (type(e).__name__, str(e)[-200:])
        else:
            spec = importlib.util.spec_from_file_location("gen_" + m["tag"], os.path.join(m["dir"], m["module"] + ".py"))
            main = importlib.util.module_from_spec(spec)
            spec.loader.exec_module(main)
            mods.append(main)
    except BaseException as e:
        r["import_error"] = "%%s: %%s" %% (type(e).__name__, str(e)[-300:])
        continue
    consts = {}
    for mod in mods:
        for k, v in vars(mod).items():
            if isinstance(v, int) and not isinstance(v, bool) and not k.startswith("_"):
                consts.setdefault(k, set()).add(v)
    r["consts"] = {k: sorted(v) for k, v in consts.items()}
    r["enc"] = []
    try:
        cls = getattr(main, t[1])
    except AttributeError as e:
        r["import_error"] = "AttributeError: %%s" %% e
        continue
    for v in values:
        try:
            msg = cls()
            pyworker.set_struct(msg, t, v)
            r["enc"].append([bytearray(msg.encode(e)).hex() for e in "<>"])
        except BaseException as e:
            r["enc"].append("EXC:%%s: %%s" %% (type(e).__name__, str(e)[-100:]))
    if job.get("uses"):
        try:
            r["uses"] = bytearray(getattr(main, job["uses"])().encode("<")).hex()
        except BaseException as e:
            r["uses"] = "EXC:%%s: %%s" %% (type(e).__name__, str(e)[-100:])
json.dump(out, sys.stdout)
''' % TOOLS


_MULTI_SCRIPT = r"""
import sys, json, os, codecs, collections, io, contextlib
opens, parses = collections.Counter(), collections.Counter()
_open = codecs.open
def counting_open(path, mode="r", *a, **k):
    if "w" not in mode and "a" not in mode and "+" not in mode:
        opens[os.path.abspath(path)] += 1
    return _open(path, mode, *a, **k)
codecs.open = counting_open
import prophyc
import prophyc.model as M
_call = M.ModelParser.__call__
def counting_call(self, *args):
    parses[os.path.abspath(args[1])] += 1
    return _call(self, *args)
M.ModelParser.__call__ = counting_call
def inc(n):
    return {"class": "Include", "name": n.name,
            "members": [inc(m) if isinstance(m, M.Include) else m.name for m in n.members]}
def node(n):
    d = {"class": type(n).__name__, "name": n.name}
    if isinstance(n, M.Include):
        return inc(n)
    if isinstance(n, M.Struct):
        d.update(byte_size=n.byte_size, alignment=n.alignment, kind=n.kind)
        d["members"] = [[m.name, m.type_name, m.bound, m.size, m.greedy, m.optional, m.numeric_size,
                         m.byte_size, m.alignment, m.padding, m.kind] for m in n.members]
    elif isinstance(n, M.Union):
        d.update(byte_size=n.byte_size, alignment=n.alignment, kind=n.kind)
        d["members"] = [[m.name, m.type_name, m.discriminator, m.byte_size, m.alignment] for m in n.members]
    elif isinstance(n, M.Enum):
        d["members"] = [[m.name, m.value] for m in n.members]
    elif isinstance(n, M.Typedef):
        d["type_name"] = n.type_name
    elif isinstance(n, M.Constant):
        d["value"] = n.value
    return d
runs = json.load(sys.stdin)
home = os.getcwd()
out = []
for r in runs:
    opens.clear(); parses.clear()
    os.chdir(os.path.join(home, r["cwd"]))
    err = io.StringIO()
    try:
        with contextlib.redirect_stderr(err), contextlib.redirect_stdout(io.StringIO()):
            res = prophyc.main(r["args"])
        o = {"files": dict((k, [node(n) for n in v]) for k, v in res.items())}
    except BaseException as e:
        o = {"error": type(e).__name__, "message": str(e)[-300:]}
    o["stderr"] = err.getvalue()[-300:]
    o["opens"] = dict(opens)
    o["parses"] = dict(parses)
    out.append(o)
    os.chdir(home)
sys.stdout.write(json.dumps(out, default=str))
"""


def run_script(script, args, cwd, stdin=None, timeout=60):
    env = common.impl_env()
    try:
        p = subprocess.run([common.PY, "-c", script] + list(args), cwd=cwd, env=env, input=stdin, capture_output=True,
                           text=True, timeout=timeout)
    except subprocess.TimeoutExpired:
        return {"error": "Timeout", "message": "no result within %ss" % timeout}
    try:
        return json.loads(p.stdout)
    except ValueError:
        return {"error": "NoOutput", "message": "exit code %s: %s" % (p.returncode, p.stderr[-400:])}


# ------------------------------------------------------------------------------------------
# building cases
# ------------------------------------------------------------------------------------------

_INC_RE = re.compile(r'^#include "([^"]+)"\n', re.M)
_XML_CHUNK = re.compile(r'    <(enum|struct|union|message) name="([^"]+)">\n.*?    </\1>\n', re.S)


def strip_includes(text):
    return _INC_RE.sub("", text).lstrip("\n")


def direct_includes(sp, path):
    """relative paths (as keys of sp['files']) of the files `path` includes"""
    here = os.path.dirname(path)
    out = []
    for ref in _INC_RE.findall(sp["files"][path]):
        for base in [here] + [d if d != "." else "" for d in sp["include_dirs"]]:
            cand = os.path.normpath(os.path.join(base, ref))
            if cand in sp["files"]:
                out.append(cand)
                break
    return out


def prophy_case(t, sp):
    """files of the split + per-file constants + the single-file equivalent"""
    files = dict(sp["files"])
    main = sp["main"]
    uses = []
    for n, inc in enumerate(direct_includes(sp, main)):
        cname = re.sub(r"\W", "_", os.path.splitext(os.path.basename(inc))[0]).upper() + "_K"
        head, body = "", files[inc]
        m = re.match(r'(?:#include "[^"]+"\n)+\n?', body)
        if m:
            head, body = body[:m.end()], body[m.end():]
        files[inc] = head + "const %s = %d;\n" % (cname, n + 2) + body
        uses.append("    u%d k%d[%s%s];" % ((8, 16, 32)[n % 3], n, cname, " * 2" if n % 2 else ""))
    uses_name = None
    if uses:
        uses_name = t[1] + "Uses"
        files[main] = files[main] + "\nstruct %s\n{\n%s\n};\n" % (uses_name, "\n".join(uses))
    single = "\n".join(strip_includes(files[p]) for p in sp["order"])
    return {"lang": "prophy", "files": files, "main": main, "include_dirs": sp["include_dirs"], "order": sp["order"],
            "single": single, "single_name": "single.prophy", "patch": None, "uses": uses_name}


def isar_case(t, sp, style, rng, bytes_via="patch"):
    """the xml of to_isar(t) cut into the files of the split `sp` (same placement, same includes)"""
    xml, patch = F.to_isar(t, style=style, rng=rng, bytes_via=bytes_via)
    chunks = {m.group(2): m.group(0) for m in _XML_CHUNK.finditer(xml)}
    names = [d[1] for d in S.decls(t)]
    if sorted(chunks) != sorted(names):
        raise F.NotExpressible("xml chunks %s do not match the declarations %s" % (sorted(chunks), sorted(names)))

    def x(p):
        return p[:-len(".prophy")] + ".xml"
    files = {}
    for p, text in sp["files"].items():
        incs = "".join('    <xi:include href="%s"/>\n' % x(ref) for ref in _INC_RE.findall(text))
        body = "".join(chunks[n] for n in names if sp["where"][n] == p)
        files[x(p)] = '<?xml version="1.0" encoding="utf-8"?>\n<x xmlns:xi="http://www.w3.org/2001/XInclude">\n%s%s</x>\n' % (incs, body)
    return {"lang": "isar", "files": files, "main": x(sp["main"]), "include_dirs": sp["include_dirs"],
            "order": [x(p) for p in sp["order"]], "single": xml, "single_name": "single.xml", "patch": patch, "uses": None}


# FIXED (4304ff8; was a pending finding): prophyc.patch.patch() looked up every top-level node of a file by name, Include
# nodes too. An isar include is named by its href without the extension, so with `--patch` a rule for struct X aborts
# the compilation of every file that holds <xi:include href="X.xml"/> ("Can change field only in struct: X ..."),
# while the single file compiles. Exactly this input class — isar, a patch rule whose node name equals the name of an
# Include node — is left out of the generated cases while PENDING_EXCLUDE is set: the xml is printed again with
# bytes_via="direct" (no `type .. byte` rules); if rules for such a name remain, the isar twin of the split is skipped.
PENDING_EXCLUDE = False     # repaired in /repo by 4304ff8: the input class is generated and checked again


def patch_include_clash(case):
    """names that are both the subject of a patch rule and the name of an isar Include node of the case"""
    if not case.get("patch"):
        return []
    subjects = set(line.split()[0] for line in case["patch"].split("\n") if line.strip())
    hrefs = set(os.path.splitext(h)[0] for text in case["files"].values() for h in re.findall(r'<xi:include href="([^"]+)"/>', text))
    return sorted(subjects & hrefs)


# ------------------------------------------------------------------------------------------
# file naming and directory arrangements
# ------------------------------------------------------------------------------------------
# The search rule the arrangements rely on (the one a C preprocessor has, and the one prophyc documents for -I):
# the name in an include is looked up first in the directory of the file that contains the include (the directory
# in which that file was found), then in the -I directories in command-line order; the first hit wins.

def resolve(ref, includer, include_dirs, existing):
    """path (key of `existing`) the include `ref` written in file `includer` denotes, or None"""
    for base in [os.path.dirname(includer)] + [d if d != "." else "" for d in include_dirs]:
        cand = os.path.normpath(os.path.join(base, ref))
        if cand in existing:
            return cand
    return None


def include_graph(sp):
    """{path: [(ref as written, path of the file it denotes)]} of a split without decoys"""
    return {p: [(ref, resolve(ref, p, sp["include_dirs"], sp["files"])) for ref in _INC_RE.findall(text)]
            for p, text in sp["files"].items()}


def rename_files(sp, t, rng, naming):
    """the same split with other file names (directories and include structure unchanged):
    'typed'    every file is named after a declaration it holds — for an included file one that the includers use
               (the one-type-per-file convention: Point.prophy defines Point, the includer has a field of type Point);
    'foreign'  as typed, but one included file carries the name of a declaration that lives in another file
               (types.prophy-like misnomers: the stem is a name of the schema, but not one the file defines)"""
    ds = S.decls(t)
    deps = {d[1]: F.decl_deps(d) for d in ds}
    where = sp["where"]
    used_elsewhere = set(x for n, xs in deps.items() for x in xs if where[x] != where[n])
    new = {}
    for p in sp["order"]:
        mine = [d[1] for d in ds if where[d[1]] == p]
        pref = [n for n in mine if n in used_elsewhere] or mine
        new[p] = rng.choice(pref)
    if naming == "foreign":
        # swap the names of two included files, so that both carry a name of the schema they do not define
        inc = [p for p in sp["order"] if p != sp["main"]]
        if len(inc) >= 2:
            a, b = rng.sample(inc, 2)
            new[a], new[b] = new[b], new[a]
    ext = os.path.splitext(sp["main"])[1]

    def np(p):
        return os.path.join(os.path.dirname(p), new[p] + ext)
    by_base = {os.path.basename(p): new[p] + ext for p in sp["order"]}

    def fix(m):
        ref = m.group(1)
        return '#include "%s"\n' % os.path.join(os.path.dirname(ref), by_base[os.path.basename(ref)])
    return {"files": {np(p): _INC_RE.sub(fix, text) for p, text in sp["files"].items()}, "main": np(sp["main"]),
            "include_dirs": list(sp["include_dirs"]), "order": [np(p) for p in sp["order"]],
            "where": {n: np(p) for n, p in where.items()}}


LIB_ROOTS = ["site", "common", "vendor", "base", "zlib", "api"]
LIB_SUBS = ["", "proto", "proto/v2", "defs"]
MAIN_DIRS = ["", "proj", "app/src"]


def arrange(sp, rng, variant):
    """A flat split (every file in one directory, bare include names) moved into a project / library layout:

      * the main file in the root, in proj/ or in app/src/;
      * the other files in 1-3 groups, each group a directory <library root>[/<sub-directory>]; files of a group
        include each other as siblings (bare name); a file of another directory is included through an -I directory
        (the library root, so that the include reads "proto/msg.prophy", or the group's own directory) or, less
        often, by a path relative to the includer;
      * 2-4 -I directories, in descending alphabetical, shuffled or ascending command-line order (by `variant`),
        sometimes with the first one repeated at the end;
      * decoys: files with the name of an included file but other content (see decoy_text), put where the search rule
        must NOT find them first: in -I directories after the one that holds the real file, in -I directories and next
        to the main file for names that are included as siblings. Every decoy is validated with `resolve`: a
        decoy that the rule would pick for some include of some file is dropped.

    -> split dict as frontends.split_files, plus "decoys": {decoy path: path of the file it imitates}."""
    main = sp["main"]
    others = [p for p in sp["order"] if p != main]
    graph = include_graph(sp)
    one_group = (variant // 4) % 2 == 0
    roots = rng.sample(LIB_ROOTS, rng.randint(2, 3))
    order_mode = ("descending", "shuffled", "descending", "ascending")[variant % 4]
    if order_mode == "shuffled":
        rng.shuffle(roots)
    else:
        roots.sort(reverse=order_mode == "descending")
    ngroups = 1 if one_group else rng.randint(1, min(3, max(1, len(others))))
    groups = []
    for g in range(ngroups):
        root = roots[g % len(roots)] if g else rng.choice(roots[:-1] or roots)   # not the last -I: room for decoys behind it
        sub = rng.choice(LIB_SUBS[1:]) if (one_group and g == 0) else rng.choice(LIB_SUBS)
        d = os.path.join(root, sub) if sub else root
        anchor = root if (g == 0 or rng.random() < 0.7) else d
        if (d, anchor) not in groups:
            groups.append((d, anchor))
    dirs, anchor_of = {main: MAIN_DIRS[(variant // 2) % len(MAIN_DIRS)]}, {}
    for k, p in enumerate(others):
        d, anchor = groups[rng.randrange(len(groups))]
        dirs[p], anchor_of[p] = d, anchor
    include_dirs = list(roots)
    for d, anchor in groups:
        if anchor not in include_dirs:
            include_dirs.insert(rng.randint(0, len(include_dirs)), anchor)
    if variant % 5 == 0:
        include_dirs.append(include_dirs[0])

    def np(p):
        return os.path.normpath(os.path.join(dirs[p], os.path.basename(p)))
    refs = {}
    for p in sp["order"]:
        for _, q in graph[p]:
            if dirs[p] == dirs[q]:
                refs[p, q] = os.path.basename(q)
            elif rng.random() < 0.8:
                refs[p, q] = os.path.relpath(np(q), anchor_of[q])
            else:
                refs[p, q] = os.path.relpath(np(q), dirs[p] or ".")
    files = {}
    for p in sp["order"]:
        it = iter(graph[p])
        files[np(p)] = _INC_RE.sub(lambda m: '#include "%s"\n' % refs[p, next(it)[1]], sp["files"][p])
    true_of = {np(p): p for p in sp["order"]}
    # decoy candidates
    cands = []
    for (p, q), ref in sorted(refs.items()):
        spots = [d for d in include_dirs]
        if dirs[p] == dirs[q]:
            spots.append(dirs[main] or ".")
            spots.append(os.path.dirname(dirs[q]) or ".")
        for d in spots:
            c = os.path.normpath(os.path.join(d, ref))
            if not c.startswith("..") and c not in files and (c, np(q)) not in cands:
                cands.append((c, np(q)))
    density = (0.85, 0.0, 0.85, 0.4)[(variant // 8) % 4]      # every fourth block of layouts has no decoys at all
    decoys = {c: q for c, q in cands if rng.random() < density}
    while True:
        existing = set(files) | set(decoys)
        hit = set()
        for p in sp["order"]:
            for _, q in graph[p]:
                r = resolve(refs[p, q], np(p), include_dirs, existing)
                if r != np(q):
                    if r not in decoys:
                        raise AssertionError("arrange: %s in %s resolves to %s" % (refs[p, q], np(p), r))
                    hit.add(r)
        if not hit:
            break
        for r in hit:
            del decoys[r]
    return {"files": files, "main": np(main), "include_dirs": include_dirs, "order": [np(p) for p in sp["order"]],
            "where": {n: np(p) for n, p in sp["where"].items()}, "decoys": decoys, "i_order": order_mode}


def decoy_text(text, lang):
    """the same declarations with other values and layouts: constants + 3, enumerators + 1, a leading u64 member in
    every struct, one more u64 arm in every union"""
    if lang == "prophy":
        text = re.sub(r"^const (\w+) = (\d+);", lambda m: "const %s = %d;" % (m.group(1), int(m.group(2)) + 3), text, flags=re.M)
        text = re.sub(r"^(struct \w+\n\{\n)", r"\1    u64 decoy_;\n", text, flags=re.M)
        text = re.sub(r"^(union \w+\n\{\n)", r"\1    3999999999: u64 decoy_;\n", text, flags=re.M)
        return re.sub(r"^(    \w+ = )(\d+)(,?)$",
                      lambda m: m.group(1) + str(int(m.group(2)) + (int(m.group(2)) < 4000000000)) + m.group(3), text, flags=re.M)
    text = re.sub(r'^(    <(?:struct|message) name="\w+">\n)', r'\1        <member name="decoy_" type="u64"/>\n', text, flags=re.M)
    text = re.sub(r'^(    <union name="\w+">\n)', r'\1        <member type="u64" name="decoy_" discriminatorValue="3999999999"/>\n',
                  text, flags=re.M)
    return re.sub(r'(<enum-member name="\w+" value=")(\d+)"',
                  lambda m: m.group(1) + str(int(m.group(2)) + (int(m.group(2)) < 4000000000)) + '"', text)


def add_decoys(case, sp):
    """decoy files of an arranged split, imitating the final texts of the case's files"""
    ext = os.path.splitext(case["main"])[1]

    def x(p):
        return os.path.splitext(p)[0] + ext
    case["decoys"] = {x(c): decoy_text(case["files"][x(q)], case["lang"]) for c, q in sorted(sp.get("decoys", {}).items())}
    case["i_order"] = sp.get("i_order")


def features(case):
    """which of the directory / naming situations a case holds (for the coverage record)"""
    out = set()
    ext = os.path.splitext(case["main"])[1]
    rx = _INC_RE if ext == ".prophy" else re.compile(r'<xi:include href="([^"]+)"/>')
    existing = set(case["files"])
    g = {p: [(ref, resolve(ref, p, case["include_dirs"], existing)) for ref in rx.findall(text)] for p, text in case["files"].items()}
    dirs = [d if d != "." else "" for d in case["include_dirs"]]
    for p, incs in g.items():
        for ref, q in incs:
            if q is None:
                continue
            through_i = os.path.normpath(os.path.join(os.path.dirname(p), ref)) != q
            if through_i:
                out.add("include found through -I")
                if os.path.dirname(ref):
                    out.add("include found through -I in a sub-directory of it")
                if any(os.path.dirname(q2) == os.path.dirname(q) and not os.path.dirname(r2) for r2, q2 in g[q]):
                    out.add("file found through -I includes a sibling by bare name")
                holders = [d for d in dirs if os.path.normpath(os.path.join(d, ref)) in existing or
                           os.path.normpath(os.path.join(d, ref)) in case.get("decoys", {})]
                if len(set(holders)) > 1:
                    out.add("included name present in several -I directories")
                    if holders != sorted(holders):
                        out.add("included name present in several -I directories given in non-alphabetical order")
            if stem(q) in re.findall(r"\w+", rx.sub("", case["files"][p])):
                out.add("stem of an included file is a name the includer uses")
    if case.get("decoys"):
        out.add("decoy files of lower precedence")
    if len(dirs) != len(set(dirs)):
        out.add("-I directory given twice")
    return out


# ------------------------------------------------------------------------------------------
# one split case
# ------------------------------------------------------------------------------------------

def consts_of(model, base=None):
    out = {}
    for b, nodes in model.get("files", {}).items():
        if base is None or b == base:
            for n in nodes:
                if n["class"] == "Constant":
                    out[n["name"]] = str(n["value"])
                elif n["class"] == "Enum":
                    for mn, mv in n["members"]:
                        out[mn] = str(mv)
    return out


def stem(p):
    return os.path.splitext(os.path.basename(p))[0]


def execute(plan, root, fast):
    """plan: [(tag, cwd relative to root, args, files)] -> one result per run:
    {"files": model} | {"error", "message"}, plus "opens" / "parses" ({abs path: count}) where counted.
    fast: every run inside one subprocess (prophyc.main called repeatedly, counters always on);
    otherwise frontends.model_of per run and a separate instrumented run for the counted ones."""
    if fast:
        res = run_script(_MULTI_SCRIPT, [], root, stdin=json.dumps([{"cwd": c, "args": a + f} for _, c, a, f in plan]),
                         timeout=180)
        if isinstance(res, list) and len(res) == len(plan):
            return res
        return None
    out = []
    for tag, c, a, f in plan:
        cwd = os.path.join(root, c)
        m = F.model_of(f, a, cwd=cwd, timeout=60)
        if tag in ("main file only", "all files on one command line") and "error" not in m:
            cnt = run_script(_COUNT_SCRIPT, a + f, cwd)
            m["opens"], m["parses"] = cnt.get("opens"), cnt.get("parses")
        out.append(m)
    return out


def run_split_case(case, root, fast=False):
    """-> [(kind, signature, detail, cwd, command)]; None when the fast route itself broke down"""
    fails = []
    lang_args = ["--isar"] if case["lang"] == "isar" else []
    os.makedirs(root, exist_ok=True)
    F.materialise(case["files"], root)
    F.materialise(case.get("decoys") or {}, root)
    for d in case["include_dirs"]:
        os.makedirs(os.path.join(root, d), exist_ok=True)
    F.write_text(os.path.join(root, case["single_name"]), case["single"])
    for d in ("gen_single", "gen_all", "gen_cwd", "gen_sep", "elsewhere"):
        os.makedirs(os.path.join(root, d), exist_ok=True)
    for d in ("gen_all", "gen_cwd", "gen_sep"):
        F.write_text(os.path.join(root, d, "__init__.py"), "")
    patch_args = []
    if case.get("patch"):
        F.write_text(os.path.join(root, "rules.patch"), case["patch"])
        patch_args = ["--patch", os.path.join(root, "rules.patch")]
    mstem = stem(case["main"])
    base_args = lang_args + patch_args

    def inc(prefix):
        out = []
        for d in case["include_dirs"]:
            out += ["-I", os.path.normpath(os.path.join(prefix, d))]
        return out

    def fail(kind, sig, detail, cwd=".", cmd=""):
        fails.append((kind, sig, detail, cwd, cmd))

    order_b = list(case["order"])
    random.Random(len(case["single"])).shuffle(order_b)
    if case.get("absolute"):
        files_c, inc_c, out_c = [os.path.join(root, p) for p in case["order"]], inc(root), os.path.join(root, "gen_cwd")
    else:
        files_c, inc_c, out_c = [os.path.join("..", p) for p in case["order"]], inc(".."), os.path.join("..", "gen_cwd")
    A, B, C_, D = "main file only", "all files on one command line", "from another working directory", "file by file"
    plan = [("single", ".", base_args + ["--python_out", "gen_single"], [case["single_name"]]),
            (A, ".", base_args + inc(".") + ["--void_out"], [case["main"]]),
            (B, ".", base_args + inc(".") + ["--python_out", "gen_all"], order_b),
            (C_, "elsewhere", base_args + inc_c + ["--python_out", out_c], files_c)]
    for p in case["order"]:
        plan.append((D, ".", base_args + inc(".") + ["--python_out", "gen_sep"], [p]))
    res = execute(plan, root, fast)
    if res is None:
        return None

    def cmdline(i):
        return "prophyc " + " ".join(a for a in plan[i][2] + plan[i][3] if a not in patch_args or a == "--patch")

    single = res[0]
    if "error" in single:
        return [("harness: the single-file schema does not compile", single["error"],
                 "%s: %s" % (single["error"], single.get("message", "")[:300]), ".", "")]
    want = F.structs_of(single)
    want_c = consts_of(single)

    def compare(i, only_base=None):
        tag, cwd, model = plan[i][0], plan[i][1], res[i]
        if "error" in model:
            fail("multi-file build fails where the single file compiles", "%s: %s" % (tag, model["error"]),
                 "%s: %s: %s" % (tag, model["error"], model.get("message", "")[:300]), cwd, cmdline(i))
            return False
        got = F.structs_of(model, only_base)
        ref = {k: v for k, v in want.items() if k in got} if only_base else want
        diffs = F.compare_layout(ref, got)
        if only_base and case["root"] not in got:
            diffs.append(("missing", case["root"], True, False))
        if diffs:
            fail("layout differs from the single-file build", "%s: %s" % (tag, diffs[0][0]),
                 "%s: %s" % (tag, json.dumps(diffs[:5])), cwd, cmdline(i))
        got_c = consts_of(model, only_base)
        bad = {k: (want_c.get(k), v) for k, v in got_c.items() if want_c.get(k) != v}
        if not only_base:
            bad.update({k: (v, None) for k, v in want_c.items() if k not in got_c})
        if bad:
            fail("constants differ from the single-file build", tag, "%s: %s" % (tag, json.dumps(bad)[:300]), cwd, cmdline(i))
        return True

    compare(1, only_base=mstem)
    ok_b = compare(2)
    ok_c = compare(3)
    ok_d = True
    for i in range(4, len(plan)):
        if "error" in res[i]:
            ok_d = False
            fail("multi-file build fails where the single file compiles", "%s: %s" % (D, res[i]["error"]),
                 "compiling %s alone: %s: %s" % (plan[i][3][0], res[i]["error"], res[i].get("message", "")[:300]), ".", cmdline(i))
            break
    # (2) generated Python
    others = [stem(p) for p in case["order"] if p != case["main"]]
    mods = [{"tag": "single", "dir": os.path.join(root, "gen_single"), "module": os.path.splitext(case["single_name"])[0]}]
    how = {"gen_all": B, "gen_cwd": C_, "gen_sep": D}
    for tag, ok in (("gen_all", ok_b), ("gen_cwd", ok_c), ("gen_sep", ok_d)):
        if ok:
            mods.append({"tag": tag, "dir": root, "pkg": tag, "module": mstem, "others": others})
    enc = run_script(_ENC_SCRIPT, [], root, stdin=json.dumps(
        {"schema": case["schema"], "values": case["values"], "mods": mods, "uses": case.get("uses")}))
    if "error" in enc or "import_error" in enc.get("single", {"import_error": "no result"}):
        fail("harness: the single-file module does not import", "enc",
             str(enc.get("message") or enc.get("single", {}).get("import_error"))[:300])
    else:
        ref = enc["single"]
        for m in mods[1:]:
            r = enc.get(m["tag"], {"import_error": "no result"})
            tag = how[m["tag"]]
            if "import_error" in r or r.get("other_import_errors"):
                err = r.get("import_error") or json.dumps(r["other_import_errors"])
                fail("generated per-file Python modules fail to import", "%s: %s" % (tag, re.sub(r"'[^']*'", "'..'", err)[:80]),
                     "%s: %s" % (tag, err))
                continue
            for vi, (a, b) in enumerate(zip(ref["enc"], r["enc"])):
                if a != b:
                    fail("encoding differs from the single-file module", tag,
                         "%s: value #%d: single %s, multi-file %s" % (tag, vi, a, b))
                    break
            if ref.get("uses") != r.get("uses"):
                fail("encoding differs from the single-file module", tag + " (struct sized by included constants)",
                     "%s: %s: single %s, multi-file %s" % (tag, case.get("uses"), ref.get("uses"), r.get("uses")))
            bad = {k: (v, r["consts"].get(k)) for k, v in ref["consts"].items() if r["consts"].get(k) != v}
            if bad:
                fail("constants of the Python modules differ from the single-file module", tag,
                     "%s: %s" % (tag, json.dumps(bad)[:300]))
    # (3) each file read and parsed once per run
    for i, expect in ((2, case["order"]), (1, None)):
        c = res[i]
        if "error" in c or c.get("opens") is None:
            continue
        for what in ("opens", "parses"):
            cnt = {os.path.relpath(k, root): v for k, v in c[what].items() if not k.endswith("rules.patch")}
            twice = {k: v for k, v in cnt.items() if v > 1}
            never = [p for p in (expect or []) if cnt.get(os.path.normpath(p), 0) == 0]
            if twice:
                fail("a file is processed more than once in one run", "%s: %s" % (plan[i][0], what),
                     "%s: %s per file: %s" % (plan[i][0], what, json.dumps(cnt)), ".", cmdline(i))
            if never:
                fail("a file given on the command line is never processed", "%s: %s" % (plan[i][0], what),
                     "%s: %s per file: %s" % (plan[i][0], what, json.dumps(cnt)), ".", cmdline(i))
    return fails


# ------------------------------------------------------------------------------------------
# (4) missing and cyclic includes
# ------------------------------------------------------------------------------------------

def _p(body, incs=()):
    return "".join('#include "%s"\n' % i for i in incs) + body


def _x(body, incs=(), ns="xi:"):
    head = '<x xmlns:xi="http://www.w3.org/2001/XInclude">' if ns else "<x>"
    return '<?xml version="1.0" encoding="utf-8"?>\n%s\n%s%s</x>\n' % (
        head, "".join('    <%sinclude href="%s"/>\n' % (ns, i) for i in incs), body)


def _xs(name, members):
    return '    <struct name="%s">\n%s    </struct>\n' % (name, "".join(
        '        <member name="%s" type="%s"/>\n' % (n, t) for n, t in members))


def error_cases():
    """[(label, lang, files, main, include_dirs, expect)] expect: 'fail' | 'ok'"""
    out = []
    for lang in ("prophy", "isar"):
        ext = ".prophy" if lang == "prophy" else ".xml"

        def f(name, members, incs=()):
            incs = [i + ext for i in incs]
            if lang == "prophy":
                return _p("struct %s { %s };\n" % (name, " ".join("%s %s;" % (t, n) for n, t in members)), incs)
            return _xs_doc(name, members, incs)

        def _xs_doc(name, members, incs):
            return _x(_xs(name, members), incs)

        def add(label, files, main, expect, include_dirs=()):
            out.append((label, lang, {k + ext if not k.endswith(ext) else k: v for k, v in files.items()}, main + ext,
                        list(include_dirs), expect))

        A_uses_B = [("a", "u8"), ("b", "B")]
        add("control: A includes B", {"a": f("A", A_uses_B, ["b"]), "b": f("B", [("x", "u16")])}, "a", "ok")
        add("missing include", {"a": f("A", [("a", "u8")], ["nothere"])}, "a", "fail")
        add("missing include whose types are used", {"a": f("A", A_uses_B, ["nothere"])}, "a", "fail")
        add("missing include next to a good one", {"a": f("A", A_uses_B, ["b", "nothere"]), "b": f("B", [("x", "u16")])}, "a", "fail")
        add("missing include inside an included file", {"a": f("A", A_uses_B, ["b"]), "b": f("B", [("x", "u16")], ["nothere"])}, "a", "fail")
        add("include found only through a directory that is not given with -I",
            {"a": f("A", A_uses_B, ["b"]), "inc/b": f("B", [("x", "u16")])}, "a", "fail")
        add("control: the same with -I inc", {"a": f("A", A_uses_B, ["b"]), "inc/b": f("B", [("x", "u16")])}, "a", "ok", ["inc"])
        add("file includes itself", {"a": f("A", [("a", "u8")], ["a"])}, "a", "fail")
        add("A includes B includes A", {"a": f("A", A_uses_B, ["b"]), "b": f("B", [("x", "u16")], ["a"])}, "a", "fail")
        add("A includes B includes A, B uses A", {"a": f("A", A_uses_B, ["b"]), "b": f("B", [("x", "A")], ["a"])}, "a", "fail")
        add("ring A -> B -> C -> A", {"a": f("A", A_uses_B, ["b"]), "b": f("B", [("x", "C")], ["c"]),
                                      "c": f("C", [("y", "u32")], ["a"])}, "a", "fail")
        add("cycle below the main file: A -> B -> C -> B", {"a": f("A", A_uses_B, ["b"]), "b": f("B", [("x", "C")], ["c"]),
                                                            "c": f("C", [("y", "u32")], ["b"])}, "a", "fail")
        add("control: diamond A -> B, C -> D", {"a": f("A", [("b", "B"), ("c", "C")], ["b", "c"]), "b": f("B", [("d", "D")], ["d"]),
                                                "c": f("C", [("d", "D")], ["d"]), "d": f("D", [("y", "u32")])}, "a", "ok")
        if lang == "isar":
            out.append(("missing include written as plain <include href>", lang,
                        {"a.xml": _x(_xs("A", [("a", "u8")]), ["nothere.xml"], ns="")}, "a.xml", [], "fail"))
    return out


def run_error_case(ec, root):
    label, lang, files, main, include_dirs, expect = ec
    os.makedirs(os.path.join(root, "out"), exist_ok=True)
    F.materialise(files, root)
    args = (["--isar"] if lang == "isar" else [])
    for d in include_dirs:
        args += ["-I", d]
    args += ["--python_out", "out"]
    r = F.compile_files([main], args, cwd=root, timeout=30)
    r2 = F.compile_files([main], args, cwd=root, timeout=30, entry="main") if not r["timeout"] else r
    outcome = F.classify(r)
    detail = "`prophyc %s`: %s (exit code %s), via prophyc.main: %s; stderr: %s" % (
        " ".join(args + [main]), outcome, r["rc"], F.classify(r2), r["stderr"].strip()[-300:] or "(empty)")
    fails = []
    if expect == "fail":
        if r["timeout"]:
            fails.append(("prophyc hangs on a missing or cyclic include", "%s: %s" % (lang, label), detail))
        elif r["rc"] == 0:
            fails.append(("missing or cyclic include is not reported as an error", "%s: %s" % (
                lang, "warning only" if "warning" in r["stderr"] else "silently accepted"), detail))
        elif r["traceback"] or outcome == "bare-message":
            # non-zero exit: reported; how (diagnostic vs. stray exception text) is C13's business
            pass
    elif r["rc"] != 0:
        fails.append(("harness: positive control of the include-error cases fails", "%s: %s" % (lang, label), detail))
    return fails, outcome


# ------------------------------------------------------------------------------------------

def load_corpus():
    d = os.path.join(common.VERIF, "corpus", "C16")
    out = []
    if os.path.isdir(d):
        for f in sorted(os.listdir(d)):
            if f.endswith(".json"):
                with open(os.path.join(d, f)) as fh:
                    j = json.load(fh)
                j["label"] = "corpus:" + f
                out.append(j)
    return out


def case_dict(case, kind, detail, cwd, cmd=""):
    return {"kind": kind, "style": case.get("style"), "naming": case.get("naming", "part"), "files": case["files"],
            "decoys": case.get("decoys") or {}, "main": case["main"],
            "include_dirs": case["include_dirs"], "cwd": cwd, "detail": detail, "command": cmd,
            "mode": "split", "lang": case["lang"], "label": case.get("label"),
            "replay": {k: case.get(k) for k in ("lang", "files", "decoys", "main", "include_dirs", "order", "single", "single_name",
                                                 "patch", "uses", "schema", "values", "root", "absolute", "style", "naming",
                                                 "label")}}


def error_case_dict(ec, kind, detail):
    label, lang, files, main, include_dirs, expect = ec
    return {"kind": kind, "style": "include-errors", "files": files, "main": main, "include_dirs": include_dirs, "cwd": ".",
            "detail": detail, "mode": "error", "lang": lang, "label": label, "expect": expect}


def replay(chk, path):
    with open(path) as f:
        rec = json.load(f)
    root = common.scratch("c16r")
    name = os.path.splitext(os.path.basename(path))[0]
    chk.count()
    if rec.get("mode") == "error":
        ec = (rec["label"], rec["lang"], rec["files"], rec["main"], rec["include_dirs"], rec.get("expect", "fail"))
        fails, _ = run_error_case(ec, root)
        fails = [(k, s, d, ".", "") for k, s, d in fails]
    else:
        fails = run_split_case(rec["replay"], root)
    again = [f for f in fails if f[0] == rec["kind"]]
    if again:
        new = dict(rec)
        new["detail"] = again[0][2]
        chk.violation(name, new, "still fails: %s" % again[0][2][:200])
    else:
        print("replay: the recorded failure (%s) does not occur any more%s" % (
            rec["kind"], "; other failures: %s" % sorted(set(f[0] for f in fails)) if fails else ""))
    return chk.finish(level="proof")


def build_cases(seed, n_schemas):
    rng = random.Random(seed)
    schemas = []
    rs = S.RandomSchemas(random.Random(seed + 1), prefix="M")
    ex = list(S.exhaustive_small(2))
    nm = S.Namer("W")
    while len(schemas) < n_schemas:
        if len(schemas) % 4 == 3:
            label, st = rng.choice(ex)
            label, t = rng.choice(S.wrappers(label, st, nm))
            k = len(schemas)
            t = S.mk_struct("Top%d" % k, [("e", "opt", S.mk_enum("TopEn%d" % k, [
                ("TopEn%d_A" % k, 1), ("TopEn%d_B" % k, 7)])), ("w", "plain", t)])
        else:
            t = rs.message()
        try:
            S.to_prophy(t)
        except ValueError:
            continue
        if len(S.decls(t)) >= 3:
            schemas.append(t)
    cases = []
    skipped = {}

    def emit(i, t, sp, base, isar):
        if len(sp["files"]) < 2:
            skipped["split into one file"] = skipped.get("split into one file", 0) + 1
            return
        tail = "%s:%s:%d" % (base["style"], base["naming"], len(sp["files"]))
        c = prophy_case(t, sp)
        c.update(base)
        add_decoys(c, sp)
        c["label"] = "prophy:%d:%s" % (i, tail)
        cases.append(c)
        if isar:
            try:
                c = isar_case(t, sp, "inline" if i % 2 else "direct", random.Random(i))
                if PENDING_EXCLUDE and patch_include_clash(c):
                    c = isar_case(t, sp, "inline" if i % 2 else "direct", random.Random(i), bytes_via="direct")
                    if patch_include_clash(c):
                        key = "PENDING-FINDING: isar patch rule for a name that is also the name of an include"
                        skipped[key] = skipped.get(key, 0) + 1
                        return
            except F.NotExpressible as e:
                key = "isar: " + e.reason.split(" ", 1)[-1][:50]
                skipped[key] = skipped.get(key, 0) + 1
                return
            c.update(base)
            add_decoys(c, sp)
            c["label"] = "isar:%d:%s" % (i, tail)
            cases.append(c)

    for i, t in enumerate(schemas):
        values = S.gen_values(random.Random(seed * 7 + i), t, 3)
        for si, style in enumerate(F.SPLIT_STYLES):
            nfiles = 2 + (i + si) % 5
            sp = F.split_files(t, random.Random(seed * 31 + i * 4 + si), nfiles, style)
            # one of the four splits of every schema has its files named after the types they define (every 5th
            # schema: with two included files carrying each other's name), the others are called part<N>
            naming = "part" if si != i % len(F.SPLIT_STYLES) else ("foreign" if i % 5 == 4 else "typed")
            if naming != "part" and len(sp["files"]) >= 2:
                sp = rename_files(sp, t, random.Random(seed * 37 + i), naming)
            base = {"schema": t, "values": values, "root": t[1], "style": style, "naming": naming, "absolute": (i + si) % 3 == 0}
            emit(i, t, sp, base, (i + si) % 3 == 1)       # every third split also as isar
        # project / library layouts: several -I directories, sub-directories of them, siblings, decoys
        r3 = random.Random(seed * 41 + i)
        flat = ("chain", "diamond", "random")[i % 3]
        naming = ("part", "typed")[(i // 3) % 2]
        sp = F.split_files(t, r3, 2 + (i // 3) % 5, flat)
        if len(sp["files"]) >= 2:
            if naming == "typed":
                sp = rename_files(sp, t, r3, naming)
            sp = arrange(sp, r3, i)
        base = {"schema": t, "values": values, "root": t[1], "style": "layout-" + flat, "naming": naming, "absolute": i % 2 == 0}
        emit(i, t, sp, base, i % 3 == 2)
    return schemas, cases, skipped


def error_category(label):
    if label.startswith("control"):
        return "control"
    return "missing include" if re.search(r"missing|nothere|not given with -I", label) else "cyclic include"


def main():
    chk = Check("C16")
    chk.build()
    if chk.replay_mode:
        return replay(chk, chk.replay_mode)
    rng = random.Random(chk.seed)
    quick = chk.tier == "quick"
    schemas, cases, skipped = build_cases(chk.seed, 60 if quick else 600)
    corpus = load_corpus()
    for j in corpus:
        if j.get("mode") == "split":
            c = dict(j["replay"])
            c["label"] = j["label"]
            cases.append(c)

    root = common.scratch("c16")

    def job(a):
        i, c, fast = a
        d = os.path.join(root, "%s%d" % ("f" if fast else "s", i))
        try:
            return run_split_case(c, d, fast=fast)
        finally:
            F._rmtree(d)

    # screen: all runs of a case in one process; verdicts: the stand-alone route, on every case the screen flags
    # (or could not run), on the corpus and on a sample of the others
    screened = F.pmap(job, [(i, c, True) for i, c in enumerate(cases)])
    flagged = [i for i, r in enumerate(screened) if r is None or r]
    clean = [i for i, r in enumerate(screened) if r is not None and not r]
    sample = rng.sample(clean, min(len(clean), max(8, len(clean) // 10)))
    sample += [i for i in clean if cases[i]["label"].startswith("corpus:") and i not in sample]
    todo = sorted(set(flagged + sample))
    results = dict(zip(todo, F.pmap(job, [(i, cases[i], False) for i in todo])))
    screen_only = [cases[i]["label"] for i in flagged if not results[i]]
    missed_by_screen = [cases[i]["label"] for i in sample if results[i]]

    ecs = error_cases() + [(j["label"], j["lang"], j["files"], j["main"], j["include_dirs"], j.get("expect", "fail"))
                           for j in corpus if j.get("mode") == "error"]
    # include errors injected into real splits (frontends.mutate_fileset: missing / self / mutual / ring)
    wanted = ("includes a missing file", "includes itself", "include each other", "include ring")
    mrng = random.Random(chk.seed + 5)
    holders = {}
    for c in cases[:: max(1, len(cases) // (24 if quick else 200))]:
        for _ in range(30):
            files, desc = F.mutate_fileset(c["files"], c["main"], mrng, kind=c["lang"])
            if any(w in desc for w in wanted):
                holders["%s (%s)" % (desc, c["label"])] = [p for p in files if c["files"].get(p) != files[p]]
                ecs.append(("%s (%s)" % (desc, c["label"]), c["lang"], files, c["main"], c["include_dirs"], "fail-if-reachable"))
                break

    def ejob(a):
        i, ec = a
        d = os.path.join(root, "e%d" % i)
        try:
            if ec[5] == "fail-if-reachable":
                # the defect may be out of the main file's reach: compile every file, at least one must be refused
                label, lang, files, main, include_dirs, _ = ec
                worst = None
                # the files that hold the injected include first: a file that does not reach the defect compiles silently,
                # and rightly so; the reported verdict is that of a file that holds it
                for p in sorted(files, key=lambda p: (p not in holders.get(label, ()), p)):
                    fails, outcome = run_error_case((label, lang, files, p, include_dirs, "fail"), os.path.join(d, stem(p)))
                    if not fails:
                        return [], "refused"
                    worst = worst or fails
                return worst, "accepted by every file"
            return run_error_case(ec, d)
        finally:
            F._rmtree(d)

    eresults = F.pmap(ejob, list(enumerate(ecs)))

    # ---- verdicts, deduplicated by (language, kind, signature); the smallest input represents its class
    seen = {}
    total_fail = 0

    def note(key, size, make):
        if key not in seen:
            seen[key] = [size, make(), 1]
        else:
            seen[key][2] += 1
            if size < seen[key][0]:
                seen[key][0], seen[key][1] = size, make()

    situations = {}
    for i, c in enumerate(cases):
        chk.count()
        chk.seen_class((c["lang"], c["style"], c.get("naming", "part"), len(c["files"]), bool(c["include_dirs"]),
                        bool(c.get("absolute"))), True)
        for f in features(c):
            situations[f] = situations.get(f, 0) + 1
        for kind, sig, detail, cwd, cmd in results.get(i) or []:
            total_fail += 1
            note((c["lang"], kind, sig), sum(len(v) for v in c["files"].values()),
                 lambda: case_dict(c, kind, detail, cwd, cmd))
    outcomes = {}
    for ec, (fails, outcome) in zip(ecs, eresults):
        chk.count()
        cat = error_category(ec[0])
        chk.seen_class(("include-error", ec[1], cat, ec[5], len(ec[2])), True)
        ok = "%s / %s / expected %s: %s" % (ec[1], cat, "failure" if ec[5] != "ok" else "success", outcome)
        outcomes[ok] = outcomes.get(ok, 0) + 1
        for kind, sig, detail in fails:
            total_fail += 1
            sig = sig if kind.startswith("harness") else "%s: %s" % (cat, sig.split(": ", 1)[1])
            note((ec[1], kind, sig), sum(len(v) for v in ec[2].values()), lambda: error_case_dict(ec, kind, detail))
    distinct = []
    for key in sorted(seen, key=lambda k: (k[1].startswith("harness"), k[1], seen[k][0])):
        size, cd, n = seen[key]
        cd["occurrences"] = n
        cd["signature"] = key[2]
        distinct.append({"lang": key[0], "kind": key[1], "signature": key[2], "cases": n, "label": cd.get("label")})
        name = re.sub(r"[^a-z0-9]+", "-", ("%s %s %s" % key).lower())[:90].strip("-")
        chk.violation(name, cd, "%s [%s, %s] x%d: %s" % (key[1], key[0], key[2], n, cd["detail"][:200]))

    by = {}
    for c in cases:
        k = "%s/%s/%s" % (c["lang"], c["style"], c.get("naming", "part"))
        by[k] = by.get(k, 0) + 1
    chk.coverage["split_cases"] = len(cases)
    chk.coverage["split_cases_by_lang_style"] = by
    chk.coverage["split_cases_standalone"] = len(todo)
    chk.coverage["split_cases_by_situation"] = situations
    chk.coverage["screen_only_failures_not_confirmed_standalone"] = screen_only
    chk.coverage["standalone_failures_missed_by_screen"] = missed_by_screen
    chk.coverage["include_error_cases"] = len(ecs)
    chk.coverage["include_error_outcomes"] = outcomes
    chk.coverage["skipped"] = skipped
    chk.coverage["failures_total"] = total_fail
    chk.coverage["distinct_failures"] = distinct
    chk.coverage["rule"] = (
        "%d valid schemas (random messages with >= 3 declarations; every 4th an exhaustive-small member pair wrapped as nested / "
        "array / optional / union arm) x split styles chain, diamond, random, subdirs (-I and relative includes) into 2-6 files; "
        "per schema also one split with every file named after a type it defines (every 5th: two included files with swapped "
        "names) and one project / library layout (main file in the root, proj/ or app/src/; the other files as sibling groups in "
        "<library root>[/sub-directory]; includes through the library root ('proto/msg.prophy'), the group directory, or "
        "relative paths; 2-4 -I directories in descending / shuffled / ascending command-line order, sometimes one repeated; "
        "same-named decoy files with other constants and layouts at every place of lower precedence under the search rule "
        "'directory of the including file, then -I in command-line order'); a "
        "third of the splits also as isar xml with <xi:include>. Per split: single-file build vs (a) main only, (b) all files on one "
        "command line in random order, (c) from a sibling working directory with relative or absolute paths, (d) file by file: "
        "model layout of every struct/union, constants and enumerators (compare_layout); generated Python imported as a "
        "package, 3 values (min / max / mixed) encoded in both byte orders, module-level integer constants, a struct sized by "
        "constants of included files; per-run open/parse counters per file. All runs of a split are first made in one process; "
        "flagged splits, the corpus and a tenth of the others are decided through frontends.model_of, one process per run. "
        "Include errors: %d hand-written missing / self / mutual / ring / nested cases for prophy text and isar with positive "
        "controls, plus frontends.mutate_fileset applied to real splits; oracle: non-zero exit of `python -m prophyc`."
        % (len(schemas), len(error_cases())))
    if cases:
        c = cases[len(cases) // 2]
        chk.sample({"style": c["style"], "lang": c["lang"], "files": c["files"], "main": c["main"], "include_dirs": c["include_dirs"]})
    if screen_only:
        print("note: flagged by the in-process screen only (not reproduced stand-alone): %s" % screen_only[:10])
    print("C16: %d split cases %s, %d decided stand-alone; %d include-error cases; %d failures, %d distinct" % (
        len(cases), by, len(todo), len(ecs), total_fail, len(distinct)))
    for k, v in sorted(situations.items()):
        print("    splits where %s: %d" % (k, v))
    for k, v in sorted(outcomes.items()):
        print("    include errors: %s: %d" % (k, v))
    for d in distinct:
        print("  - [%s] %s [%s]: %d cases; smallest: %s" % (d["lang"], d["kind"], d["signature"], d["cases"], d["label"]))
    chk.assumptions += ["an include is searched in the directory of the including file first, then in the -I directories in "
                        "command-line order (decoy files are only put where this rule does not look first)", "equivalence of the Python outputs is observed on the classes reachable from the root message and on "
                        "module-level integer names", "the single-file reference is the concatenation of the files' "
                        "declarations in include order (for the unaugmented schema this is schema.to_prophy up to order)"]
    # the tie of the theorems of props/C16.v: the real FileProcessor against model/PcFiles.v on generated include graphs
    import filecorr
    filecorr.run(chk, 250 if chk.tier == 'quick' else 3000)
    return chk.finish(level="proof")


if __name__ == "__main__":
    sys.exit(main())
