"""Correspondence between prophyc.file_processor.FileProcessor and the Coq model PcFiles: generated include
graphs (trees, diamonds, chains, cycles, self-includes, missing files, several main files in every order) are
written as real files, processed by the real FileProcessor with a content processor that behaves like the
prophy parser (asks for every include in order, lets include failures end the run), and by the model
(vm_compute). Compared inside Coq: every main file's outcome and include tree, and the order in which files
were handed to the content processor. Property oracles evaluated on the real results: a successful include
tree of a file is the same whatever was processed before it (any order of main files), and no file is handed to
the content processor twice. Used by C16 and C20."""
import itertools
import json
import os
import random
import subprocess
import sys

sys.path.insert(0, os.path.join(os.path.dirname(os.path.abspath(__file__)), "..", "tools"))
import common  # noqa: E402

RUNNER = r'''
import json, os, sys, tempfile, shutil
from prophyc import file_processor
runs = json.load(sys.stdin)
out = []
for files, mains in runs:
    d = tempfile.mkdtemp(prefix="filecorr")
    try:
        for i, items in files.items():
            with open(os.path.join(d, "f%s" % i), "w") as fh:
                fh.write("".join("%s %d\n" % (k, x) for k, x in items))
        log = []
        def content(text, path, process_file, log=log):
            log.append(int(os.path.basename(path)[1:]))
            nodes = []
            for line in text.splitlines():
                k, x = line.split()
                if k == "inc":
                    nodes.append(["inc", int(x), process_file("f%s" % x)])
                else:
                    nodes.append(["def", int(x)])
            return nodes
        fp = file_processor.FileProcessor(content, [])
        res = []
        for m in mains:
            try:
                res.append(["ok", fp(os.path.join(d, "f%d" % m))])
            except file_processor.CyclicIncludeError as e:
                res.append(["cyclic", int(os.path.basename(str(e).split()[1])[1:])]); break
            except file_processor.FileNotFoundError as e:
                res.append(["missing", int(os.path.basename(str(e).split()[1])[1:])]); break
            except Exception as e:
                res.append(["exception", type(e).__name__ + ": " + str(e)[:200]]); break
        out.append({"results": res, "log": log})
    finally:
        shutil.rmtree(d, ignore_errors=True)
json.dump(out, sys.stdout)
'''


def gen_runs(rng, n_random):
    """a run = ({file index: [(kind, x)]}, [main files])"""
    runs = []
    # hand-made shapes
    diamond = {0: [("inc", 1), ("inc", 2), ("def", 10)], 1: [("inc", 3), ("def", 11)], 2: [("def", 12), ("inc", 3)], 3: [("def", 13)]}
    for mains in itertools.permutations([0, 1, 2, 3], 2):
        runs.append((diamond, list(mains)))
    runs.append((diamond, [0, 1, 2, 3, 0]))
    runs.append(({0: [("inc", 0)]}, [0]))
    runs.append(({0: [("def", 1), ("inc", 1)], 1: [("inc", 0), ("def", 2)]}, [0]))
    runs.append(({0: [("def", 1), ("inc", 1)], 1: [("inc", 0), ("def", 2)]}, [1, 0]))
    runs.append(({0: [("inc", 5), ("def", 1)]}, [0]))
    runs.append(({0: [("def", 1)]}, [3]))
    runs.append(({0: [("inc", 1), ("inc", 1), ("inc", 1)], 1: [("def", 4), ("def", 4)]}, [0, 1]))
    # an empty file reached twice (its stored result is an empty list, not "in progress"), alone and in a diamond
    runs.append(({0: [("inc", 1), ("inc", 2)], 1: [("inc", 3)], 2: [("inc", 3)], 3: []}, [0]))
    runs.append(({0: [], 1: [("inc", 0), ("inc", 0)]}, [0, 1, 0]))
    chain = {i: [("def", 100 + i)] + ([("inc", i + 1)] if i < 11 else []) for i in range(12)}
    runs.append((chain, [0]))
    runs.append((chain, [6, 0]))
    for _ in range(n_random):
        n = rng.randint(1, 7)
        acyclic = rng.random() < 0.7
        files = {}
        for i in range(n):
            items = []
            for _ in range(rng.choice([0, 1, 2, 2, 3, 4])):
                if rng.random() < 0.55:
                    j = rng.randrange(n + (1 if rng.random() < 0.1 else 0))      # now and then a missing file
                    if acyclic and j <= i:
                        continue
                    items.append(("inc", j))
                else:
                    items.append(("def", rng.randrange(20)))
            files[i] = items
        mains = [rng.randrange(n) for _ in range(rng.choice([1, 2, 2, 3]))]
        runs.append((files, mains))
        if len(mains) > 1:
            runs.append((files, list(reversed(mains))))
    return runs


def items_coq(items):
    return "[%s]" % "; ".join(("IInc %d" if k == "inc" else "IDef %d") % x for k, x in items)


def nodes_coq(ns):
    return "[%s]" % "; ".join(("NInc %d %s" % (n[1], nodes_coq(n[2]))) if n[0] == "inc" else ("NDef %d" % n[1]) for n in ns)


def res_coq(r):
    if r[0] == "ok":
        return "FOk %s" % nodes_coq(r[1])
    if r[0] == "cyclic":
        return "FErr (ECyclic %d)" % r[1]
    if r[0] == "missing":
        return "FErr (EMissing %d)" % r[1]
    return "FErr EFuel"


def run(chk, n_random):
    rng = random.Random(chk.seed + 16)
    runs = gen_runs(rng, n_random)
    p = subprocess.run([common.PY, "-c", RUNNER], input=json.dumps([[{str(k): v for k, v in f.items()}, m] for f, m in runs]),
                       capture_output=True, text=True, env=common.impl_env(), timeout=1200)
    if p.returncode != 0:
        chk.violation("file-runner", {"kind": "could not run prophyc.file_processor.FileProcessor", "detail": p.stderr[-800:]},
                      "no-failing-input-found", match=False)
        return 0
    impl = json.loads(p.stdout)
    work = common.scratch("filecorr")
    files = []
    CH = 150
    for off in range(0, len(runs), CH):
        lines = []
        for gi, (fsd, mains) in enumerate(runs[off:off + CH]):
            o = impl[off + gi]
            fs = "(fun p => %s None)" % "".join("if Nat.eqb p %d then Some %s else " % (i, items_coq(it)) for i, it in sorted(fsd.items()))
            lines.append("(%d, files_case %s [%s] [%s] [%s])" % (
                off + gi, fs, "; ".join(str(m) for m in mains), "; ".join(res_coq(r) for r in o["results"]),
                "; ".join(str(x) for x in o["log"])))
        f = os.path.join(work, "f%d.v" % off)
        with open(f, "w") as fh:
            fh.write("From Coq Require Import List Arith ZArith.\nFrom Prophy Require Import PcFiles CheckLib.\nImport ListNotations.\n")
            fh.write("Eval vm_compute in [\n%s].\n" % ";\n".join(lines))
        files.append(f)
    res = common.coq_eval_many(files)
    n = 0
    kinds = {}
    for f in files:
        for gi, flat in res[f][0]:
            n += 1
            chk.count()
            fsd, mains = runs[gi]
            o = impl[gi]
            last = o["results"][-1][0] if o["results"] else "none"
            kinds[last] = kinds.get(last, 0) + 1
            chk.seen_class(("files", last, len(fsd), len(mains), sum(1 for it in fsd.values() for k, _ in it if k == "inc")), len(fsd) > 1)
            desc = {"files": {str(k): v for k, v in fsd.items()}, "mains": mains, "observed": o, "model_flags": list(flat)}
            if any(r[0] == "exception" for r in o["results"]):
                chk.violation("files-exc-%d" % gi, dict(desc, kind="FileProcessor let an unexpected exception escape"))
            elif list(flat) != [] and flat[1] == 0:
                # the outcomes differ. The model's outcome is the specified one (props/C16.v: a successful result is the include
                # tree of the file, failures are a genuinely missing file or a file met again while in progress), so this
                # arrangement of files is a concrete input on which the real processor breaks the property
                chk.violation("files-%d" % gi, dict(desc, kind="FileProcessor's outcome for these files differs from the specified one "
                                                                 "(include tree of each main file, or the missing / cyclic failure): "
                                                                 "observed %s" % json.dumps([r[:2] if r[0] != "ok" else "ok" for r in o["results"]])))
            elif list(flat) != []:
                chk.violation("filecorr-%d" % gi, dict(desc, kind="model/implementation correspondence broken (FileProcessor vs model/PcFiles.v): "
                                                                   "same outcomes, other order of handing files to the content processor; "
                                                                   "flags = [97; results equal; parse log equal]"),
                              "no-failing-input-found", match=False)
            # property oracles on the real results
            if len(o["log"]) != len(set(o["log"])):
                chk.violation("files-twice-%d" % gi, dict(desc, kind="a file was handed to the content processor more than once in one run"))
    # the include tree of a file must not depend on what was processed before it
    trees = {}
    for gi, (fsd, mains) in enumerate(runs):
        key0 = json.dumps(sorted((k, v) for k, v in fsd.items()))
        for m, r in zip(mains, impl[gi]["results"]):
            if r[0] == "ok":
                prev = trees.setdefault((key0, m), (gi, r[1]))
                if prev[1] != r[1]:
                    chk.violation("files-order-%d" % gi, {"kind": "the include tree of a file depends on the files processed before it",
                                                          "files": fsd, "file": m, "run_a": runs[prev[0]][1], "tree_a": prev[1],
                                                          "run_b": mains, "tree_b": r[1]})
    chk.coverage["file_processor_correspondence"] = {"runs": n, "last_outcomes": kinds}
    return n
