#!/venv/bin/python
"""C02 — Python decode inverts encode and consumes exactly the message."""
import os
import random
import sys

sys.path.insert(0, os.path.dirname(os.path.abspath(__file__)))
sys.path.insert(0, os.path.join(os.path.dirname(os.path.abspath(__file__)), "..", "tools"))
import codec  # noqa: E402
import schema as S  # noqa: E402
from checklib import Check  # noqa: E402

ENDS = [("<", "LE"), (">", "BE")]


def dec_obs(rt):
    """([0; consumed] | [exc code], value term, reenc bytes term)"""
    if "exc" in rt:
        return "[%d]" % codec.EXN_CODE.get(rt["exc"], 9), "VNone", "[]"
    if "get_exc" in rt or str(rt.get("reenc", "")).startswith("EXC:"):
        return "[8]", "VNone", "[]"
    return ("[0; %d]" % rt["consumed"], S.value_coq(S.value_from_json(rt["value"])), codec.hex_coq(rt["reenc"]))


def expr(cases, jobs):
    def f(i, vi, rv, names, res):
        tt = S.to_coq(cases[i][2], names)
        vv = S.value_coq(S.value_from_json(jobs[i]["values"][vi]))
        parts = []
        for py_e, coq_e in ENDS:
            if rv[py_e].startswith("EXC:") or ("rt" + py_e) not in rv:
                parts.append("[93]")
                continue
            obs, ov, re_ = dec_obs(rv["rt" + py_e])
            parts.append("roundtrip_case %s %s %s %s %s %s %s" % (coq_e, tt, vv, codec.hex_coq(rv[py_e]), obs, ov, re_))
        # the predicate the greedy-tail theorem is stated with must be the spec's notion of an aligned tail on this value
        parts.append("tail_defs_case %s %s" % (tt, vv))
        return "(%d, %d, %s)" % (i, vi, " ++ ".join(parts))
    return f


def on_bad(chk, d, r, i, vi):
    if len(r) == 3 and r[0] == 99 and r[1] in (0, 1) and r[2] in (0, 1):
        d["kind"] = ("definition agreement broken: tail_clean (hypothesis of theorem C02_roundtrip_greedy_tail_aligned) and the spec's "
                     "greedy_tail_aligned differ on this value (result = [99; tail_clean; greedy_tail_aligned])")
        d["result"] = r[:12]
        chk.violation("taildefs-%d-%d" % (i, vi), d, "no-failing-input-found")
    elif 97 in r or 93 in r:
        d["kind"] = "decode(encode(v)) is not (v, whole input), or re-encoding differs"
        d["result"] = r[:12]
        chk.violation("roundtrip-%d-%d" % (i, vi), d)
    else:
        d["kind"] = "model/implementation correspondence broken (decode)"
        d["model_result"] = r[:12]
        chk.violation("corr-%d-%d" % (i, vi), d, "no-failing-input-found")


def main():
    chk = Check("C02")
    chk.build()
    rng = random.Random(chk.seed)
    want = ["encode", "roundtrip"]
    if chk.replay_mode:
        j, t = codec.replay_case(chk.replay_mode)
        cases = [("replay", "replay", t)]
        jobs = codec.make_jobs(cases, rng, 1, want, corpus={0: [S.value_from_json(j["value"])]})
        codec.run_value_cases(chk, cases, jobs, "replay", expr(cases, jobs), on_bad)
        return chk.finish()
    cases, jobs = codec.corpus_jobs("C02", rng, want)
    if cases:
        codec.run_value_cases(chk, cases, jobs, "corpus", expr(cases, jobs), on_bad)
    cases, jobs = codec.standard_streams(chk, rng, want, random_quick=400, random_thorough=6000)
    codec.run_value_cases(chk, cases, jobs, "gen", expr(cases, jobs), on_bad)
    chk.coverage["rule"] = ("same schema/value streams as C01. Each case, both byte orders: the implementation decodes its own "
                            "encoding into a fresh message; outcome, consumed length and decoded value are compared with the Coq "
                            "model py_decode (correspondence); when the value is legal, well-typed and its greedy tail ends "
                            "aligned (computed by the Coq spec), the oracle demands consumed = input length, value = original, "
                            "re-encoding = canonical bytes. distinct_nontrivial as in C01.")
    chk.sample({"schema": S.to_prophy(cases[len(cases) // 3][2]), "value": jobs[len(cases) // 3]["values"][-1]})
    return chk.finish(level="proof")


if __name__ == "__main__":
    sys.exit(main())
