#!/venv/bin/python
"""C18 — text rendering is the same in Python and C++ and is not order-sensitive."""
import os
import random
import sys

sys.path.insert(0, os.path.dirname(os.path.abspath(__file__)))
sys.path.insert(0, os.path.join(os.path.dirname(os.path.abspath(__file__)), "..", "tools"))
import cppcommon as C  # noqa: E402
import schema as S  # noqa: E402
from checklib import Check  # noqa: E402


def has_float(t):
    for d in S.decls(t):
        ms = [ft for _, _, ft in d[2]] if d[0] in ("struct", "union") else []
        if any(ft[0] == "scalar" and ft[1] in ("r32", "r64") for ft in ms):
            return True
    return False


def double_quoted_bytes(t, v):
    """some bytes value's Python repr uses double quotes (contains ' but not ")"""
    if t[0] == "struct":
        for (_, k, ft), x in zip(t[2], v[1]):
            if k[0] in ("fixed", "bound", "limited", "greedy"):
                if ft[0] == "byte":
                    bs = x[1]
                    if 39 in bs and 34 not in bs:
                        return True
                else:
                    if any(double_quoted_bytes(ft, e) for e in x[1]):
                        return True
            elif k[0] == "opt":
                if x is not None and double_quoted_bytes(ft, x[1]):
                    return True
            elif double_quoted_bytes(ft, x):
                return True
    elif t[0] == "union":
        return double_quoted_bytes(t[2][v[1]][2], v[2])
    return False


def main():
    chk = Check("C18")
    chk.build()
    rng = random.Random(chk.seed)
    quick = chk.tier == "quick"
    cases, jobs, pyres, records, tail_ok, errors = C.canonical_ops(
        chk, 200 if quick else 600, 6 if quick else 2, 3 if quick else 4, rng, want=("encode", "str"), k=2)
    C.report_build_errors(chk, cases, errors)
    skipped = {"float": 0, "double_quoted": 0, "greedy_tail": 0}
    for i, vi, e, h, o in records:
        if e != "little" or vi < 0:
            continue
        t = cases[i][2]
        v = S.value_from_json(jobs[i]["values"][max(vi, 0)])
        if has_float(t):
            skipped["float"] += 1
            continue
        if double_quoted_bytes(t, v):
            skipped["double_quoted"] += 1
            continue
        if not tail_ok.get((i, vi)):
            skipped["greedy_tail"] += 1
            continue
        chk.count()
        chk.seen_class(S.shape_class(t, v), S.nontrivial(t, v))
        py = pyres[i]["values"][vi].get("str")
        if not o.get("ok") or "print" not in o:
            continue      # C03's question
        if py is None or py.startswith("EXC:"):
            chk.violation("str-%d-%d" % (i, vi), C.case_of(cases, jobs, i, vi, {"kind": "Python str() raised", "python": py}))
        elif o["print"] != py:
            chk.violation("print-%d-%d" % (i, vi), C.case_of(cases, jobs, i, vi, {
                "kind": "Python str() and C++ print() differ", "python": py, "cpp": o["print"], "canonical": h}))
    chk.coverage["skipped_out_of_scope"] = skipped
    chk.coverage["rule"] = ("schemas/values as in C03 without floating point members; values with a bytes field whose Python repr uses "
                            "double quotes are out of the property's scope and skipped; the same value is held by a Python message "
                            "(str()) and by the C++ object decoded from its canonical bytes (print()); texts must be byte-identical "
                            "(this also catches one field changing how later ones are rendered).")
    for i, vi, e, h, o in records[:400]:
        if "print" in o and len(o["print"]) > 40 and e == "little":
            chk.sample({"schema": S.to_prophy(cases[i][2]), "text": o["print"]})
            break
    return chk.finish(level="exploration")


if __name__ == "__main__":
    sys.exit(main())
