#!/venv/bin/python
"""C18 — text rendering is the same in Python and C++ and is not order-sensitive."""
import os
import random
import sys

sys.path.insert(0, os.path.dirname(os.path.abspath(__file__)))
sys.path.insert(0, os.path.join(os.path.dirname(os.path.abspath(__file__)), "..", "tools"))
import codec  # noqa: E402
import common  # noqa: E402
import cppcommon as C  # noqa: E402
import schema as S  # noqa: E402
from checklib import Check  # noqa: E402


def has_float(t):
    for d in S.decls(t):
        ms = [ft for _, _, ft in d[2]] if d[0] in ("struct", "union") else []
        if any(ft[0] == "scalar" and ft[1] in ("r32", "r64") for ft in ms):
            return True
    return False


def float_text_only(py, cpp):
    """the two texts have the same lines except that some 'name: value' lines show the same floating point number in
    two spellings (Python repr: shortest round-trip digits, always a '.0' or an exponent; iostream: 6 significant digits)"""
    a, b = py.split("\n"), cpp.split("\n")
    if len(a) != len(b):
        return False
    diff = False
    for x, y in zip(a, b):
        if x == y:
            continue
        px, sx, vx = x.partition(": ")
        qy, sy, vy = y.partition(": ")
        if px != qy or not sx or not sy:
            return False
        try:
            fx, fy = float(vx), float(vy)
        except ValueError:
            return False
        if (fx != fx and fy != fy) or fx == fy or abs(fx - fy) <= 1e-5 * max(abs(fx), abs(fy)):
            diff = True
            continue
        return False
    return diff


def main():
    chk = Check("C18")
    chk.build()
    rng = random.Random(chk.seed)
    quick = chk.tier == "quick"
    cases, jobs, pyres, records, tail_ok, errors = C.canonical_ops(
        chk, 200 if quick else 600, 6 if quick else 2, 3 if quick else 4, rng, want=("encode", "str"), k=2)
    C.report_build_errors(chk, cases, errors)
    skipped = {"float": 0, "greedy_tail": 0}     # "float": not compared in Coq (still compared with each other)
    entries = []          # (i, vi, who, text)
    seen_py = set()
    for i, vi, e, h, o in records:
        if e != "little" or vi < 0:
            continue
        t = cases[i][2]
        v = S.value_from_json(jobs[i]["values"][max(vi, 0)])
        isf = has_float(t)      # float text is outside the Coq models (repr() / iostream formatting): no text_case for these
        if isf:
            skipped["float"] += 1
        py = pyres[i]["values"][vi].get("str")
        if (i, vi) not in seen_py and not isf:
            # the Python text of every value, whether or not the C++ side can hold it
            seen_py.add((i, vi))
            if py is None or py.startswith("EXC:"):
                chk.violation("str-%d-%d" % (i, vi), C.case_of(cases, jobs, i, vi, {"kind": "Python str() raised", "python": py}))
            else:
                entries.append((i, vi, 0, py))
        if not tail_ok.get((i, vi)):
            skipped["greedy_tail"] += 1
            continue
        chk.count()
        chk.seen_class(S.shape_class(t, v), S.nontrivial(t, v))
        if not o.get("ok") or "print" not in o:
            continue      # C03's question
        if not isf:
            entries.append((i, vi, 1, o["print"]))
        if py is not None and not py.startswith("EXC:") and o["print"] != py:
            chk.violation("print-%d-%d" % (i, vi), C.case_of(cases, jobs, i, vi, {
                "kind": "Python str() and C++ print() differ", "python": py, "cpp": o["print"], "canonical": h,
                "float_text_only": bool(isf and float_text_only(py, o["print"]))}))
    # every text is compared inside Coq with the model of the implementation that produced it (the theorems' tie)
    # and with the specified text (the property's oracle)
    texts = {(i, vi, who): txt for i, vi, who, txt in entries}

    def ex(en, names):
        i, vi, who, txt = en
        t = cases[i][2]
        tt = S.to_coq(t, names)
        nn = S.names_coq(t, names)
        vv = S.value_coq(S.value_from_json(jobs[i]["values"][vi]))
        return "(%d, %d, text_case %d %s %s %s %s)" % (i, 2 * vi + who, who, tt, nn, vv, S.text_coq(txt))

    work = common.scratch("text")
    files = codec.write_case_files(work, "text", entries, ex, chunk=200)
    bad = codec.eval_case_files(files)
    chk.coverage["texts_compared_in_coq"] = {"python": sum(1 for en in entries if en[2] == 0),
                                             "cpp": sum(1 for en in entries if en[2] == 1)}
    for i, code, r in bad:
        vi, who = code // 2, code % 2
        flags = dict(zip(("names_ok", "wt", "no_float", "model_eq_observed", "spec_eq_observed"), r[1:6]))
        spec_text = bytes(r[6:]).decode("latin-1")
        desc = C.case_of(cases, jobs, i, vi, {
            "implementation": "Python str()" if who == 0 else "C++ print()", "observed": texts[(i, vi, who)],
            "specified": spec_text, "flags": flags})
        if not (flags["names_ok"] and flags["wt"] and flags["no_float"]):
            desc["kind"] = "harness: generated case outside the theorem's hypotheses"
            chk.violation("text-hyp-%d-%d" % (i, code), desc, match=False)
        elif not flags["spec_eq_observed"]:
            desc["kind"] = "%s differs from the specified text (spec/Text.v text_of)" % desc["implementation"]
            chk.violation("text-%d-%d" % (i, code), desc)
        else:
            desc["kind"] = "broken correspondence: model/Print.v does not reproduce %s" % desc["implementation"]
            chk.violation("text-model-%d-%d" % (i, code), desc, "no-failing-input-found", match=False)
    chk.coverage["skipped_out_of_scope"] = skipped
    chk.coverage["rule"] = ("schemas/values as in C03; the same value is held by a Python message "
                            "(str()) and by the C++ object decoded from its canonical bytes (print()); the two texts must be "
                            "byte-identical, and each is compared inside Coq (CheckLib.text_case) with the model of its "
                            "implementation (py_str / cpp_text: the tie of the theorems of props/C18.v) and with the specified "
                            "text text_of (the oracle); this also catches one field changing how later ones are rendered. Schemas with floating point "
                            "members are outside the Coq models: their two texts are only compared with each other, and a difference confined to "
                            "the spelling of the same float value is the known finding KF-P.")
    for i, vi, e, h, o in records[:400]:
        if "print" in o and len(o["print"]) > 40 and e == "little":
            chk.sample({"schema": S.to_prophy(cases[i][2]), "text": o["print"]})
            break
    return chk.finish(level="proof")


if __name__ == "__main__":
    sys.exit(main())
