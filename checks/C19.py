#!/venv/bin/python
"""C19 — byte order changes only the bytes inside scalars; padding is always zero (Python part;
the C++ vector encoders are covered by the C++ driver stage of this check when built)."""
import os
import random
import sys

sys.path.insert(0, os.path.dirname(os.path.abspath(__file__)))
sys.path.insert(0, os.path.join(os.path.dirname(os.path.abspath(__file__)), "..", "tools"))
import codec  # noqa: E402
import common  # noqa: E402
import cppcommon as C  # noqa: E402
import schema as S  # noqa: E402
from checklib import Check  # noqa: E402


def expr(cases, jobs):
    def f(i, vi, rv, names, res):
        tt = S.to_coq(cases[i][2], names)
        vv = S.value_coq(S.value_from_json(jobs[i]["values"][vi]))
        if rv["<"].startswith("EXC:") or rv[">"].startswith("EXC:"):
            return "(%d, %d, [96])" % (i, vi)
        fresh = ""
        fr = res.get(i, {}).get("fresh") or {}
        if vi == 0 and all(k in fr and not fr[k].startswith("EXC:") for k in ("a<", "a>", "b<", "b>")):
            # an untouched message, asked for either order first (KF-H messages that cannot be encoded at all are C10's)
            fresh = " ++ fresh_case %s %s %s %s %s" % (tt, codec.hex_coq(fr["a<"]), codec.hex_coq(fr["a>"]),
                                                        codec.hex_coq(fr["b<"]), codec.hex_coq(fr["b>"]))
        return "(%d, %d, spec_mirror_case %s %s %s %s ++ model_encode_case %s %s %s %s%s)" % (
            i, vi, tt, vv, codec.hex_coq(rv["<"]), codec.hex_coq(rv[">"]),
            tt, vv, codec.obs_flat(rv, "<"), codec.obs_flat(rv, ">"), fresh)
    return f


def on_bad(chk, d, r, i, vi):
    if r and r[0] in (95, 96):
        d["kind"] = ("little/big-endian encodings are not scalar-wise mirrors with zero padding (95), or an untouched message does "
                     "not encode to the canonical image of its default value in one of the orders (96: [le first; be second; le second; be first] ok flags)")
        d["result"] = r[:8]
        chk.violation("mirror-%d-%d" % (i, vi), d)
    else:
        d["kind"] = "model/implementation correspondence broken (encode)"
        d["model_result"] = r[:40]
        chk.violation("corr-%d-%d" % (i, vi), d, "no-failing-input-found")


def main():
    chk = Check("C19")
    chk.build()
    rng = random.Random(chk.seed)
    if chk.replay_mode:
        j, t = codec.replay_case(chk.replay_mode)
        cases = [("replay", "replay", t)]
        jobs = codec.make_jobs(cases, rng, 1, ["encode"], corpus={0: [S.value_from_json(j["value"])]})
        codec.run_value_cases(chk, cases, jobs, "replay", expr(cases, jobs), on_bad)
        return chk.finish()
    cases, jobs = codec.corpus_jobs("C19", rng, ["encode"])
    if cases:
        codec.run_value_cases(chk, cases, jobs, "corpus", expr(cases, jobs), on_bad)
    cases, jobs = codec.standard_streams(chk, rng, ["encode", "fresh"], random_quick=300, random_thorough=5000)
    codec.run_value_cases(chk, cases, jobs, "gen", expr(cases, jobs), on_bad)
    # ---- C++ vector encoders: encode<little>(), encode<big>(), encode() [native] of the same object
    quick = chk.tier == "quick"
    ccases, cjobs, pyres, records, tail_ok, errors = C.canonical_ops(chk, 60 if quick else 500, 12 if quick else 3,
                                                                      2 if quick else 3, rng, k=2)
    C.report_build_errors(chk, ccases, errors)
    entries = []
    for i, vi, e, h, o in records:
        if e != "little" or vi < 0 or not o.get("ok") or not tail_ok.get((i, vi)):
            continue
        if not all(k in o for k in ("enc_little", "enc_big", "enc_native")):
            continue
        chk.count()
        if o["enc_native"] != o["enc_little"]:
            chk.violation("native-%d-%d" % (i, vi), C.case_of(ccases, cjobs, i, vi, {
                "kind": "C++ encode() [native] differs from encode<little>() on this little-endian host",
                "enc_native": o["enc_native"], "enc_little": o["enc_little"]}))
        entries.append((i, vi, o))

    def cex(en, names):
        i, vi, o = en
        tt = S.to_coq(ccases[i][2], names)
        vv = S.value_coq(S.value_from_json(cjobs[i]["values"][vi]))
        return "(%d, %d, spec_mirror_case %s %s %s %s)" % (i, vi, tt, vv, codec.hex_coq(o["enc_little"]), codec.hex_coq(o["enc_big"]))

    work = common.scratch("c19cpp")
    files = codec.write_case_files(work, "cpp", entries, cex)
    for i, vi, r in codec.eval_case_files(files):
        o = [x for x in entries if x[0] == i and x[1] == vi][0][2]
        chk.violation("cppmirror-%d-%d" % (i, vi), C.case_of(ccases, cjobs, i, vi, {
            "kind": "C++ encode<little>() / encode<big>() are not scalar-wise mirrors with zero padding",
            "enc_little": o["enc_little"], "enc_big": o["enc_big"], "result": r[:8]}))
    chk.coverage["cpp_objects_checked"] = len(entries)
    chk.coverage["rule"] = ("same schema/value streams as C01; metamorphic oracle needing no expected bytes: encode('<') and "
                            "encode('>') must have equal length, each scalar segment (per the spec's segment map) byte-reversed, "
                            "every padding byte zero in both; plus the model correspondence. C++ stage: objects decoded from canonical bytes by the compiled generated codec, their encode<little>()/encode<big>() vectors checked by the same mirror oracle and encode() [native] == encode<little>(). distinct_nontrivial as in C01.")
    chk.sample({"schema": S.to_prophy(cases[len(cases) // 3][2]), "value": jobs[len(cases) // 3]["values"][-1]})
    chk.assumptions += ["C19_python is about the Python encoder model, C19_cpp about the C++ encoder model CppFull.cpp_encode (tied "
                        "to the compiled code by the C03 check's cpp_enc_case and by this check's metamorphic run: g++ 12, x86-64, "
                        "little-endian host); encode() [native] == encode<little>() is checked on the compiled code only"]
    return chk.finish()


if __name__ == "__main__":
    sys.exit(main())
