#!/venv/bin/python
"""C14 — constant expressions denote one integer, the same in every back-end."""
import json
import os
import random
import re
import subprocess
import sys

sys.path.insert(0, os.path.dirname(os.path.abspath(__file__)))
sys.path.insert(0, os.path.join(os.path.dirname(os.path.abspath(__file__)), "..", "tools"))
import common  # noqa: E402
import frontends as F  # noqa: E402
from checklib import Check  # noqa: E402

OPS = {"+": 1, "-": 2, "*": 3, "/": 4, "<<": 5, ">>": 6}
LIMIT = 1 << 40
WIDE_LIMIT = 1 << 64
# 64-bit limits / masks and their neighbours: the values schemas for u64 fields are full of, none of
# which a double (53 significant bits) holds exactly, plus the 32-bit boundary they are divided by
WIDE = [(1 << 53) - 1, 1 << 53, (1 << 53) + 1, (1 << 63) - 1, 1 << 63, (1 << 63) + 1, (1 << 64) - 1, (1 << 64) - 2,
        0xFFFFFFFF00000000, 0x8000000000000001, 0x7FFFFFFFFFFFFFFF, 0x2000000000000000, 0x0123456789ABCDEF,
        10 ** 18, 10 ** 19, 9007199254740993, (1 << 32) - 1, 1 << 32, (1 << 32) + 1]
SMALL = [1, 2, 3, 4, 5, 8, 10, 16]


class Gen(object):
    """random well-formed expressions whose every division has non-negative operands and a
    non-zero divisor and whose shifts have small non-negative right operands (the property's
    own restriction).
    mode 'plain'   values kept below 2^40 in magnitude, literals of ordinary 32-bit size
    mode 'wide'    literals that need more than 53 significant bits (u64 limits / masks, random 54..64-bit
                   numbers) next to the ordinary ones, values kept below 2^64 in magnitude, shifts up to 63,
                   divisions frequent and often with a divisor of the dividend's magnitude (small quotients:
                   array extents, enumerators, discriminators)
    mode 'shared'  small literals and frequent references to earlier constants: expressions whose TEXT is
                   meant to be reused under different values of the constants they name
    An expression is a nested tuple: ('num', z, text) | ('name', i) | ('neg', e) | ('bin', op, a, b) | ('par', e)"""

    def __init__(self, rng, literals, mode='plain'):
        self.rng = rng
        self.literals = literals          # 'text': dec/hex/octal ; 'isar': dec/hex only
        self.mode = mode
        self.limit = WIDE_LIMIT if mode == 'wide' else LIMIT
        self.max_shift = 63 if mode == 'wide' else 12
        self.p_name = 0.6 if mode == 'shared' else 0.3

    def spell(self, z):
        """a literal of value z >= 0 in one of the bases the front-end reads"""
        c = self.rng.random()
        if c < 0.45:
            return ('num', z, hex(z) if c < 0.3 else '0x' + ('%X' % z))
        if c < 0.55 and self.literals == 'text' and z > 0:
            return ('num', z, '0' + oct(z)[2:])
        return ('num', z, str(z))

    def wide_literal(self, least=0):
        r = self.rng
        c = r.random()
        if c < 0.5:
            z = r.choice([w for w in WIDE if w >= least])
        elif c < 0.85 or least > (1 << 32):
            z = r.getrandbits(r.randint(54, 64)) | (1 << 53) | 1      # odd, more than 53 significant bits
        else:
            z = r.getrandbits(r.randint(33, 53)) | (1 << 32)
        return self.spell(z)

    def wide_division(self, depth, env):
        """a division in which an operand needs more than 53 significant bits (the operands are literals, earlier
        constants of that size, or a sub-expression of that size):
        'small'     wide / small divisor: the quotient itself is wide
        'boundary'  dividend = q * b + rem with a wide b, a small q and rem in {0, 1, b / 2, b - 2, b - 1}: the
                    floor-division boundary cases; the quotient is a plausible array extent / enumerator
        'near'      divisor of the dividend's own magnitude"""
        r = self.rng
        wide_names = [i for i, v in enumerate(env) if v >= (1 << 53)]
        fam = r.choice(['small', 'boundary', 'boundary', 'near'])
        if fam == 'boundary':
            if wide_names and r.random() < 0.4:
                b = ('name', r.choice(wide_names))
            else:
                b = self.spell(r.getrandbits(r.randint(54, 61)) | (1 << 53))
            vb = self.value(b, env)
            qmax = min(64, (WIDE_LIMIT - 1) // vb - 1)
            if qmax < 1:
                return None
            a = self.spell(r.randint(1, qmax) * vb + r.choice([0, 1, vb - 1, vb - 1, vb - 2, vb // 2]))
            return ('bin', '/', a, b)
        a = self.expr(depth - 1, env) if r.random() < 0.3 else None
        if a is None or self.value(a, env) < (1 << 53):
            a = ('name', r.choice(wide_names)) if wide_names and r.random() < 0.5 else self.wide_literal(1 << 53)
        va = self.value(a, env)
        if fam == 'small':
            b = self.spell(r.choice([1, 2, 3, 7, 10, 16, 255, 256, 1000, 65536, 1 << 32]))
        else:
            b = self.spell(max(1, (va >> r.randint(0, 6)) + r.choice([0, 0, 1, -1, r.randint(-1000, 1000)])))
        return ('bin', '/', a, b)

    def literal(self):
        r = self.rng
        if self.mode == 'wide' and r.random() < 0.5:
            return self.wide_literal()
        if self.mode == 'shared':
            z = r.choice(SMALL)
            return ('num', z, hex(z)) if r.random() < 0.15 else ('num', z, str(z))
        z = r.choice([0, 1, 2, 3, 4, 7, 8, 10, 16, 31, 100, 255, 256, 1000, 65535, 65536, r.randint(0, 5000)])
        c = r.random()
        if c < 0.25:
            return ('num', z, hex(z))
        if c < 0.35 and self.literals == 'text' and z > 0:
            return ('num', z, '0' + oct(z)[2:]) if len(oct(z)[2:]) >= 1 and z >= 1 else ('num', z, str(z))
        return ('num', z, str(z))

    def value(self, e, env):
        k = e[0]
        if k == 'num':
            return e[1]
        if k == 'name':
            return env[e[1]]
        if k == 'neg':
            return -self.value(e[1], env)
        if k == 'par':
            return self.value(e[1], env)
        a, b = self.value(e[2], env), self.value(e[3], env)
        op = e[1]
        if op == '+':
            return a + b
        if op == '-':
            return a - b
        if op == '*':
            return a * b
        if op == '/':
            return a // b
        if op == '<<':
            return a << b
        return a >> b

    def admissible(self, op, va, vb):
        if op == '/' and (va < 0 or vb <= 0):
            return False
        if op in ('<<', '>>') and (vb < 0 or vb > self.max_shift or va < 0):
            return False
        return True

    def checked(self, e, env):
        """value of e under env, or None when under THIS env a division / shift inside e leaves the
        property's restriction or an intermediate value reaches the magnitude limit (used to re-read
        an expression generated for one set of constants under another)"""
        k = e[0]
        if k == 'num':
            return e[1]
        if k == 'name':
            return env[e[1]]
        if k in ('neg', 'par'):
            v = self.checked(e[1], env)
            return None if v is None else (-v if k == 'neg' else v)
        a, b = self.checked(e[2], env), self.checked(e[3], env)
        if a is None or b is None or not self.admissible(e[1], a, b):
            return None
        v = self.value(('bin', e[1], ('num', a, ''), ('num', b, '')), env)
        return v if abs(v) < self.limit else None

    def expr(self, depth, env):
        """tree of *intended* structure (every binary node is explicit); printing decides parens"""
        r = self.rng
        if depth <= 0 or r.random() < 0.25:
            if env and r.random() < self.p_name:
                return ('name', r.randrange(len(env)))
            return self.literal()
        c = r.random()
        if c < 0.12:
            return ('neg', self.expr(depth - 1, env))
        for _ in range(20):
            if self.mode == 'wide' and r.random() < 0.45:
                e = self.wide_division(depth, env)
                if e is None:
                    continue
                op, a, b = e[1:]
            else:
                op = r.choice(list(OPS))
                a = self.expr(depth - 1, env)
                b = self.expr(depth - 1, env)
            va, vb = self.value(a, env), self.value(b, env)
            if not self.admissible(op, va, vb):
                continue
            e = ('bin', op, a, b)
            if abs(self.value(e, env)) < self.limit:
                return e
        return self.literal()


def uses_name(e):
    if e[0] == 'name':
        return True
    return any(uses_name(x) for x in e[1:] if isinstance(x, tuple))


PREC = {'+': 0, '-': 0, '*': 1, '/': 1, '<<': 2, '>>': 2}     # only used to decide where parentheses are *needed*


def render(e, names, rng, parent=None, side=None, minimal=True):
    """text and token list; with minimal=True parentheses are put only where the LANGUAGE's
    precedence (the source's table, mirrored in PREC and checked against gen/Src.v by the Coq
    stage through the evaluation itself) requires them, sometimes redundantly as well"""
    k = e[0]
    if k == 'num':
        return e[2], [('num', e[1])]
    if k == 'name':
        return names[e[1]], [('name', e[1])]
    if k == 'neg':
        t, toks = render(e[1], names, rng, 'neg', None, minimal)
        if e[1][0] in ('bin',) or (e[1][0] == 'neg'):
            return '-(' + t + ')', [('op', 2), ('lp',)] + toks + [('rp',)]
        return '-' + t, [('op', 2)] + toks
    op = e[1]
    lt, ltoks = render(e[2], names, rng, op, 'l', minimal)
    rt, rtoks = render(e[3], names, rng, op, 'r', minimal)
    text = '%s %s %s' % (lt, op, rt)
    toks = ltoks + [('op', OPS[op])] + rtoks
    need = False
    if parent == 'neg':
        need = True
    elif parent is not None:
        pp, p = PREC[parent], PREC[op]
        need = p < pp or (p == pp and side == 'r')
    if need or rng.random() < 0.15:
        return '(' + text + ')', [('lp',)] + toks + [('rp',)]
    return text, toks


def coq_tokens(toks):
    out = []
    for t in toks:
        if t[0] == 'num':
            out.append('TNum %d' % t[1])
        elif t[0] == 'name':
            out.append('TName %d%%nat' % t[1])
        elif t[0] == 'op':
            out.append('TOp %d' % t[1])
        elif t[0] == 'lp':
            out.append('TLP')
        else:
            out.append('TRP')
    return '[%s]' % '; '.join(out)


def c_precedence_value(text, env_names, env_vals):
    """value of the expression text under Python/C operator precedence (how a back-end that
    re-evaluates the raw text reads it)"""
    try:
        v = int(eval(text.replace('/', '//'), {"__builtins__": {}}, dict(zip(env_names, env_vals))))
        return v if abs(v) < (1 << 200) else None
    except Exception:  # noqa
        return None


def read_python_constants(outputs, module):
    """import the generated module in a subprocess and return its integer attributes"""
    d = common.scratch("c14py")
    for fn, text in outputs.items():
        with open(os.path.join(d, fn), "wb") as f:
            f.write(text.encode("latin-1"))
    code = ("import json, sys, importlib\nsys.path.insert(0, %r)\nm = importlib.import_module(%r)\n"
            "print(json.dumps({k: v for k, v in vars(m).items() if isinstance(v, int) and not k.startswith('_')}))" % (d, module))
    p = subprocess.run([common.PY, "-c", code], capture_output=True, text=True, env=common.impl_env(), timeout=60)
    if p.returncode != 0:
        return None, p.stderr.strip().split("\n")[-1][:300]
    return json.loads(p.stdout), None


class Unit(object):
    """one compilation unit (= one input file): constants K0..Kn-1, each defined by an expression over
    literals and earlier constants. scenario: 'plain' | 'wide' | 'shared' | 'corpus'"""

    def __init__(self, route, names, vals, texts, toks, scenario):
        self.route, self.names, self.vals, self.texts, self.toks = route, names, vals, texts, toks
        self.scenario = scenario
        self.named = [any(t[0] == 'name' for t in tk) for tk in toks]
        self.sizes = [i for i, v in enumerate(vals) if 0 < v <= 64]
        # constants that size arrays: the first one that fits, then expressions that name other constants
        rest = sorted(self.sizes[1:], key=lambda i: (not self.named[i], i))
        self.arrs = self.sizes[:1] + rest[:2]
        # constants whose expression text sizes a member of the model-only struct V (isar route)
        self.vsizes = [i for i, v in enumerate(vals) if 0 < v <= 4096]
        # enumerators / discriminators defined by the expression text itself (text route)
        self.enums = [i for i, v in enumerate(vals) if 0 <= v < 2 ** 32]
        seen, self.discs = set(), []
        for i in sorted(self.enums, key=lambda i: (len(toks[i]) <= 1, i)):
            if vals[i] not in seen and len(self.discs) < 3:
                seen.add(vals[i])
                self.discs.append(i)
        self.discs.sort()

    def sample(self):
        return {"route": self.route, "scenario": self.scenario, "constants": list(zip(self.names, self.texts, self.vals))}


def one_unit(rng, route, nconst, mode='plain'):
    """a compilation unit: constants K0..Kn-1 (each may use earlier ones)"""
    g = Gen(rng, 'text' if route == 'text' else 'isar', mode)
    names, vals, texts, toks = [], [], [], []
    for i in range(nconst):
        e = g.expr(rng.choice([1, 2, 2, 3, 4]), vals)
        names.append("K%d" % i)
        vals.append(g.value(e, vals))
        t, tk = render(e, names, rng)
        texts.append(t)
        toks.append(tk)
    return Unit(route, names, vals, texts, toks, mode)


def shared_group(rng, route, nsib):
    """2..3 compilation units for ONE prophyc process: the same constant names and, from some index on,
    the very same expression texts, over leading plain-literal constants whose values differ from unit to
    unit. Every unit is well-formed on its own (the expressions are re-read under each unit's constants and
    a candidate set of leading values is dropped when a division / shift leaves the property's restriction)"""
    g = Gen(rng, 'text' if route == 'text' else 'isar', 'shared')
    nbase = rng.randint(1, 3)
    base = [rng.randint(1, 12) for _ in range(nbase)]
    exprs = [('num', z, str(z)) for z in base]
    vals = list(base)
    for _ in range(rng.randint(4, 7)):
        e = g.literal()
        for _try in range(30):
            e = g.expr(rng.choice([1, 2, 2, 3]), vals)
            if uses_name(e) and e[0] != 'name':
                break
        exprs.append(e)
        vals.append(g.value(e, vals))
    names = ["K%d" % i for i in range(len(exprs))]
    texts, toks = [], []
    for e in exprs:
        t, tk = render(e, names, rng)       # rendered once: the siblings share the text character for character
        texts.append(t)
        toks.append(tk)
    out = [Unit(route, names, vals, texts, toks, 'shared')]
    bases = [base]
    for _s in range(nsib - 1):
        for _try in range(200):
            b = [rng.randint(1, 12) for _ in range(nbase)]
            if any(x == y for old in bases for x, y in zip(old, b)):
                continue                    # every leading constant differs from its namesakes
            v = list(b)
            for e in exprs[nbase:]:
                x = g.checked(e, v)
                if x is None:
                    break
                v.append(x)
            if len(v) == len(exprs):
                bases.append(b)
                out.append(Unit(route, names, v, [str(z) for z in b] + texts[nbase:],
                                [[('num', z)] for z in b] + toks[nbase:], 'shared'))
                break
    return out


_TOK = re.compile(r"\s*(0x[0-9a-fA-F]+|\d+|K\d+|<<|>>|[-+*/()])")


def tokens_of_text(text):
    """token list of a corpus expression (names are K<i>)"""
    toks, pos = [], 0
    text = text.rstrip()
    while pos < len(text):
        m = _TOK.match(text, pos)
        if not m:
            raise ValueError("corpus expression not understood: %r" % text)
        t = m.group(1)
        pos = m.end()
        if t[0].isdigit():
            toks.append(('num', int(t, 16) if t.startswith("0x") else int(t, 8) if len(t) > 1 and t[0] == "0" else int(t)))
        elif t[0] == "K":
            toks.append(('name', int(t[1:])))
        elif t == "(":
            toks.append(('lp',))
        elif t == ")":
            toks.append(('rp',))
        else:
            toks.append(('op', OPS[t]))
    return toks


def corpus_groups():
    """stored inputs: /verif/corpus/C14/*.json = {"route", "siblings": [[[name, text, value], ...], ...]}
    (siblings are compiled in one prophyc process, in the order given)"""
    d = os.path.join(os.path.dirname(os.path.abspath(__file__)), "..", "corpus", "C14")
    out = []
    for fn in sorted(os.listdir(d)) if os.path.isdir(d) else []:
        if not fn.endswith(".json"):
            continue
        with open(os.path.join(d, fn)) as f:
            doc = json.load(f)
        for entry in (doc if isinstance(doc, list) else [doc]):
            out.append([Unit(entry["route"], [c[0] for c in sib], [c[2] for c in sib], [c[1] for c in sib],
                             [tokens_of_text(c[1]) for c in sib], 'corpus') for sib in entry["siblings"]])
    return out


def source(ui, u):
    """(file name, text given to the generators, text given to the model run) of unit ui"""
    names, vals, texts = u.names, u.vals, u.texts
    if u.route == "text":
        src = "".join("const %s = %s;\n" % (n, t) for n, t in zip(names, texts))
        src += "enum E%d {\n%s\n};\n" % (ui, ",\n".join("    E%d_%d = %s" % (ui, i, names[i]) for i in u.enums) or "    E%d_x = 0" % ui)
        if u.enums:
            src += "enum X%d {\n%s\n};\n" % (ui, ",\n".join("    X%d_%d = %s" % (ui, i, texts[i]) for i in u.enums))
        for i in u.arrs:
            src += "struct A%d_%d {\n    u8 x[%s];\n    u16 y[%s];\n};\n" % (ui, i, names[i], texts[i])
        if u.discs:
            src += "union U%d {\n%s\n};\n" % (ui, "\n".join("    %s: u32 d%d;" % (texts[i], i) for i in u.discs))
        return "u%d.prophy" % ui, src, src
    structs = [("A%d_%d" % (ui, i), [("x", "u8", ("fixed", names[i])), ("y", "u16", ("fixed", texts[i]))]) for i in u.arrs]
    xml = F.to_isar_constants(constants=list(zip(names, texts)), structs=structs)
    # model run only: every expression text of a moderate positive value also sizes an array, which makes the
    # model-time evaluator's reading of that text observable (numeric_size); kept out of the generator run
    # because the generated Python re-evaluates size texts (known finding) and would stop importing
    v = [("V%d" % ui, [("c%d" % i, "u8", ("fixed", texts[i])) for i in u.vsizes])] if u.vsizes else []
    mxml = F.to_isar_constants(constants=list(zip(names, texts)), structs=structs + v) if v else xml
    return "u%d.xml" % ui, xml, mxml


def main():
    chk = Check("C14")
    chk.build()
    rng = random.Random(chk.seed)
    quick = chk.tier == "quick"
    nunits = 40 if quick else 400
    units = []
    for u in range(nunits):
        route = "text" if u % 2 == 0 else "isar"
        units.append(one_unit(rng, route, rng.randint(4, 10)))

    def tk(*xs):
        return [('num', x) if isinstance(x, int) else ('op', OPS[x]) for x in xs]

    corpus = [Unit("text", ["K0", "K1", "K2"], [4, 17, 3], ["8 / 2", "1 + 2 << 3", "7 / 2"],
                   [tk(8, '/', 2), tk(1, '+', 2, '<<', 3), tk(7, '/', 2)], 'corpus'),
              Unit("isar", ["K0", "K1"], [4, 17], ["8 / 2", "1 + 2 << 3"], [tk(8, '/', 2), tk(1, '+', 2, '<<', 3)], 'corpus')]
    units = corpus + units
    groups = [[ui] for ui in range(len(units))]

    def add_group(us):
        groups.append(list(range(len(units), len(units) + len(us))))
        units.extend(us)

    # operands beyond 53 significant bits (u64 limits / masks), both routes
    for u in range(12 if quick else 120):
        add_group([one_unit(rng, "text" if u % 2 == 0 else "isar", rng.randint(6, 10), 'wide')])
    # the same expression texts over different constants, several schemas in one prophyc process
    # (isar keeps the texts for the model-time evaluator; the text route evaluates while parsing)
    for u in range(10 if quick else 100):
        add_group(shared_group(rng, "text" if u % 3 == 2 else "isar", rng.choice([2, 2, 3])))
    for us in corpus_groups():
        add_group(us)
    group_of = {}
    for gi, uis in enumerate(groups):
        for ui in uis:
            group_of[ui] = gi

    def run_group(args):
        gi, uis = args
        files, mfiles, mains = {}, {}, []
        for ui in uis:
            fn, text, mtext = source(ui, units[ui])
            files[fn] = text
            mfiles[fn] = mtext
            mains.append(fn)
        extra = ["--isar"] if units[uis[0]].route == "isar" else []
        res = {"gi": gi, "files": files, "mains": mains, "model_files": mfiles if mfiles != files else None}
        d = common.scratch("c14")
        F.materialise(mfiles, d)
        res["model"] = F.model_of(mains, extra, cwd=d)
        res["out"] = F.python_outputs(files, mains, args_extra=extra)
        res["py"] = {}
        if res["out"]["rc"] == 0:
            pys = {k: v for k, v in res["out"]["outputs"].items() if k.endswith(".py")}
            for ui in uis:
                res["py"][ui] = read_python_constants(pys, "u%d" % ui)
        return res

    gresults = F.pmap(run_group, list(enumerate(groups)))
    results = dict((ui, gresults[group_of[ui]]) for ui in range(len(units)))
    # Coq stage: the language value of every expression under the source's precedence tables
    work = common.scratch("c14coq")
    vf = os.path.join(work, "expr.v")
    lines = []
    for ui, u in enumerate(units):
        tab = "prec_prophy" if u.route == "text" else "prec_calc"
        for i, tks in enumerate(u.toks):
            env = "(fun n => nth_error [%s] n)" % "; ".join("(%d)" % v for v in u.vals[:i])
            lines.append("(%d, %d, match eval_tokens %s %s %s with Some z => [z] | None => [] end)" % (ui, i, tab, env, coq_tokens(tks)))
    with open(vf, "w") as fh:
        fh.write("From Coq Require Import ZArith List.\nFrom Prophy Require Import Schema Src PcExpr.\nImport ListNotations.\nLocal Open Scope Z_scope.\n")
        fh.write("Eval vm_compute in [\n%s].\n" % ";\n".join(lines))
    coq = {}
    for ui, i, r in common.coq_eval_file(vf)[0]:
        coq[(ui, i)] = r[0] if r else None

    def sensitive(ui, k):
        u = units[ui]
        return coq.get((ui, k)) != c_precedence_value(u.texts[k], u.names[:k], u.vals[:k])

    # not involved in the generated text: what prophyc itself computed (model-time evaluation, layout)
    OWN = {"reevaluated_text_affected": None,
           "observed_at": "prophyc's own computed model (numeric sizes / layout); no generated text is involved"}

    def vio(name, ui, i, kind, extra, whole_process=False):
        u = units[ui]
        names, vals, texts = u.names, u.vals, u.texts
        r = results[ui]
        case = {"kind": kind, "front_end": u.route, "scenario": u.scenario, "constant": names[i] if i is not None else None,
                "expression": texts[i] if i is not None else None,
                "language_value": coq.get((ui, i)) if i is not None else None,
                "c_precedence_value": c_precedence_value(texts[i], names[:i], vals[:i]) if i is not None else None,
                "file": r["mains"][groups[r["gi"]].index(ui)], "command_line_files": r["mains"],
                "files": r["files"]}
        if r["model_files"] is not None:
            case["model_run_files"] = r["model_files"]
        case["precedence_sensitive"] = (case["language_value"] != case["c_precedence_value"])
        case["uses_division"] = i is not None and "/" in texts[i]
        # re-evaluated text: a constant is affected when its own text, or the text of a constant it
        # names (transitively), is precedence-sensitive or divides
        tainted = []
        for k in range(len(names)):
            own = ("/" in texts[k]) or sensitive(ui, k)
            refs = [q for q in range(k) if re.search(r"\b%s\b" % names[q], texts[k])]
            tainted.append(own or any(tainted[q] for q in refs))
        case["reevaluated_text_affected"] = bool(i is not None and tainted[i])
        # a failure of the whole prophyc process concerns every file on its command line
        scope = groups[r["gi"]] if whole_process else [ui]
        case["unit_uses_division"] = any("/" in t_ for q in scope for t_ in units[q].texts)
        case["unit_precedence_sensitive"] = any(sensitive(q, k) for q in scope for k in range(len(units[q].names)))
        case.update(extra)
        chk.violation(name, case)

    failed_groups = set()
    for ui, u in enumerate(units):
        route, names, vals, texts, toks = u.route, u.names, u.vals, u.texts, u.toks
        r = results[ui]
        m = r["model"]
        for i in range(len(names)):
            chk.count()
            lv = coq.get((ui, i))
            cv = c_precedence_value(texts[i], names[:i], vals[:i])
            chk.seen_class((route, tuple(t[1] for t in toks[i] if t[0] == 'op'), lv != cv) + ((u.scenario,) if u.scenario in ('wide', 'shared') else ()),
                           len(toks[i]) > 3)
            if lv != vals[i]:
                # the generator's own arithmetic disagrees with the Coq evaluator under the source's table:
                # either the precedence table changed or the harness is wrong; never blame the implementation silently
                vio("gen-%d-%d" % (ui, i), ui, i, "model evaluation under the translated precedence table differs from the intended value "
                    "(precedence table of the source changed?)", {"intended": vals[i]})
        if "error" in m:
            if ("m", r["gi"]) not in failed_groups:
                failed_groups.add(("m", r["gi"]))
                vio("compile-%d" % ui, ui, None, "prophyc failed on well-formed constant expressions: %s %s" % (m["error"], m.get("message", "")[:200]), {},
                    whole_process=True)
            continue
        nodes = m["files"].get("u%d" % ui, [])
        consts = {n["name"]: n["value"] for n in nodes if n["class"] == "Constant"}
        # (1) parse-time / model-time value
        if route == "text":
            for i, n in enumerate(names):
                if str(consts.get(n)) != str(coq.get((ui, i))):
                    vio("value-%d-%d" % (ui, i), ui, i, "prophyc evaluates the constant to %r" % (consts.get(n),), {})
            # enumerators and discriminators defined by the expression text itself
            enums = {n["name"]: dict((a, b) for a, b in n["members"]) for n in nodes if n["class"] == "Enum"}
            for i in u.enums:
                got = enums.get("X%d" % ui, {}).get("X%d_%d" % (ui, i))
                if str(got) != str(coq.get((ui, i))):
                    vio("enumerator-%d-%d" % (ui, i), ui, i, "prophyc evaluates the enumerator X%d_%d = %s to %r" % (ui, i, texts[i], got), {})
        # (2) layout: array sizes
        structs = F.structs_of(m, "u%d" % ui)
        if route == "text" and u.discs:
            un = structs.get("U%d" % ui)
            got = dict((mem[0], mem[2]) for mem in un["members"]) if un else {}
            for i in u.discs:
                if str(got.get("d%d" % i)) != str(coq.get((ui, i))):
                    vio("discriminator-%d-%d" % (ui, i), ui, i, "prophyc evaluates the discriminator %s of U%d.d%d to %r" % (
                        texts[i], ui, i, got.get("d%d" % i)), {})
        for arr in u.arrs:
            st = structs.get("A%d_%d" % (ui, arr))
            if st is not None:
                want = coq.get((ui, arr))
                got = [mem[6] for mem in st["members"]]
                if got != [want, want] or st["byte_size"] != want * 3 + (want % 2):
                    vio("layout-%d-%d" % (ui, arr), ui, arr, "array extents / struct size computed by prophyc for { u8 x[%s]; u16 y[%s]; } are %s / %s" % (
                        names[arr], texts[arr], got, st["byte_size"]), dict(OWN, expected_extent=want))
        st = structs.get("V%d" % ui)
        if st is not None:
            bad = False
            for mem in st["members"]:
                i = int(mem[0][1:])
                if mem[6] != coq.get((ui, i)):
                    bad = True
                    vio("modeltime-%d-%d" % (ui, i), ui, i, "the model-time evaluator reads the size expression '%s' as %r" % (texts[i], mem[6]),
                        dict(OWN, expected_extent=coq.get((ui, i))))
            want = sum(coq.get((ui, i)) or 0 for i in u.vsizes)
            if not bad and st["byte_size"] != want:
                vio("modeltime-size-%d" % ui, ui, None, "struct of u8 arrays sized by the expression texts has computed size %r, expected %r" % (
                    st["byte_size"], want), dict(OWN))
        # (3) back-ends
        out = r["out"]
        if out["rc"] != 0:
            if ("o", r["gi"]) not in failed_groups:
                failed_groups.add(("o", r["gi"]))
                vio("gen-fail-%d" % ui, ui, None, "generation failed: %s" % out["stderr"][-200:], {}, whole_process=True)
            continue
        pyc, err = r["py"][ui]
        if pyc is None:
            vio("import-%d" % ui, ui, None, "generated Python module does not import: %s" % err, {})
        else:
            for i, n in enumerate(names):
                if pyc.get(n) != coq.get((ui, i)):
                    vio("python-%d-%d" % (ui, i), ui, i, "generated Python module has %s = %r" % (n, pyc.get(n)), {})
            if route == "text":
                for i in u.enums:
                    n = "X%d_%d" % (ui, i)
                    if pyc.get(n) != coq.get((ui, i)):
                        vio("python-enumerator-%d-%d" % (ui, i), ui, i, "generated Python module has %s = %r" % (n, pyc.get(n)), {})
        hpp = out["outputs"].get("u%d.pp.hpp" % ui, "")
        for i, n in enumerate(names):
            mm = re.search(r"enum \{ %s = ([^}]*?) \};" % n, hpp)
            if mm:
                txt = mm.group(1).strip()
                if re.fullmatch(r"-?\d+u?", txt):
                    if int(txt.rstrip("u")) != coq.get((ui, i)):
                        vio("cpp-%d-%d" % (ui, i), ui, i, "generated C++ has enum { %s = %s }" % (n, txt), {})
                else:
                    cvv = c_precedence_value(txt.replace("u", ""), names[:i], [coq.get((ui, k)) for k in range(i)])
                    if cvv != coq.get((ui, i)):
                        vio("cpp-%d-%d" % (ui, i), ui, i, "generated C++ re-evaluates the raw expression text '%s' under C precedence (= %s)" % (txt, cvv), {})
        if route == "text":
            for what, idx, pat in [("enumerator", u.enums, r"\bX%d_%%d = (\d+)u?\b" % ui), ("discriminator", u.discs, r"\bdiscriminator_d%d = (\d+)u?\b")]:
                for i in idx:
                    mm = re.search(pat % i, hpp)
                    if mm and int(mm.group(1)) != coq.get((ui, i)):
                        vio("cpp-%s-%d-%d" % (what, ui, i), ui, i, "generated C++ has %s" % mm.group(0), {})
    chk.coverage["rule"] = ("compilation units with 4-10 constants each defined by a random well-formed expression over decimal / hex "
                            "(/ octal for prophy text) literals, + - * / << >>, unary minus, parentheses (needed and redundant) and earlier "
                            "constants; divisions with non-negative operands and non-zero divisors. Prophy text and isar XML routes. "
                            "Scenarios: 'plain' (32-bit sized literals, values below 2^40); 'wide' (u64 limits / masks and random 54..64-bit "
                            "literals, divisions frequent and often with small quotients, shifts up to 63, values below 2^64); 'shared' (2-3 "
                            "schemas given to ONE prophyc process that use the same constant names and character-identical expression texts "
                            "over leading constants of different values). "
                            "The language value is computed by the Coq evaluator (precedence-climbing parse under the precedence table "
                            "translated from the source + integer evaluation); compared with: prophyc's model constants, enumerators and "
                            "discriminators written as expressions (text route), array extents and struct sizes of the computed layout "
                            "(up to three structs per unit; isar route: in the model run every expression text of value 1..4096 sizes an "
                            "array, so the model-time evaluator's reading of each is observed), the integer attributes of the imported "
                            "generated Python module, the enum constants / enumerators / discriminators of the generated C++ header. "
                            "distinct_nontrivial = distinct (route, operator sequence, precedence-sensitive?[, scenario]) with more than one operator.")
    chk.sample(units[2].sample())
    for gi in (len(corpus) + nunits, len(corpus) + nunits + (12 if quick else 120)):
        if gi < len(groups):
            for ui in groups[gi]:
                chk.sample(units[ui].sample())
    chk.assumptions += ["PLY's LALR tables are not modelled; that the yacc grammar with its precedence declarations parses as the "
                        "precedence-climbing model does is validated by this differential run only"]
    return chk.finish()


if __name__ == "__main__":
    sys.exit(main())
