#!/venv/bin/python
"""C14 — constant expressions denote one integer, the same in every back-end."""
import json
import os
import random
import re
import subprocess
import sys

sys.path.insert(0, os.path.dirname(os.path.abspath(__file__)))
sys.path.insert(0, os.path.join(os.path.dirname(os.path.abspath(__file__)), "..", "tools"))
import common  # noqa: E402
import frontends as F  # noqa: E402
from checklib import Check  # noqa: E402

OPS = {"+": 1, "-": 2, "*": 3, "/": 4, "<<": 5, ">>": 6}
LIMIT = 1 << 40


class Gen(object):
    """random well-formed expressions whose every division has non-negative operands and a
    non-zero divisor and whose shifts have small non-negative right operands (the property's
    own restriction); values kept below 2^40 in magnitude.
    An expression is a nested tuple: ('num', z, text) | ('name', i) | ('neg', e) | ('bin', op, a, b) | ('par', e)"""

    def __init__(self, rng, literals):
        self.rng = rng
        self.literals = literals          # 'text': dec/hex/octal ; 'isar': dec/hex only

    def literal(self):
        r = self.rng
        z = r.choice([0, 1, 2, 3, 4, 7, 8, 10, 16, 31, 100, 255, 256, 1000, 65535, 65536, r.randint(0, 5000)])
        c = r.random()
        if c < 0.25:
            return ('num', z, hex(z))
        if c < 0.35 and self.literals == 'text' and z > 0:
            return ('num', z, '0' + oct(z)[2:]) if len(oct(z)[2:]) >= 1 and z >= 1 else ('num', z, str(z))
        return ('num', z, str(z))

    def value(self, e, env):
        k = e[0]
        if k == 'num':
            return e[1]
        if k == 'name':
            return env[e[1]]
        if k == 'neg':
            return -self.value(e[1], env)
        if k == 'par':
            return self.value(e[1], env)
        a, b = self.value(e[2], env), self.value(e[3], env)
        op = e[1]
        if op == '+':
            return a + b
        if op == '-':
            return a - b
        if op == '*':
            return a * b
        if op == '/':
            return a // b
        if op == '<<':
            return a << b
        return a >> b

    def expr(self, depth, env):
        """tree of *intended* structure (every binary node is explicit); printing decides parens"""
        r = self.rng
        if depth <= 0 or r.random() < 0.25:
            if env and r.random() < 0.3:
                return ('name', r.randrange(len(env)))
            return self.literal()
        c = r.random()
        if c < 0.12:
            return ('neg', self.expr(depth - 1, env))
        for _ in range(20):
            op = r.choice(list(OPS))
            a = self.expr(depth - 1, env)
            b = self.expr(depth - 1, env)
            va, vb = self.value(a, env), self.value(b, env)
            if op == '/' and (va < 0 or vb <= 0):
                continue
            if op in ('<<', '>>') and (vb < 0 or vb > 12 or va < 0):
                continue
            e = ('bin', op, a, b)
            if abs(self.value(e, env)) < LIMIT:
                return e
        return self.literal()


PREC = {'+': 0, '-': 0, '*': 1, '/': 1, '<<': 2, '>>': 2}     # only used to decide where parentheses are *needed*


def render(e, names, rng, parent=None, side=None, minimal=True):
    """text and token list; with minimal=True parentheses are put only where the LANGUAGE's
    precedence (the source's table, mirrored in PREC and checked against gen/Src.v by the Coq
    stage through the evaluation itself) requires them, sometimes redundantly as well"""
    k = e[0]
    if k == 'num':
        return e[2], [('num', e[1])]
    if k == 'name':
        return names[e[1]], [('name', e[1])]
    if k == 'neg':
        t, toks = render(e[1], names, rng, 'neg', None, minimal)
        if e[1][0] in ('bin',) or (e[1][0] == 'neg'):
            return '-(' + t + ')', [('op', 2), ('lp',)] + toks + [('rp',)]
        return '-' + t, [('op', 2)] + toks
    op = e[1]
    lt, ltoks = render(e[2], names, rng, op, 'l', minimal)
    rt, rtoks = render(e[3], names, rng, op, 'r', minimal)
    text = '%s %s %s' % (lt, op, rt)
    toks = ltoks + [('op', OPS[op])] + rtoks
    need = False
    if parent == 'neg':
        need = True
    elif parent is not None:
        pp, p = PREC[parent], PREC[op]
        need = p < pp or (p == pp and side == 'r')
    if need or rng.random() < 0.15:
        return '(' + text + ')', [('lp',)] + toks + [('rp',)]
    return text, toks


def coq_tokens(toks):
    out = []
    for t in toks:
        if t[0] == 'num':
            out.append('TNum %d' % t[1])
        elif t[0] == 'name':
            out.append('TName %d%%nat' % t[1])
        elif t[0] == 'op':
            out.append('TOp %d' % t[1])
        elif t[0] == 'lp':
            out.append('TLP')
        else:
            out.append('TRP')
    return '[%s]' % '; '.join(out)


def c_precedence_value(text, env_names, env_vals):
    """value of the expression text under Python/C operator precedence (how a back-end that
    re-evaluates the raw text reads it)"""
    try:
        v = int(eval(text.replace('/', '//'), {"__builtins__": {}}, dict(zip(env_names, env_vals))))
        return v if abs(v) < (1 << 200) else None
    except Exception:  # noqa
        return None


def read_python_constants(outputs, module):
    """import the generated module in a subprocess and return its integer attributes"""
    d = common.scratch("c14py")
    for fn, text in outputs.items():
        with open(os.path.join(d, fn), "wb") as f:
            f.write(text.encode("latin-1"))
    code = ("import json, sys, importlib\nsys.path.insert(0, %r)\nm = importlib.import_module(%r)\n"
            "print(json.dumps({k: v for k, v in vars(m).items() if isinstance(v, int) and not k.startswith('_')}))" % (d, module))
    p = subprocess.run([common.PY, "-c", code], capture_output=True, text=True, env=common.impl_env(), timeout=60)
    if p.returncode != 0:
        return None, p.stderr.strip().split("\n")[-1][:300]
    return json.loads(p.stdout), None


def one_unit(rng, route, nconst):
    """a compilation unit: constants K0..Kn-1 (each may use earlier ones), an enum whose values
    are expressions, a struct with an array sized by a constant and a union with expression
    discriminators"""
    g = Gen(rng, 'text' if route == 'text' else 'isar')
    names, vals, texts, toks = [], [], [], []
    for i in range(nconst):
        e = g.expr(rng.choice([1, 2, 2, 3, 4]), vals)
        names.append("K%d" % i)
        vals.append(g.value(e, vals))
        t, tk = render(e, names, rng)
        texts.append(t)
        toks.append(tk)
    sizes = [i for i, v in enumerate(vals) if 0 < v <= 64]
    return names, vals, texts, toks, sizes


def main():
    chk = Check("C14")
    chk.build()
    rng = random.Random(chk.seed)
    quick = chk.tier == "quick"
    nunits = 40 if quick else 400
    units = []
    for u in range(nunits):
        route = "text" if u % 2 == 0 else "isar"
        units.append((route,) + one_unit(rng, route, rng.randint(4, 10)))
    corpus = [("text", ["K0", "K1", "K2"], [4, 17, 3], ["8 / 2", "1 + 2 << 3", "7 / 2"],
               [[('num', 8), ('op', 4), ('num', 2)], [('num', 1), ('op', 1), ('num', 2), ('op', 5), ('num', 3)],
                [('num', 7), ('op', 4), ('num', 2)]], [0, 1, 2]),
              ("isar", ["K0", "K1"], [4, 17], ["8 / 2", "1 + 2 << 3"],
               [[('num', 8), ('op', 4), ('num', 2)], [('num', 1), ('op', 1), ('num', 2), ('op', 5), ('num', 3)]], [0, 1])]
    units = corpus + units

    def run_unit(args):
        ui, (route, names, vals, texts, toks, sizes) = args
        res = {"ui": ui}
        arr = sizes[0] if sizes else None
        if route == "text":
            src = "".join("const %s = %s;\n" % (n, t) for n, t in zip(names, texts))
            src += "enum E%d {\n%s\n};\n" % (ui, ",\n".join("    E%d_%d = %s" % (ui, i, n) for i, n in enumerate(names) if 0 <= vals[i] < 2 ** 32) or "    E%d_x = 0" % ui)
            if arr is not None:
                src += "struct A%d {\n    u8 x[%s];\n    u16 y[%s];\n};\n" % (ui, names[arr], texts[arr])
            files = {"u%d.prophy" % ui: src}
            extra = []
        else:
            structs = [("A%d" % ui, [("x", "u8", ("fixed", names[arr])), ("y", "u16", ("fixed", texts[arr]))])] if arr is not None else []
            xml = F.to_isar_constants(constants=list(zip(names, texts)), structs=structs)
            files = {"u%d.xml" % ui: xml}
            extra = ["--isar"]
        res["files"] = files
        main_file = list(files)[0]
        d = common.scratch("c14")
        F.materialise(files, d)
        res["model"] = F.model_of([main_file], extra, cwd=d)
        res["out"] = F.python_outputs(files, [main_file], args_extra=extra)
        return res

    results = F.pmap(run_unit, list(enumerate(units)))
    # Coq stage: the language value of every expression under the source's precedence tables
    work = common.scratch("c14coq")
    vf = os.path.join(work, "expr.v")
    lines = []
    for ui, (route, names, vals, texts, toks, sizes) in enumerate(units):
        tab = "prec_prophy" if route == "text" else "prec_calc"
        envs = []
        for i, tk in enumerate(toks):
            env = "(fun n => nth_error [%s] n)" % "; ".join("(%d)" % v for v in vals[:i])
            lines.append("(%d, %d, match eval_tokens %s %s %s with Some z => [z] | None => [] end)" % (ui, i, tab, env, coq_tokens(tk)))
    with open(vf, "w") as fh:
        fh.write("From Coq Require Import ZArith List.\nFrom Prophy Require Import Schema Src PcExpr.\nImport ListNotations.\nLocal Open Scope Z_scope.\n")
        fh.write("Eval vm_compute in [\n%s].\n" % ";\n".join(lines))
    coq = {}
    for ui, i, r in common.coq_eval_file(vf)[0]:
        coq[(ui, i)] = r[0] if r else None

    def vio(name, ui, i, kind, extra):
        route, names, vals, texts, toks, sizes = units[ui]
        case = {"kind": kind, "front_end": route, "constant": names[i] if i is not None else None,
                "expression": texts[i] if i is not None else None,
                "language_value": coq.get((ui, i)) if i is not None else None,
                "c_precedence_value": c_precedence_value(texts[i], names[:i], vals[:i]) if i is not None else None,
                "files": results[ui]["files"]}
        case["precedence_sensitive"] = (case["language_value"] != case["c_precedence_value"])
        case["uses_division"] = i is not None and "/" in texts[i]
        # re-evaluated text: a constant is affected when its own text, or the text of a constant it
        # names (transitively), is precedence-sensitive or divides
        tainted = []
        for k in range(len(names)):
            own = ("/" in texts[k]) or coq.get((ui, k)) != c_precedence_value(texts[k], names[:k], vals[:k])
            refs = [q for q in range(k) if re.search(r"\b%s\b" % names[q], texts[k])]
            tainted.append(own or any(tainted[q] for q in refs))
        case["reevaluated_text_affected"] = bool(i is not None and tainted[i])
        case["unit_uses_division"] = any("/" in t_ for t_ in texts)
        case["unit_precedence_sensitive"] = any(
            coq.get((ui, k)) != c_precedence_value(texts[k], names[:k], vals[:k]) for k in range(len(names)))
        case.update(extra)
        chk.violation(name, case)

    for ui, (route, names, vals, texts, toks, sizes) in enumerate(units):
        r = results[ui]
        m = r["model"]
        for i in range(len(names)):
            chk.count()
            lv = coq.get((ui, i))
            cv = c_precedence_value(texts[i], names[:i], vals[:i])
            chk.seen_class((route, tuple(t[1] for t in toks[i] if t[0] == 'op'), lv != cv), len(toks[i]) > 3)
            if lv != vals[i]:
                # the generator's own arithmetic disagrees with the Coq evaluator under the source's table:
                # either the precedence table changed or the harness is wrong; never blame the implementation silently
                vio("gen-%d-%d" % (ui, i), ui, i, "model evaluation under the translated precedence table differs from the intended value "
                    "(precedence table of the source changed?)", {"intended": vals[i]})
        if "error" in m:
            vio("compile-%d" % ui, ui, None, "prophyc failed on well-formed constant expressions: %s %s" % (m["error"], m.get("message", "")[:200]), {})
            continue
        nodes = m["files"].get("u%d" % ui, [])
        consts = {n["name"]: n["value"] for n in nodes if n["class"] == "Constant"}
        # (1) parse-time / model-time value
        if route == "text":
            for i, n in enumerate(names):
                if str(consts.get(n)) != str(coq.get((ui, i))):
                    vio("value-%d-%d" % (ui, i), ui, i, "prophyc evaluates the constant to %r" % (consts.get(n),), {})
        # (2) layout: array sizes
        structs = F.structs_of(m)
        arr = sizes[0] if sizes else None
        st = structs.get("A%d" % ui)
        if arr is not None and st is not None:
            want = coq.get((ui, arr))
            got = [mem[6] for mem in st["members"]]
            if got != [want, want] or st["byte_size"] != want * 3 + (want % 2):
                vio("layout-%d" % ui, ui, arr, "array extents / struct size computed by prophyc are %s / %s" % (got, st["byte_size"]),
                    {"expected_extent": want})
        # (3) back-ends
        out = r["out"]
        if out["rc"] != 0:
            vio("gen-fail-%d" % ui, ui, None, "generation failed: %s" % out["stderr"][-200:], {})
            continue
        pyc, err = read_python_constants({k: v for k, v in out["outputs"].items() if k.endswith(".py")}, "u%d" % ui)
        if pyc is None:
            vio("import-%d" % ui, ui, None, "generated Python module does not import: %s" % err, {})
        else:
            for i, n in enumerate(names):
                if pyc.get(n) != coq.get((ui, i)):
                    vio("python-%d-%d" % (ui, i), ui, i, "generated Python module has %s = %r" % (n, pyc.get(n)), {})
        hpp = out["outputs"].get("u%d.pp.hpp" % ui, "")
        for i, n in enumerate(names):
            mm = re.search(r"enum \{ %s = ([^}]*?) \};" % n, hpp)
            if mm:
                txt = mm.group(1).strip()
                if re.fullmatch(r"-?\d+u?", txt):
                    if int(txt.rstrip("u")) != coq.get((ui, i)):
                        vio("cpp-%d-%d" % (ui, i), ui, i, "generated C++ has enum { %s = %s }" % (n, txt), {})
                else:
                    cvv = c_precedence_value(txt.replace("u", ""), names[:i], [coq.get((ui, k)) for k in range(i)])
                    if cvv != coq.get((ui, i)):
                        vio("cpp-%d-%d" % (ui, i), ui, i, "generated C++ re-evaluates the raw expression text '%s' under C precedence (= %s)" % (txt, cvv), {})
    chk.coverage["rule"] = ("compilation units with 4-10 constants each defined by a random well-formed expression over decimal / hex "
                            "(/ octal for prophy text) literals, + - * / << >>, unary minus, parentheses (needed and redundant) and earlier "
                            "constants; divisions with non-negative operands and non-zero divisors. Prophy text and isar XML routes. "
                            "The language value is computed by the Coq evaluator (precedence-climbing parse under the precedence table "
                            "translated from the source + integer evaluation); compared with: prophyc's model constants, array extents "
                            "and struct sizes of the computed layout, the integer attributes of the imported generated Python module, "
                            "the enum constants of the generated C++ header. distinct_nontrivial = distinct (route, operator sequence, "
                            "precedence-sensitive?) with more than one operator.")
    chk.sample({"route": units[2][0], "constants": list(zip(units[2][1], units[2][3], units[2][2]))})
    chk.assumptions += ["PLY's LALR tables are not modelled; that the yacc grammar with its precedence declarations parses as the "
                        "precedence-climbing model does is validated by this differential run only"]
    return chk.finish()


if __name__ == "__main__":
    sys.exit(main())
