#!/venv/bin/python
"""C04 — prophyc's computed layout equals the wire rules and both runtimes' statics."""
import os
import random
import sys

sys.path.insert(0, os.path.dirname(os.path.abspath(__file__)))
sys.path.insert(0, os.path.join(os.path.dirname(os.path.abspath(__file__)), "..", "tools"))
import codec  # noqa: E402
import schema as S  # noqa: E402
from checklib import Check  # noqa: E402


def zl(xs):
    return "[%s]" % "; ".join(S.zlit(int(x)) for x in xs)


def expr(cases, jobs):
    def f(i, vi, r, names, res):
        t = cases[i][2]
        parts = []
        for d in S.decls(t):
            if d[0] not in ("struct", "union"):
                continue
            tt = S.to_coq(d, names)
            st = r.get("statics", {}).get(d[1])
            if st is not None:
                parts.append("statics_case %s %s" % (tt, zl([st["size"], st["align"], int(st["dynamic"]), int(st["unlimited"])])))
            mo = r.get("model", {}).get(d[1])
            if mo is not None and mo["size"] is not None:
                ms = mo.get("members", [])
                if any(m[1] is None or m[2] is None or m[3] is None for m in ms):
                    parts.append("[90]")
                    continue
                parts.append("pc_case %s %s %s %s %s" % (tt, zl([mo["size"], mo["align"], mo["kind"]]),
                                                       zl([m[1] for m in ms]), zl([m[2] for m in ms]), zl([m[3] for m in ms])))
            else:
                parts.append("[90]")
        # every encoding of a fixed type has exactly that length
        if S.stiffness(t) == 0 and "statics" in r:
            for rv in r.get("values", []):
                for e in "<>":
                    if e in rv and not rv[e].startswith("EXC:") and len(rv[e]) // 2 != r["statics"][t[1]]["size"]:
                        parts.append("[89]")
        return "(%d, 0, %s)" % (i, " ++ ".join(parts) if parts else "[]")
    return f


def on_bad(chk, d, r, i, vi):
    d["result"] = r[:24]
    # r = [code; model_ok; spec_ok; model values...; spec values...] (possibly several blocks appended): what the implementation
    # computed differs from what the documented rules imply whenever a block has spec_ok = 0 — whether or not the Coq model of
    # the implementation still describes it; only "spec_ok = 1 but model_ok = 0" is a mere break of the correspondence
    spec_bad = 89 in r or 90 in r
    k = 0
    while k + 2 < len(r):
        if r[k] in (91, 94) and r[k + 1] in (0, 1) and r[k + 2] in (0, 1):
            if r[k + 2] == 0:
                spec_bad = True
            k += 3
        else:
            k += 1
    if spec_bad:
        d["kind"] = ("a computed size/alignment/stiffness differs from what the documented layout rules imply "
                     "(94: Python class attributes, 91: prophyc model node, 89: encoded length of a fixed type, 90: prophyc left a size undefined); "
                     "result = [code; model_ok; spec_ok; model values...; spec values...]")
        chk.violation("layout-%d" % i, d)
    else:
        d["kind"] = "model/implementation correspondence broken (statics)"
        chk.violation("corr-%d" % i, d, "no-failing-input-found")


def main():
    chk = Check("C04")
    chk.build()
    rng = random.Random(chk.seed)
    want = ["encode", "statics", "model"]
    if chk.replay_mode:
        j, t = codec.replay_case(chk.replay_mode)
        cases = [("replay", "replay", t)]
        jobs = codec.make_jobs(cases, rng, 2, want)
        codec.run_value_cases(chk, cases, jobs, "replay", expr(cases, jobs), on_bad, per_value=False)
        return chk.finish()
    cases, jobs = codec.corpus_jobs("C04", rng, want)
    if cases:
        codec.run_value_cases(chk, cases, jobs, "corpus", expr(cases, jobs), on_bad, per_value=False)
    cases, jobs = codec.standard_streams(chk, rng, want, nvalues_quick=2, nvalues_thorough=3, random_quick=600, random_thorough=8000)
    for s_, label, t in cases:
        chk.seen_class(tuple((k[0], ft[0], ft[1] if ft[0] == "scalar" else "") for _, k, ft in t[2]), len(t[2]) > 1)
    codec.run_value_cases(chk, cases, jobs, "gen", expr(cases, jobs), on_bad, per_value=False)
    chk.coverage["rule"] = ("same schema streams as C01. For every struct and union of every schema: the generated Python class's "
                            "_SIZE/_ALIGNMENT/_DYNAMIC/_UNLIMITED vs the Coq model of the runtime's attribute computation and vs the "
                            "spec (size only for fixed types); prophyc's model node byte_size/alignment/kind and every member's "
                            "byte_size/alignment/padding vs the Coq model of evaluate_sizes and vs the spec; len(encode()) of fixed "
                            "types = _SIZE. distinct_nontrivial = distinct member-kind sequences with more than one member.")
    chk.sample({"schema": S.to_prophy(cases[len(cases) // 3][2])})
    # "... and publishes as ... the raw struct size and the padding it emits": the compiled raw header of a sample of the
    # same schemas (every 5th exhaustive one, the special shapes, 60 random ones) must have its members at the wire
    # offsets and sizeof of fixed types equal to the wire size (the C08 pass, reported here under C04)
    import C08
    sample = [c for i, c in enumerate(cases) if (c[0] == "exhaustive" and i % 5 == 0) or c[0] == "special"]
    sample += [c for c in cases if c[0] == "random"][:60 if chk.tier == "quick" else 600]
    entries, _ = C08.layout_pass(chk, sample, prefix="cpp-")
    chk.coverage["raw_header_structs_compared"] = len(entries)
    chk.assumptions += ["the C++ encoded_byte_size constant of the full codec is covered by C05's fixed-type comparison"]
    return chk.finish()


if __name__ == "__main__":
    sys.exit(main())
