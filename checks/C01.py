#!/venv/bin/python
"""C01 — Python encode emits exactly the documented wire format."""
import os
import random
import sys

sys.path.insert(0, os.path.dirname(os.path.abspath(__file__)))
sys.path.insert(0, os.path.join(os.path.dirname(os.path.abspath(__file__)), "..", "tools"))
import codec  # noqa: E402
import common  # noqa: E402
import impl  # noqa: E402
import schema as S  # noqa: E402
from checklib import Check  # noqa: E402


def run(chk, cases, jobs, label):
    res = impl.run_py_jobs(jobs)
    entries = []
    for j in jobs:
        r = res.get(j["id"], {})
        if "values" not in r:
            # prophyc or the import refused a schema the generator believes legal: not C01's
            # concern (C12 decides that) unless the worker itself broke
            chk.coverage.setdefault("not_compiled", 0)
            chk.coverage["not_compiled"] += 1
            if "worker_error" in r:
                chk.violation("worker-%s-%d" % (label, j["id"]),
                              dict(codec.describe(cases, jobs, res, j["id"], 0), kind="implementation crashed or hung",
                                   detail=r["worker_error"]))
            continue
        for vi, rv in enumerate(r["values"]):
            chk.count()
            if "set_error" in rv:
                chk.coverage.setdefault("value_rejected_by_api", 0)
                chk.coverage["value_rejected_by_api"] += 1
                # the generators only produce values that are well-typed for the schema: the API refusing one means this
                # message cannot be built, let alone encoded canonically
                chk.violation("set-%s-%d-%d" % (label, j["id"], vi),
                              dict(codec.describe(cases, jobs, res, j["id"], vi),
                                   kind="a value that is well-typed for the schema is rejected by the Python API (%s)" % rv["set_error"]))
                continue
            entries.append((j["id"], vi, rv))
            t = cases[j["id"]][2]
            v = S.value_from_json(j["values"][vi])
            chk.seen_class((S.shape_class(t, v)), S.nontrivial(t, v))

    def expr(en, names):
        i, vi, rv = en
        tt = S.to_coq(cases[i][2], names)
        vv = S.value_coq(S.value_from_json(jobs[i]["values"][vi]))
        if rv["<"].startswith("EXC:") or rv[">"].startswith("EXC:"):
            # the canonical bytes exist for every legal well-typed value: an exception is a mismatch
            return "(%d, %d, spec_encode_case %s %s [] [] ++ [96])" % (i, vi, tt, vv)
        return "(%d, %d, spec_encode_case %s %s %s %s ++ model_encode_case %s %s %s %s)" % (
            i, vi, tt, vv, codec.hex_coq(rv["<"]), codec.hex_coq(rv[">"]),
            tt, vv, codec.obs_flat(rv, "<"), codec.obs_flat(rv, ">"))

    work = common.scratch("c01")
    files = codec.write_case_files(work, label, entries, expr)
    bad = codec.eval_case_files(files)
    nspec = ncorr = 0
    for i, vi, r in bad:
        d = codec.describe(cases, jobs, res, i, vi)
        if r and r[0] in (0, 1) and len(r) >= 4 and r[:2] != [1, 1]:
            # generator produced an illegal schema or ill-typed value: a harness bug, not a finding
            chk.coverage.setdefault("generator_rejects", 0)
            chk.coverage["generator_rejects"] += 1
            continue
        if r and r[0] in (0, 1) and r[:4] != [1, 1, 1, 1]:
            nspec += 1
            k = r.index(99) if 99 in r else len(r)
            d["kind"] = "Python encode differs from the canonical encoding"
            d["flags_legal_wt_le_be"] = r[:4]
            d["canonical_le"] = bytes(bytearray(x for x in r[4:k] if 0 <= x < 256)).hex()
            chk.violation("%s-%d-%d" % (label, i, vi), d)
        else:
            ncorr += 1
            d["kind"] = "model/implementation correspondence broken (encode)"
            d["model_result"] = r
            chk.violation("corr-%s-%d-%d" % (label, i, vi), d, "no-failing-input-found" if nspec == 0 else "")
    return len(entries), nspec, ncorr


def main():
    chk = Check("C01")
    chk.build()
    rng = random.Random(chk.seed)
    if chk.replay_mode:
        import json
        with open(chk.replay_mode) as f:
            j = json.load(f)
        t = S.from_json(j["schema"])
        cases = [("replay", j.get("label", "replay"), t)]
        jobs = codec.make_jobs(cases, rng, 1, ["encode"], corpus={0: [S.value_from_json(j["value"])]})
        run(chk, cases, jobs, "replay")
        return chk.finish()
    # corpus first
    corpus = codec.load_corpus("C01")
    if corpus:
        cases = [("corpus", f, t) for f, t, vs, j in corpus]
        jobs = codec.make_jobs(cases, rng, 3, ["encode"], corpus={i: vs for i, (f, t, vs, j) in enumerate(corpus) if vs})
        run(chk, cases, jobs, "corpus")
    # when a proof obligation is broken, search harder for a failing input
    boost = 1 if chk.proof_ok else 3
    cases = codec.gen_schemas(chk.tier, chk.seed, want_random=(400 if chk.tier == "quick" else 6000) * boost)
    nvals = 4 if chk.tier == "quick" else 6
    jobs = codec.make_jobs(cases, rng, nvals * (2 if boost > 1 else 1), ["encode"])
    n, nspec, ncorr = run(chk, cases, jobs, "gen")
    streams = {}
    for s_, _, _ in cases:
        streams[s_] = streams.get(s_, 0) + 1
    chk.coverage["schemas_per_stream"] = streams
    chk.coverage["rule"] = ("stream exhaustive: every member sequence of length <= k over 21 member shapes "
                            "(+ greedy/unlimited last members), each also wrapped as nested member, array element, optional and "
                            "union arm where legal; stream random: composed schemas to depth 3; values: all-min, all-max and "
                            "boundary-biased random. Each case: Python encode('<') and encode('>') vs the Coq spec `wire` (oracle) "
                            "and vs the Coq model `py_enc` (correspondence), evaluated by vm_compute. distinct_nontrivial counts "
                            "distinct (member-kind, value-shape) classes having a variable-length or optional part and scalars "
                            "of at least two different sizes.")
    chk.sample({"schema": S.to_prophy(cases[len(cases) // 2][2]), "value": jobs[len(cases) // 2]["values"][-1]})
    chk.sample({"schema": S.to_prophy(cases[-1][2]), "value": jobs[-1]["values"][-1]})
    chk.assumptions += [
        "prophyc's parser + Python generator + import of the generated module are exercised, not modelled: the tie between schema text and the Coq type is this differential run",
        "floats are bit patterns; CPython struct.pack('f'/'d') of the corresponding float is trusted to produce that pattern",
    ]
    return chk.finish()


if __name__ == "__main__":
    sys.exit(main())
