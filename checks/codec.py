"""Shared machinery of the codec checks (C01 C02 C04 C06 C19): case generation, running the
implementation, evaluating spec + models inside Coq, classification of disagreements."""
import json
import os
import random
import sys

sys.path.insert(0, os.path.join(os.path.dirname(os.path.abspath(__file__)), "..", "tools"))
import common  # noqa: E402
import impl  # noqa: E402
import schema as S  # noqa: E402

HEADER = ("From Coq Require Import ZArith List Bool.\n"
          "From Prophy Require Import Bytes Schema Layout Wire Src PyStatics PyEncode PyDecode ApiSpec Text CheckLib.\n"
          "Import ListNotations.\nLocal Open Scope Z_scope.\n")


def gen_schemas(tier, seed, want_random=None, k=None):
    """stream 1 (exhaustive-small, with wrappers) + stream 2 (random-structured);
    returns list of (stream, label, schema)"""
    out = []
    k = k or (2 if tier == "quick" else 3)
    nm = S.Namer("W")
    for label, t in S.exhaustive_small(k):
        out.append(("exhaustive", label, t))
        if k <= 2 or label.count("+") <= 1:
            for l2, t2 in S.wrappers(label, t, nm):
                out.append(("exhaustive", l2, t2))
    for label, t in S.special_shapes():
        out.append(("special", label, t))
    rng = random.Random(seed)
    n = want_random if want_random is not None else (400 if tier == "quick" else 6000)
    rs = S.RandomSchemas(rng)
    for i in range(n):
        out.append(("random", "random%d" % i, rs.message()))
    return out


def load_corpus(pid):
    d = os.path.join(common.VERIF, "corpus", pid)
    out = []
    if os.path.isdir(d):
        for f in sorted(os.listdir(d)):
            if f.endswith(".json"):
                with open(os.path.join(d, f)) as fh:
                    j = json.load(fh)
                out.append((f, S.from_json(j["schema"]), [S.value_from_json(v) for v in j.get("values", [])], j))
    return out


def make_jobs(cases, rng, nvalues, want, corpus=None):
    """cases: list of (stream, label, schema). returns jobs list (ids = indices)"""
    jobs = []
    for i, (stream, label, t) in enumerate(cases):
        if corpus and i in corpus:
            vals = corpus[i]
        else:
            vals = S.gen_values(rng, t, nvalues)
        jobs.append({"id": i, "schema": t, "text": S.to_prophy(t), "root": t[1], "values": vals, "want": want})
    return jobs


def hex_coq(h):
    return S.bytes_coq(bytearray.fromhex(h))


def obs_flat(r, key):
    """[0; bytes] or [exception code] as the model's res_bytes_flat prints it"""
    x = r[key]
    if x.startswith("EXC:"):
        return "[%d]" % EXN_CODE.get(x[4:], 9)
    return "(0 :: %s)" % hex_coq(x)


EXN_CODE = {"ProphyError": 1, "error": 2}   # struct.error's class name is 'error'


def write_case_files(workdir, name, entries, expr_of, chunk=150):
    """entries: list of opaque items; expr_of(entry, names) -> Coq term of type
    (Z * Z * list Z) [id, sub-id, result]; only non-[] results are printed."""
    files = []
    for off in range(0, len(entries), chunk):
        names = {}
        lines = [expr_of(en, names) for en in entries[off:off + chunk]]
        f = os.path.join(workdir, "%s_%d.v" % (name, off))
        with open(f, "w") as fh:
            fh.write(HEADER)
            for k_, b in names.items():
                fh.write("Definition %s := %s.\n" % (k_, b))
            fh.write("Definition cases : list (Z * Z * list Z) := [\n%s].\n" % ";\n".join(lines))
            fh.write("Eval vm_compute in filter (fun c => match c with (_, _, []) => false | _ => true end) cases.\n")
        files.append(f)
    return files


def eval_case_files(files):
    out = common.coq_eval_many(files)
    bad = []
    for f in files:
        for (i, vi, r) in out[f][0]:
            bad.append((i, vi, r))
    return bad


def describe(cases, jobs, res, i, vi):
    stream, label, t = cases[i]
    d = {"stream": stream, "label": label, "schema_text": S.to_prophy(t), "schema": t,
         "root": t[1], "value": jobs[i]["values"][vi] if vi < len(jobs[i]["values"]) else None,
         "coq_type": S.to_coq(t)}
    if "values" in res.get(i, {}) and vi < len(res[i]["values"]):
        d["observed"] = res[i]["values"][vi]
    return d


def run_value_cases(chk, cases, jobs, label, expr, on_bad, per_value=True, timeout=180):
    """run the jobs on the implementation, turn every (schema, value) into a Coq case with
    `expr(i, vi, rv, names, res)` (None = skip) and call on_bad(chk, description, result) for
    every case whose Coq result is not []. returns number of cases evaluated."""
    res = impl.run_py_jobs(jobs, timeout=timeout)
    entries = []
    for j in jobs:
        r = res.get(j["id"], {})
        if "worker_error" in r:
            chk.violation("worker-%s-%d" % (label, j["id"]),
                          dict(describe(cases, jobs, res, j["id"], 0), kind="implementation crashed or hung",
                               detail=r["worker_error"]))
            continue
        if "values" not in r:
            chk.coverage["not_compiled"] = chk.coverage.get("not_compiled", 0) + 1
            if len(chk.coverage.setdefault("not_compiled_samples", [])) < 3:
                chk.coverage["not_compiled_samples"].append({"label": cases[j["id"]][1], "error": r.get("compile_error") or r.get("import_error")})
            continue
        if not per_value:
            entries.append((j["id"], 0, r))
            chk.count()
            continue
        for vi, rv in enumerate(r["values"]):
            if "set_error" in rv:
                chk.coverage["value_rejected_by_api"] = chk.coverage.get("value_rejected_by_api", 0) + 1
                chk.violation("set-%s-%d-%d" % (label, j["id"], vi),
                              dict(describe(cases, jobs, res, j["id"], vi),
                                   kind="a value that is well-typed for the schema is rejected by the Python API (%s)" % rv["set_error"]))
                continue
            chk.count()
            entries.append((j["id"], vi, rv))
            t = cases[j["id"]][2]
            v = S.value_from_json(jobs[j["id"]]["values"][vi])
            chk.seen_class(S.shape_class(t, v), S.nontrivial(t, v))

    def ex(en, names):
        return expr(en[0], en[1], en[2], names, res)

    work = common.scratch(chk.pid.lower())
    files = write_case_files(work, label, entries, ex)
    bad = eval_case_files(files)
    for i, vi, r in bad:
        on_bad(chk, describe(cases, jobs, res, i, vi), r, i, vi)
    return len(entries), res


def standard_streams(chk, rng, want, nvalues_quick=4, nvalues_thorough=6, random_quick=400, random_thorough=6000):
    boost = 1 if chk.proof_ok else 3
    cases = gen_schemas(chk.tier, chk.seed, want_random=(random_quick if chk.tier == "quick" else random_thorough) * boost)
    nvals = nvalues_quick if chk.tier == "quick" else nvalues_thorough
    jobs = make_jobs(cases, rng, nvals * (2 if boost > 1 else 1), want)
    streams = {}
    for s_, _, _ in cases:
        streams[s_] = streams.get(s_, 0) + 1
    chk.coverage["schemas_per_stream"] = streams
    return cases, jobs


def corpus_jobs(pid, rng, want, nvalues=3):
    corpus = []
    for p in (pid, "C01", "C02"):
        for item in load_corpus(p):
            if item[0] not in [c[0] for c in corpus]:
                corpus.append(item)
    cases = [("corpus", f, t) for f, t, vs, j in corpus]
    jobs = make_jobs(cases, rng, nvalues, want, corpus={i: vs for i, (f, t, vs, j) in enumerate(corpus) if vs})
    return cases, jobs


def replay_case(path):
    with open(path) as f:
        j = json.load(f)
    t = S.from_json(j["schema"])
    return j, t
