#!/venv/bin/python
"""C11 — copy_from yields an equal, fully independent message."""
import os
import random
import sys

sys.path.insert(0, os.path.dirname(os.path.abspath(__file__)))
sys.path.insert(0, os.path.join(os.path.dirname(os.path.abspath(__file__)), "..", "tools"))
import apihist as A  # noqa: E402
import schema as S  # noqa: E402
import C10 as P10  # noqa: E402
from checklib import Check  # noqa: E402


def comp_arrays(t, v, path=()):
    """(path, field index, type) of every bound composite array reachable in state v"""
    out = []
    for p, ot, ov in A.objects(t, v):
        if ot[0] == "struct":
            for i, (fname, k, ft) in enumerate(ot[2]):
                if k[0] in ("bound", "limited", "greedy") and ft[0] in ("struct", "union"):
                    out.append((p, i, ft))
    return out


def extra_op(rng, t, shadow):
    """copy_from between the two messages, or extend() of a composite array with the elements of
    an array of the same element type in either message"""
    if rng.random() < 0.6:
        dst = rng.choice("ab")
        return {"op": "copy", "dst": dst, "src": "a" if dst == "b" else "b", "root": dst, "path": []}
    dr = rng.choice("ab")
    dsts = comp_arrays(t, shadow[dr])
    if not dsts:
        return None
    dp, di, dt = rng.choice(dsts)
    sr = rng.choice("ab")
    srcs = [(p, i) for p, i, ft in comp_arrays(t, shadow[sr]) if ft == dt]
    if not srcs:
        return None
    sp, si = rng.choice(srcs)
    return {"op": "extend_from", "root": dr, "path": [list(x) for x in dp], "i": di,
            "src_root": sr, "src_path": [list(x) for x in sp], "src_i": si}


def main():
    chk = Check("C11")
    chk.build()
    rng = random.Random(chk.seed)
    quick = chk.tier == "quick"
    if chk.replay_mode:
        import json
        with open(chk.replay_mode) as f:
            j = json.load(f)
        t = S.from_json(j["schema"])
        cases = [("replay", "replay", t)]
        hist = {0: [j["history"]]}
        results = A.execute(cases, hist)
        entries, bad = A.compare_in_coq(chk, cases, hist, results, "c11r")
        P10.report(chk, cases, bad)
        return chk.finish()
    cases = A.api_schemas(chk, 60 if quick else 600)
    # copy_from matters for composites: keep schemas that nest something
    cases = [c for c in cases if any(ft[0] in ("struct", "union") for _, _, ft in c[2][2])] or cases
    hist, results = A.grow_histories(chk, cases, rng, 4 if quick else 6, 14 if quick else 30, extra_op=extra_op)
    entries, bad = A.compare_in_coq(chk, cases, hist, results, "c11")
    P10.report(chk, cases, bad)
    ncopy = 0
    for i, h, ops, hr in entries:
        for k, (op, st) in enumerate(zip(ops, hr["steps"])):
            chk.count()
            chk.seen_class((cases[i][1].split("@")[0], op["op"], st.get("exc") or "ok"), True)
            if op["op"] == "copy" and "a" in st:
                ncopy += 1
                # equal field values right after the copy (also checked by the model comparison)
                if st["a"] != st["b"] and "exc" not in st:
                    chk.violation("copy-%d-%d-%d" % (i, h, k), {"kind": "copy_from left the two messages with different values",
                                                               "schema_text": S.to_prophy(cases[i][2]), "schema": cases[i][2],
                                                               "history": ops[:k + 1], "a": st["a"], "b": st["b"]})
    chk.coverage["copy_from_operations"] = ncopy
    chk.coverage["rule"] = ("schemas with nested composites (as in C01); histories over TWO messages a and b of the root type mixing the API "
                            "operations of C10 with b.copy_from(a) / a.copy_from(b) and extend() of composite arrays by elements taken from "
                            "either message, followed by further mutations of either message at any depth; after every operation the "
                            "exception class and the observable state of BOTH messages are compared inside Coq with the reference model "
                            "(immutable value trees: a copy is an assignment, so any sharing between the real objects shows as a state "
                            "difference after a later mutation).")
    if entries:
        i, h, ops, hr = entries[len(entries) // 3]
        chk.sample({"schema": S.to_prophy(cases[i][2]), "history": ops[:5]})
    return chk.finish(level="proof")


if __name__ == "__main__":
    sys.exit(main())
