#!/venv/bin/python
"""C06 — Python decode is total: any bytes decode or raise ProphyError, nothing else."""
import os
import random
import sys

sys.path.insert(0, os.path.dirname(os.path.abspath(__file__)))
sys.path.insert(0, os.path.join(os.path.dirname(os.path.abspath(__file__)), "..", "tools"))
import codec  # noqa: E402
import common  # noqa: E402
import impl  # noqa: E402
import schema as S  # noqa: E402
from checklib import Check  # noqa: E402

WORDS = [0, 1, 2, 3, 5, 0x80, 0xFF, 0x100, 0x8000, 0xFFFF, 0x10000, 0x10001, 0x7FFFFFFF, 0x80000000, 0xFFFFFFFF, 0xFFFFFFFE,
         0x8000000000000000, 0xFFFFFFFFFFFFFFFF]
SLOW = 1.0   # seconds; a decode of a < 1 KiB input normally takes well under a millisecond


def mutants(data, e, rng, budget):
    """malformed inputs derived from one valid encoding: every prefix, every aligned control word
    replaced by boundary values (both widths 1/2/4/8), bit flips, extensions, random bytes"""
    out = []
    n = len(data)
    for k in range(n):                                   # every truncation point
        out.append(data[:k])
    for tail in (b"\x00", b"\x01\x00\x00\x00", b"\xff" * 8):   # extended
        out.append(data + tail)
    order = "little" if e == "<" else "big"
    for w in (4, 1, 2, 8):
        for off in range(0, n - w + 1, w):
            for val in WORDS:
                if val < (1 << (8 * w)):
                    m = bytearray(data)
                    m[off:off + w] = val.to_bytes(w, order)
                    out.append(bytes(m))
    for _ in range(8):
        if n:
            m = bytearray(data)
            i = rng.randrange(n)
            m[i] ^= 1 << rng.randrange(8)
            out.append(bytes(m))
    for _ in range(4):
        out.append(bytes(rng.randrange(256) for _ in range(rng.choice([0, 1, 3, 4, 7, 8, 12, 16, 33]))))
    seen = set()
    uniq = []
    for m in out:
        if m not in seen and m != data:
            seen.add(m)
            uniq.append(m)
    if len(uniq) > budget:
        keep = uniq[:min(len(data), budget // 3)]          # prefixes first
        rest = uniq[len(keep):]
        rng.shuffle(rest)
        uniq = keep + rest[:budget - len(keep)]
    return uniq


def run(chk, cases, rng, nvalues, budget, label):
    # phase 1: valid encodings
    jobs = codec.make_jobs(cases, rng, nvalues, ["encode"])
    res = impl.run_py_jobs(jobs)
    # phase 2: decode the mutants
    djobs = []
    meta = {}
    for j in jobs:
        r = res.get(j["id"], {})
        if "values" not in r:
            continue
        dec = []
        for rv in r["values"]:
            for e in "<>":
                if e in rv and not rv[e].startswith("EXC:"):
                    for m in mutants(bytes(bytearray.fromhex(rv[e])), e, rng, budget):
                        dec.append([e, m.hex()])
        # dedupe
        seen = set()
        dd = []
        for e, h in dec:
            if (e, h) not in seen:
                seen.add((e, h))
                dd.append([e, h])
        djobs.append({"id": j["id"], "schema": j["schema"], "text": j["text"], "root": j["root"], "values": [],
                      "decode": dd, "want": []})
        meta[j["id"]] = dd
    dres = impl.run_py_jobs(djobs, batch=10, timeout=300)
    entries = []
    kinds = {}
    for j in djobs:
        r = dres.get(j["id"], {})
        if "worker_error" in r:
            # a hang or crash of the decoder itself: find the culprit input by bisection is left to replay
            chk.violation("worker-%s-%d" % (label, j["id"]),
                          {"kind": "decode hung or crashed the interpreter", "schema_text": j["text"], "schema": j["schema"],
                           "inputs": j["decode"][:50], "detail": r["worker_error"]})
            continue
        if "decode" not in r:
            continue
        for k, (inp, out) in enumerate(zip(j["decode"], r["decode"])):
            chk.count()
            e, h = inp
            case = {"schema_text": j["text"], "schema": j["schema"], "root": j["root"], "endianness": e, "data": h, "observed": out}
            oc = out.get("exc", "returned")
            kinds[oc] = kinds.get(oc, 0) + 1
            chk.seen_class((cases[j["id"]][1], oc, len(h) // 2), True)
            if "exc" in out and out["exc"] != "ProphyError":
                chk.violation("exc-%d-%d" % (j["id"], k), dict(case, kind="decode raised %s instead of ProphyError" % out["exc"]))
            elif "exc" not in out:
                if "get_exc" in out or str(out.get("reenc", "")).startswith("EXC:"):
                    chk.violation("reenc-%d-%d" % (j["id"], k), dict(case, kind="decoded message cannot be read back or re-encoded"))
                elif "fix" in out and "exc" in out["fix"] and out["fix"]["exc"] != "ProphyError":
                    chk.violation("fixpoint-%d-%d" % (j["id"], k), dict(case, kind="decoding the re-encoding raised %s" % out["fix"]["exc"]))
                # a ProphyError from decoding the re-encoding is judged inside Coq (fixpoint_exc_case): it is outside the
                # claim exactly when the decoded message has a greedy tail that does not end aligned
                elif out.get("elements", 0) > len(h) // 2 + 4096:
                    chk.violation("alloc-%d-%d" % (j["id"], k), dict(case, kind="element count out of proportion to the input"))
            if out.get("time", 0) > SLOW:
                chk.violation("slow-%d-%d" % (j["id"], k), dict(case, kind="decode took %.2fs" % out["time"]))
            entries.append((j["id"], k, (e, h, out)))

    def ex(en, names):
        i, k, (e, h, out) = en
        tt = S.to_coq(cases[i][2], names)
        if "exc" in out:
            obs, ov = "[%d]" % codec.EXN_CODE.get(out["exc"], 9), "VNone"
        elif "get_exc" in out:
            obs, ov = "[8]", "VNone"
        else:
            obs, ov = "[0; %d]" % out["consumed"], S.value_coq(S.value_from_json(out["value"]))
        fx = ""
        if "exc" not in out and "get_exc" not in out and "fix" in out and "exc" not in out["fix"]:
            b = lambda x: "true" if x else "false"  # noqa: E731
            fx = " ++ fixpoint_case %s %s %s %s %s" % (tt, ov, b(out["fix"].get("same_value")), b(out["fix"].get("same_bytes")),
                                                        b(out["fix"].get("consumed_all")))
        if "exc" not in out and "get_exc" not in out and "fix" in out and out["fix"].get("exc") == "ProphyError":
            fx = " ++ fixpoint_exc_case %s %s" % (tt, ov)
        return "(%d, %d, model_decode_case %s %s %s %s %s%s)" % (i, k, "LE" if e == "<" else "BE", tt, codec.hex_coq(h), obs, ov, fx)

    work = common.scratch("c06")
    files = codec.write_case_files(work, label, entries, ex, chunk=400)
    bad = codec.eval_case_files(files)
    for i, k, r in bad:
        e, h = meta[i][k]
        if 9100000091 in r:
            chk.violation("fixpoint-%d-%d" % (i, k),
                          {"kind": "decoding the re-encoding raised ProphyError although the decoded message has no unaligned greedy tail",
                           "schema_text": S.to_prophy(cases[i][2]), "schema": cases[i][2], "root": cases[i][2][1],
                           "endianness": e, "data": h, "observed": dres[i]["decode"][k], "result": r[:10]})
            if r[0] == 9100000091:
                continue
        if 92 in r:
            chk.violation("fixpoint-%d-%d" % (i, k),
                          {"kind": "decode of the re-encoding is not a fixpoint (flags same_value, same_bytes, consumed_all after 92)",
                           "schema_text": S.to_prophy(cases[i][2]), "schema": cases[i][2], "root": cases[i][2][1],
                           "endianness": e, "data": h, "observed": dres[i]["decode"][k], "result": r[:10]})
            if r[0] == 92:
                continue
        chk.violation("corr-%d-%d" % (i, k),
                      {"kind": "model/implementation correspondence broken (decode of malformed input)",
                       "schema_text": S.to_prophy(cases[i][2]), "schema": cases[i][2], "root": cases[i][2][1],
                       "endianness": e, "data": h, "observed": dres[i]["decode"][k], "model_result": r[:10]},
                      "no-failing-input-found")
    for k_, n_ in kinds.items():
        chk.coverage.setdefault("outcomes", {})
        chk.coverage["outcomes"][k_] = chk.coverage["outcomes"].get(k_, 0) + n_
    return entries


def main():
    chk = Check("C06")
    chk.build()
    rng = random.Random(chk.seed)
    if chk.replay_mode:
        import json
        with open(chk.replay_mode) as f:
            j = json.load(f)
        t = S.from_json(j["schema"])
        cases = [("replay", "replay", t)]
        dj = [{"id": 0, "schema": t, "text": S.to_prophy(t), "root": t[1], "values": [], "decode": [[j["endianness"], j["data"]]], "want": []}]
        out = impl.run_py_jobs(dj)[0]
        print(json.dumps(out, indent=1))
        ok = "decode" in out and ("exc" not in out["decode"][0] or out["decode"][0]["exc"] == "ProphyError")
        if not ok:
            chk.violation("replay", dict(j, observed_now=out))
        return chk.finish()
    quick = chk.tier == "quick"
    cases = []
    for f, t, vs, j in codec.load_corpus("C06") + codec.load_corpus("C02") + codec.load_corpus("C01"):
        cases.append(("corpus", f, t))
    k = 1 if quick else 2
    cases += codec.gen_schemas(chk.tier, chk.seed, want_random=60 if quick else 400, k=k)
    if not quick:
        # the length-2 sequences without wrappers keep the thorough tier within minutes
        cases = [c for c in cases if "@" not in c[1] or c[1].count("+") == 0]
        cases = [c for i, c in enumerate(cases) if c[0] != "exhaustive" or i % 3 == 0]
    entries = run(chk, cases, rng, 2 if quick else 3, 40 if quick else 80, "gen")
    streams = {}
    for s_, _, _ in cases:
        streams[s_] = streams.get(s_, 0) + 1
    chk.coverage["schemas_per_stream"] = streams
    chk.coverage["rule"] = ("valid encodings (both byte orders) of generated schema/value pairs are turned into malformed inputs: every "
                            "prefix, extensions, every aligned 1/2/4/8-byte word replaced by boundary values (0,1,limit-ish,0xFFFF,"
                            "0x10000,0x10001,2^31,2^32-1,...), bit flips, random bytes. Oracle on the real decoder: exception class in "
                            "{none, ProphyError}; a returned message re-encodes and decode(re-encoding) is a fixpoint; element count "
                            "bounded by input size; each call under %.1fs. Correspondence: outcome, consumed length and value vs the "
                            "Coq model py_decode. distinct_nontrivial = distinct (schema shape, outcome, input length) classes." % SLOW)
    if entries:
        i, k_, (e, h, out) = entries[len(entries) // 2]
        chk.sample({"schema": S.to_prophy(cases[i][2]), "endianness": e, "data": h, "observed": out})
    chk.assumptions += ["CPU time and memory of CPython itself are observed (per-call wall time, decoded element counts), not proved"]
    return chk.finish()


if __name__ == "__main__":
    sys.exit(main())
