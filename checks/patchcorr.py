"""Correspondence between prophyc.patch and the Coq model PcPatch: generated structs (member records of every
constructor-valid shape) and generated patch dictionaries (every rule, applicable and not, names that exist and
names that do not, action sequences) are applied by the real patch.patch() and by the model (vm_compute); the
resulting member records, or the failure, must agree. Used by C17."""
import json
import os
import random
import subprocess
import sys

sys.path.insert(0, os.path.join(os.path.dirname(os.path.abspath(__file__)), "..", "tools"))
import common  # noqa: E402

RUNNER = r'''
import json, sys
from prophyc import model, patch
runs = json.load(sys.stdin)
out = []
def rec(m):
    return [int(m.name[1:]), int(m.type_name[1:]), None if m.bound is None else int(m.bound[1:]),
            None if m.size is None else int(m.size), bool(m.greedy), bool(m.optional)]
for node, mems, patches in runs:
    members = [model.StructMember("n%d" % n, "t%d" % t, bound=None if b is None else "n%d" % b,
                                  size=None if s is None else str(s), greedy=g, optional=o) for n, t, b, s, g, o in mems]
    nodes = [model.Struct("N%d" % node, members)]
    pd = {}
    for name, acts in patches:
        pd.setdefault("N%d" % name, []).extend(patch.Action(a, [str(x) if k == "z" else ("t%d" % x if k == "t" else "n%d" % x)
                                                               for k, x in params]) for a, params in acts)
    try:
        patch.patch(nodes, pd)
        out.append(["ok", [rec(m) for m in nodes[0].members]])
    except Exception as e:
        out.append(["err", type(e).__name__ + ": " + str(e)[:160]])
json.dump(out, sys.stdout)
'''


def gen_member(rng, name, before):
    t = rng.randrange(1, 6)
    c = rng.random()
    if c < 0.35 or not before:
        shape = rng.choice(["plain", "plain", "fixed", "opt", "greedy"])
    else:
        shape = rng.choice(["plain", "fixed", "opt", "bound", "limited", "greedy"])
    b = s = None
    g = o = False
    if shape == "fixed":
        s = rng.choice([1, 2, 3, 8])
    elif shape == "opt":
        o = True
    elif shape == "greedy":
        g = True
    elif shape == "bound":
        b = rng.choice(before)
    elif shape == "limited":
        b, s = rng.choice(before), rng.choice([1, 2, 4])
    return [name, t, b, s, g, o]


def gen_action(rng, names):
    some = lambda: rng.choice(names) if names and rng.random() < 0.93 else rng.randrange(20, 24)   # noqa: E731
    k = rng.choice(["type", "insert", "remove", "dynamic", "greedy", "static", "limited", "dynamic", "limited", "rename", "rename"])
    if k == "type":
        return ("type", [("n", some()), ("t", rng.randrange(1, 9))])
    if k == "insert":
        return ("insert", [("z", rng.choice([0, 1, 2, -1, -2, 5, 99, -99])), ("n", rng.randrange(10, 14)), ("t", rng.randrange(1, 9))])
    if k == "remove":
        return ("remove", [("n", some())])
    if k == "rename":
        return ("rename", [("n", some()), ("n", rng.randrange(14, 18))])
    if k in ("dynamic", "limited") and len(names) > 1 and rng.random() < 0.7:
        i = rng.randrange(1, len(names))             # mostly applicable: the counter is an earlier member
        return (k, [("n", names[i]), ("n", rng.choice(names[:i]))])
    if k == "dynamic":
        return ("dynamic", [("n", some()), ("n", some())])
    if k == "greedy":
        return ("greedy", [("n", some())])
    if k == "static":
        return ("static", [("n", some()), ("z", rng.choice([1, 2, 7]))])
    return ("limited", [("n", some()), ("n", some())])


def gen_runs(rng, n):
    runs = []
    # witness of fix 8cfbd78: renaming a counter; then a rule that needs the counter under its new name
    cnt = [[1, 1, None, None, False, False], [2, 2, 1, None, False, False], [3, 2, 1, 4, False, False], [4, 3, None, 2, False, False]]
    runs.append((1, cnt, [(1, [("rename", [("n", 1), ("n", 15)])])]))
    runs.append((1, cnt, [(1, [("rename", [("n", 1), ("n", 15)]), ("limited", [("n", 4), ("n", 15)])])]))
    runs.append((1, cnt, [(1, [("rename", [("n", 1), ("n", 15)]), ("dynamic", [("n", 4), ("n", 1)])])]))
    for _ in range(n):
        k = rng.randint(1, 6)
        mems, names = [], []
        for i in range(k):
            nm = i + 1
            mems.append(gen_member(rng, nm, list(names)))
            names.append(nm)
        node = rng.randrange(1, 4)
        patches = []
        for _ in range(rng.choice([1, 1, 2])):
            target = node if rng.random() < 0.8 else rng.randrange(1, 5)
            patches.append((target, [gen_action(rng, names) for _ in range(rng.choice([1, 1, 2, 3]))]))
        runs.append((node, mems, patches))
    return runs


def opt(x, z=False):
    return "None" if x is None else ("(Some %s)" % (("(%d)%%Z" % x) if z else ("%d" % x)))


def mem_coq(m):
    n, t, b, s, g, o = m
    return "{| m_name := %d; m_type := %d; m_bound := %s; m_size := %s; m_greedy := %s; m_opt := %s |}" % (
        n, t, opt(b), opt(s, True), "true" if g else "false", "true" if o else "false")


def act_coq(a):
    k, ps = a
    v = [x for _, x in ps]
    if k == "type":
        return "AType %d %d" % (v[0], v[1])
    if k == "insert":
        return "AInsert (%d)%%Z %d %d" % (v[0], v[1], v[2])
    if k == "remove":
        return "ARemove %d" % v[0]
    if k == "dynamic":
        return "ADynamic %d %d" % (v[0], v[1])
    if k == "greedy":
        return "AGreedy %d" % v[0]
    if k == "static":
        return "AStatic %d (%d)%%Z" % (v[0], v[1])
    if k == "rename":
        return "ARename %d %d" % (v[0], v[1])
    return "ALimited %d %d" % (v[0], v[1])


def merged(patches):
    """patch.parse collects the actions of one name in file order"""
    d, order = {}, []
    for name, acts in patches:
        if name not in d:
            d[name] = []
            order.append(name)
        d[name].extend(acts)
    return [(n, d[n]) for n in order]


def run(chk, n_random):
    rng = random.Random(chk.seed + 17)
    runs = gen_runs(rng, n_random)
    p = subprocess.run([common.PY, "-c", RUNNER], input=json.dumps(runs), capture_output=True, text=True,
                       env=common.impl_env(), timeout=1200)
    if p.returncode != 0:
        chk.violation("patch-runner", {"kind": "could not run prophyc.patch", "detail": p.stderr[-800:]}, "no-failing-input-found", match=False)
        return 0
    impl = json.loads(p.stdout)
    work = common.scratch("patchcorr")
    files = []
    CH = 300
    for off in range(0, len(runs), CH):
        lines = []
        for gi, (node, mems, patches) in enumerate(runs[off:off + CH]):
            o = impl[off + gi]
            obs = "None" if o[0] == "err" else "(Some [%s])" % "; ".join(mem_coq(m) for m in o[1])
            lines.append("(%d, patch_case %d [%s] [%s] %s)" % (
                off + gi, node, "; ".join(mem_coq(m) for m in mems),
                "; ".join("(%d, [%s])" % (n, "; ".join(act_coq(a) for a in acts)) for n, acts in merged(patches)), obs))
        f = os.path.join(work, "p%d.v" % off)
        with open(f, "w") as fh:
            fh.write("From Coq Require Import List Arith ZArith.\nFrom Prophy Require Import PcPatch CheckLib.\nImport ListNotations.\n")
            fh.write("Eval vm_compute in [\n%s].\n" % ";\n".join(lines))
        files.append(f)
    res = common.coq_eval_many(files)
    n = 0
    kinds = {"ok": 0, "err": 0}
    for f in files:
        for gi, flat in res[f][0]:
            n += 1
            chk.count()
            o = impl[gi]
            kinds[o[0]] += 1
            node, mems, patches = runs[gi]
            chk.seen_class(("patch", o[0], tuple(sorted(set(a for _, acts in patches for a, _ in acts)))), True)
            if list(flat) != []:
                chk.violation("patchcorr-%d" % gi, {"kind": "model/implementation correspondence broken (prophyc.patch vs model/PcPatch.v): "
                                                            "flags = [95; model ok; implementation ok]",
                                                    "node": node, "members": mems, "patches": patches, "observed": o, "model_flags": list(flat)},
                              "no-failing-input-found", match=False)
    chk.coverage["patch_correspondence"] = {"runs": n, "outcomes": kinds}
    return n


# ---------------------------------------------------------------- isar: <member> elements -> member records
ISAR_RUNNER = r'''
import json, re, sys
import xml.etree.ElementTree as ET
from prophyc.parsers import isar
runs = json.load(sys.stdin)
out = []
def nm(s):
    m = re.match(r"^has_m(\d+)$", s)
    if m: return 1000 + int(m.group(1))
    m = re.match(r"^numOfM(\d+)$", s)
    if m: return 2000 + int(m.group(1))
    m = re.match(r"^m(\d+)_len$", s)
    if m: return 3000 + int(m.group(1))
    m = re.match(r"^m(\d+)$", s)
    if m: return int(m.group(1))
    m = re.match(r"^s(\d+)$", s)
    if m: return 4000 + int(m.group(1))
    raise ValueError(s)
def tp(s):
    return 0 if s == "u32" else int(s[1:])
def sz(s):
    if s is None: return None
    v = 1
    for part in s.split("*"):
        v *= int(part)
    return v
for name, t, optional, attrs, dyn in runs:
    el = ET.Element("member", {"name": "m%d" % name, "type": "t%d" % t})
    if optional is not None:
        el.set("optional", optional)
    if attrs is not None:
        ET.SubElement(el, "dimension", attrs)
    try:
        ms = isar.make_struct_members(el, dyn)
        out.append(["ok", [[nm(m.name), tp(m.type_name), None if m.bound is None else nm(m.bound), sz(m.size),
                            bool(m.greedy), bool(m.optional)] for m in ms]])
    except Exception as e:
        out.append(["err", type(e).__name__ + ": " + str(e)[:160]])
json.dump(out, sys.stdout)
'''


def gen_isar(rng, n):
    runs = []
    for _ in range(n):
        name, t = rng.randrange(1, 9), rng.randrange(1, 6)
        optional = rng.choice([None, None, "true", "false", "True"])
        dyn = rng.random() < 0.3
        if rng.random() < 0.2:
            runs.append((name, t, optional, None, dyn, None))
            continue
        attrs, d = {}, {"size": None, "size2": None, "tiv": False, "vn": None, "iv": False, "vt": None}
        if rng.random() < 0.75:
            if rng.random() < 0.12:
                attrs["size"], d["tiv"] = "THIS_IS_VARIABLE_SIZE_ARRAY", True
            else:
                d["size"] = rng.choice([1, 2, 3, 5, 8])
                attrs["size"] = str(d["size"])
                if rng.random() < 0.35:
                    d["size2"] = rng.choice([2, 3, 4])
                    attrs["size2"] = str(d["size2"])
        if rng.random() < 0.5:
            attrs["isVariableSize"], d["iv"] = "true", True
        if rng.random() < 0.4:
            k = rng.randrange(1, 5)
            at = rng.random() < 0.5
            attrs["variableSizeFieldName"] = ("@s%d" if at else "s%d") % k
            d["vn"] = (at, 4000 + k)
        if rng.random() < 0.3:
            k = rng.randrange(1, 5)
            attrs["variableSizeFieldType"], d["vt"] = "t%d" % k, k
        runs.append((name, t, optional, attrs, dyn, d))
    return runs


def dim_coq(d):
    if d is None:
        return "None"
    vn = "None" if d["vn"] is None else "(Some (%s, %d))" % ("true" if d["vn"][0] else "false", d["vn"][1])
    return ("(Some {| d_size := %s; d_size2 := %s; d_this_is_variable := %s; d_var_name := %s; d_is_variable := %s; d_var_type := %s |})"
            % (opt(d["size"], True), opt(d["size2"], True), "true" if d["tiv"] else "false", vn,
               "true" if d["iv"] else "false", opt(d["vt"])))


def run_isar(chk, n_random):
    rng = random.Random(chk.seed + 18)
    runs = gen_isar(rng, n_random)
    p = subprocess.run([common.PY, "-c", ISAR_RUNNER], input=json.dumps([r[:5] for r in runs]), capture_output=True, text=True,
                       env=common.impl_env(), timeout=1200)
    if p.returncode != 0:
        chk.violation("isar-runner", {"kind": "could not run prophyc.parsers.isar.make_struct_members", "detail": p.stderr[-800:]},
                      "no-failing-input-found", match=False)
        return 0
    impl = json.loads(p.stdout)
    work = common.scratch("isarcorr")
    lines = []
    for gi, (name, t, optional, attrs, dyn, d) in enumerate(runs):
        o = impl[gi]
        if o[0] != "ok":
            chk.violation("isar-exc-%d" % gi, {"kind": "make_struct_members raised on a well-formed <member>", "member": runs[gi][:5], "observed": o})
            continue
        isopt = optional is not None and optional.lower() == "true"
        lines.append("(%d, isar_case %d %d %s %s %s [%s])" % (gi, name, t, "true" if isopt else "false", dim_coq(d),
                                                            "true" if dyn else "false", "; ".join(mem_coq(m) for m in o[1])))
    files = []
    for off in range(0, len(lines), 500):
        f = os.path.join(work, "i%d.v" % off)
        with open(f, "w") as fh:
            fh.write("From Coq Require Import List Arith ZArith.\nFrom Prophy Require Import PcPatch PcIsar CheckLib.\nImport ListNotations.\n")
            fh.write("Eval vm_compute in [\n%s].\n" % ";\n".join(lines[off:off + 500]))
        files.append(f)
    res = common.coq_eval_many(files)
    n = 0
    for f in files:
        for gi, flat in res[f][0]:
            n += 1
            chk.count()
            chk.seen_class(("isar", tuple(sorted((runs[gi][3] or {}).keys())), runs[gi][2], runs[gi][4]), True)
            if list(flat) != []:
                chk.violation("isarcorr-%d" % gi, {"kind": "model/implementation correspondence broken (isar.make_struct_members vs model/PcIsar.v): "
                                                           "flags = [94; records in the model; records observed]",
                                                   "member": runs[gi][:5], "observed": impl[gi], "model_flags": list(flat)},
                              "no-failing-input-found", match=False)
    chk.coverage["isar_member_correspondence"] = {"members": n}
    return n
