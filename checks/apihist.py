"""Shared machinery of C10 and C11: random / enumerated histories of public API operations on
two fresh messages of a generated schema, executed on the real Python objects (tools/pyworker.py
run_history) and on the Coq reference model (spec/ApiSpec.v through CheckLib.api_history_case)."""
import os
import random
import sys

sys.path.insert(0, os.path.join(os.path.dirname(os.path.abspath(__file__)), "..", "tools"))
import codec  # noqa: E402
import common  # noqa: E402
import impl  # noqa: E402
import schema as S  # noqa: E402

EXC_CODE = {None: 0, "ProphyError": 1, "IndexError": 5, "ValueError": 6}


# ------------------------------------------------------------------ python-side shadow state
# (only used to steer generation: which paths exist, array lengths; the oracle is the Coq model)

def default(t):
    if t[0] in ("scalar", "byte"):
        return 0
    if t[0] == "enum":
        return t[2][0][1]
    if t[0] == "union":
        return ["union", 0, default(t[2][0][2])]
    vals = []
    for fname, k, ft in t[2]:
        if k[0] == "plain":
            vals.append(default(ft))
        elif k[0] == "opt":
            vals.append(None)
        elif k[0] == "fixed":
            vals.append(["list", [default(ft) for _ in range(k[1])]])
        else:
            vals.append(["list", []])
    return ["struct", vals]


def objects(t, v, path=()):
    """all composite objects reachable in state v: list of (path, type, value)"""
    out = [(list(path), t, v)]
    if t[0] == "struct":
        for i, ((fname, k, ft), x) in enumerate(zip(t[2], v[1])):
            if ft[0] not in ("struct", "union"):
                continue
            if k[0] == "plain":
                out += objects(ft, x, path + (("f", i),))
            elif k[0] == "opt" and x is not None:
                out += objects(ft, x[1] if isinstance(x, list) and x and x[0] == "some" else x, path + (("f", i),))
            elif k[0] in ("fixed", "bound", "limited", "greedy"):
                for j, e in enumerate(x[1][:3]):
                    out += objects(ft, e, path + (("e", i, j),))
    elif t[0] == "union":
        at = t[2][v[1]][2]
        if at[0] in ("struct", "union"):
            out += objects(at, v[2], path + (("f", v[1]),))
    return out


def good_scalar(rng, t):
    if t[0] == "enum":
        return rng.choice([["int", rng.choice(t[2])[1]], ["str", rng.randrange(len(t[2]))]])
    n = t[1]
    if n in ("r32", "r64"):
        w = S.SIZE[n]
        if n == "r64" and rng.random() < 0.2:
            return ["floathuge", rng.choice([0x483D6329F1C35CA5, 0xC807820E06A3B8EF, 0x7E37E43C8800759C])]   # 1e40, -1e39, 1e300
        return ["float", w, S.boundary_int(rng, n)]
    lo, hi = S.srange(n)
    return rng.choice([["int", rng.choice([lo, hi, 0, 1, rng.randint(lo, hi)])], ["bool", rng.random() < 0.5]])


def bad_scalar(rng, t):
    if t[0] == "enum":
        vals = [v for _, v in t[2]]
        cand = [x for x in (0, 1, 4, 6, 9, 2 ** 32, -1) if x not in vals]
        return rng.choice([["int", rng.choice(cand)], ["str", 99], ["none"], ["float", 8, 0], ["bytes", [1]], ["list", []]])
    n = t[1]
    if n == "r32":
        return rng.choice([["str", 0], ["none"], ["bytes", [1, 2]], ["list", [["int", 1]]],
                           ["floathuge", 0x483D6329F1C35CA5], ["floathuge", 0xC807820E06A3B8EF]])
    if n == "r64":
        return rng.choice([["str", 0], ["none"], ["bytes", [1, 2]], ["list", [["int", 1]]]])
    lo, hi = S.srange(n)
    return rng.choice([["int", hi + 1], ["int", lo - 1], ["int", hi * 3 + 7], ["float", 8, 0x3FF0000000000000], ["str", 0],
                       ["none"], ["bytes", [65]], ["list", []]])


def scalar_arg(rng, t, p_bad=0.25):
    return bad_scalar(rng, t) if rng.random() < p_bad else good_scalar(rng, t)


def idx_arg(rng, n):
    return rng.choice([0, -1, n - 1, n, -n, -n - 1, n + 3, rng.randint(-2, max(0, n))])


def opt_idx(rng, n):
    return rng.choice([None, 0, 1, -1, n, n + 2, n + 7, -n, -n - 4, rng.randint(-3, n + 1)])


def gen_op(rng, t, state, root):
    """one operation on some object of message `root`; state is the shadow value"""
    path, ot, ov = rng.choice(objects(t, state))
    base = {"root": root, "path": [list(p) for p in path]}
    if ot[0] == "union":
        c = rng.random()
        if c < 0.4:
            x = rng.choice([["int", rng.choice(ot[2])[0]], ["str", rng.randrange(len(ot[2]))], ["int", 12345], ["str", 77], ["none"]])
            return dict(base, op="disc", x=x)
        i = rng.randrange(len(ot[2])) if rng.random() < 0.3 else ov[1]
        at = ot[2][i][2]
        if at[0] in ("struct", "union"):
            return dict(base, op="set", i=i, x=rng.choice([["int", 1], ["none"], ["bool", True]]))
        return dict(base, op="set", i=i, x=scalar_arg(rng, at))
    sizers = set(k[-1] for _, k, _ in ot[2] if k[0] in ("bound", "limited"))
    cand = [i for i in range(len(ot[2])) if i not in sizers]
    i = rng.choice(cand)
    fname, k, ft = ot[2][i]
    x = ov[1][i]
    comp = ft[0] in ("struct", "union")
    if k[0] == "plain":
        if comp:
            return dict(base, op="set", i=i, x=rng.choice([["int", 1], ["none"], ["bool", True]]))
        return dict(base, op="set", i=i, x=scalar_arg(rng, ft))
    if k[0] == "opt":
        if comp:
            return dict(base, op="set", i=i, x=rng.choice([["bool", True], ["none"], ["bool", True], ["none"], ["int", 1], ["bool", False]]))
        return dict(base, op="set", i=i, x=rng.choice([["none"], scalar_arg(rng, ft), scalar_arg(rng, ft)]))
    # arrays / bytes
    if ft[0] == "byte":
        lim = k[1] if k[0] in ("fixed", "limited") else 5
        n = rng.choice([0, 1, lim - 1, lim, lim + 1, rng.randint(0, lim + 2)])
        good = ["bytes", [rng.choice([0, 1, 39, 65, 255, rng.randrange(256)]) for _ in range(max(0, n))]]
        return dict(base, op="set", i=i, x=rng.choice([good, good, good, ["int", 1], ["none"], ["list", [["int", 1]]], ["str", 0]]))
    n = len(x[1])
    if rng.random() < 0.08:
        return dict(base, op="set", i=i, x=rng.choice([["list", []], ["none"], ["int", 0]]))     # assignment to an array field
    if comp:
        if k[0] == "fixed":
            return dict(base, op="set", i=i, x=["none"])
        c = rng.random()
        if c < 0.5:
            # add() / add(name=value, ...): attributes of the new element assigned in the same call (scalar and enum
            # members of a struct element; one in three values is one the member's type refuses)
            kw = []
            if ft[0] == "struct" and rng.random() < 0.6:
                esz = set(kk[-1] for _, kk, _ in ft[2] if kk[0] in ("bound", "limited"))
                plain = [j for j, (_, kk, et) in enumerate(ft[2]) if kk[0] == "plain" and et[0] in ("scalar", "enum") and j not in esz]
                rng.shuffle(plain)
                for j in plain[:rng.choice([1, 1, 2, 3])]:
                    kw.append([j, scalar_arg(rng, ft[2][j][2], 0.33)])
            return dict(base, op="add", i=i, kw=kw) if kw else dict(base, op="add", i=i)
        if c < 0.75:
            return dict(base, op="delitem", i=i, idx=idx_arg(rng, n))
        return dict(base, op="delslice", i=i, a=opt_idx(rng, n), b=opt_idx(rng, n))

    def seq(m, p_bad=0.15):
        items = [scalar_arg(rng, ft, p_bad / max(1, m)) for _ in range(m)]
        return [rng.choice(["list", "list", "list", "iter"]), items]

    if k[0] == "fixed":
        c = rng.random()
        if c < 0.6:
            return dict(base, op="setitem", i=i, idx=idx_arg(rng, n), x=scalar_arg(rng, ft))
        a, b = opt_idx(rng, n), opt_idx(rng, n)
        m = rng.choice([0, 1, n, max(0, n - 1), rng.randint(0, n + 1)])
        return dict(base, op="setslice", i=i, a=a, b=b, step=rng.choice([None, None, None, 2]), x=seq(m))
    lim = k[1] if k[0] == "limited" else 4
    c = rng.random()
    if c < 0.25:
        return dict(base, op="append", i=i, x=scalar_arg(rng, ft))
    if c < 0.40:
        return dict(base, op="insert", i=i, idx=idx_arg(rng, n), x=scalar_arg(rng, ft))
    if c < 0.58:
        m = rng.choice([0, 1, 2, max(0, lim - n), max(0, lim - n + 1)])
        return dict(base, op="extend", i=i, x=rng.choice([seq(m), seq(m), ["none"], ["int", 3]]))
    if c < 0.70:
        return dict(base, op="setitem", i=i, idx=idx_arg(rng, n), x=scalar_arg(rng, ft))
    if c < 0.82:
        # lengths around what still fits: the limit check of a slice assignment counts the elements it replaces
        m = rng.choice([0, 1, 2, max(0, lim - n), max(0, lim - n + 1), lim, lim + 1, lim + 2])
        return dict(base, op="setslice", i=i, a=opt_idx(rng, n), b=opt_idx(rng, n), step=rng.choice([None, None, None, None, 2, -1]), x=seq(m))
    if c < 0.90:
        return dict(base, op="delitem", i=i, idx=idx_arg(rng, n))
    if c < 0.96:
        return dict(base, op="delslice", i=i, a=opt_idx(rng, n), b=opt_idx(rng, n))
    return dict(base, op="remove", i=i, x=good_scalar(rng, ft))


# ------------------------------------------------------------------ Coq terms

def pyval_coq(x):
    k = x[0]
    if k == "int":
        return "(PInt %s)" % S.zlit(x[1])
    if k == "bool":
        return "(PBool %s)" % ("true" if x[1] else "false")
    if k == "float":
        return "(PFloat %d %d)" % (x[1], x[2])
    if k == "floathuge":
        return "(PFloatHuge %d)" % x[1]
    if k == "str":
        return "(PStr %s)" % S.zlit(x[1])
    if k == "bytes":
        return "(PBytes %s)" % S.bytes_coq(x[1])
    if k == "none":
        return "PNone"
    if k == "list":
        return "(PList [%s])" % "; ".join(pyval_coq(e) for e in x[1])
    if k == "iter":
        return "(PIter [%s])" % "; ".join(pyval_coq(e) for e in x[1])
    raise ValueError(x)


def oz(x):
    return "None" if x is None else "(Some %s)" % S.zlit(x)


def path_coq(p):
    return "[%s]" % "; ".join("SField %d%%nat" % s[1] if s[0] == "f" else "(SElem %d%%nat %s)" % (s[1], S.zlit(s[2])) for s in p)


def op_coq(op):
    k = op["op"]
    b = "true" if op.get("root") == "b" else "false"
    if k == "copy":
        return "(HI (HCopy %s))" % ("true" if op["dst"] == "b" else "false")
    if k == "add" and op.get("kw"):
        return "(HAddWith %s %s %d%%nat [%s])" % (b, path_coq(op.get("path", [])), op["i"],
                                               "; ".join("(ASet %d%%nat %s)" % (j, pyval_coq(x)) for j, x in op["kw"]))
    if k == "extend_from":
        return "(HI (HExtendFrom %s %s %d%%nat %s %s %d%%nat)" % (b, path_coq(op["path"]), op["i"],
                                                             "true" if op["src_root"] == "b" else "false",
                                                             path_coq(op["src_path"]), op["src_i"]) + ")"
    i = "%d%%nat" % op["i"] if "i" in op else ""
    if k == "set":
        a = "(ASet %s %s)" % (i, pyval_coq(op["x"]))
    elif k == "disc":
        a = "(ADisc %s)" % pyval_coq(op["x"])
    elif k == "append":
        a = "(AAppend %s %s)" % (i, pyval_coq(op["x"]))
    elif k == "insert":
        a = "(AInsert %s %s %s)" % (i, S.zlit(op["idx"]), pyval_coq(op["x"]))
    elif k == "extend":
        a = "(AExtend %s %s)" % (i, pyval_coq(op["x"]))
    elif k == "setitem":
        a = "(ASetItem %s %s %s)" % (i, S.zlit(op["idx"]), pyval_coq(op["x"]))
    elif k == "setslice":
        a = "(ASetSlice %s %s %s %s %s)" % (i, oz(op["a"]), oz(op["b"]), oz(op.get("step")), pyval_coq(op["x"]))
    elif k == "delitem":
        a = "(ADelItem %s %s)" % (i, S.zlit(op["idx"]))
    elif k == "delslice":
        a = "(ADelSlice %s %s %s)" % (i, oz(op["a"]), oz(op["b"]))
    elif k == "remove":
        a = "(ARemove %s %s)" % (i, pyval_coq(op["x"]))
    elif k == "add":
        a = "(AAdd %s)" % i
    else:
        raise ValueError(k)
    return "(HI (HOp %s %s %s))" % (b, path_coq(op.get("path", [])), a)


# ------------------------------------------------------------------ running

def api_schemas(chk, n_random):
    """schemas with every field kind; C10/C11 are about the Python runtime only"""
    quick = chk.tier == "quick"
    cases = codec.gen_schemas(chk.tier, chk.seed, want_random=n_random, k=1 if quick else 2)
    if not quick:
        cases = [c for i, c in enumerate(cases) if c[0] != "exhaustive" or i % 7 == 0]
    return cases


def run_histories(chk, cases, histories_of, label):
    """histories_of(i, t, rng_for_case, executor) must return a list of op lists built
    incrementally; since later operations depend on the state the earlier ones produced, histories
    are generated against a shadow state that is advanced by executing prefixes on the real
    implementation in rounds. To keep it simple and deterministic we generate each history step by
    step with ONE worker call per round for all cases."""
    raise NotImplementedError


def execute(cases, hist):
    """hist: {case index: [ops lists]} -> {case index: [history results]}"""
    jobs = []
    for i, hs in hist.items():
        t = cases[i][2]
        jobs.append({"id": i, "schema": t, "text": S.to_prophy(t), "root": t[1], "values": [], "histories": hs, "want": []})
    res = impl.run_py_jobs(jobs, batch=20, timeout=300)
    return {i: res.get(i, {}) for i in hist}


def grow_histories(chk, cases, rng, nhist, length, extra_op=None):
    """build histories round by round: after each round the real implementation's observed state is
    the shadow state used to pick the next operation (so that paths and indices are meaningful)"""
    hist = {i: [[] for _ in range(nhist)] for i in range(len(cases))}
    shadow = {i: [{"a": default(cases[i][2]), "b": default(cases[i][2])} for _ in range(nhist)] for i in range(len(cases))}
    results = None
    for step in range(length):
        for i in hist:
            t = cases[i][2]
            for h in range(nhist):
                root = rng.choice("ab") if extra_op else "a"
                op = None
                if extra_op and rng.random() < 0.25:
                    op = extra_op(rng, t, shadow[i][h])
                if op is None:
                    op = gen_op(rng, t, shadow[i][h][root], root)
                hist[i][h].append(op)
        results = execute(cases, hist)
        for i in hist:
            r = results[i]
            if "histories" not in r:
                continue
            for h in range(nhist):
                hr = r["histories"][h]
                if "steps" in hr and len(hr["steps"]) > step and "a" in hr["steps"][step] and "b" in hr["steps"][step]:
                    shadow[i][h] = {"a": hr["steps"][step]["a"], "b": hr["steps"][step]["b"]}
    return hist, results


def compare_in_coq(chk, cases, hist, results, label):
    entries = []
    for i in hist:
        r = results.get(i, {})
        if "histories" not in r:
            if "worker_error" in r:
                chk.violation("worker-%d" % i, {"kind": "implementation crashed or hung during an API history", "schema_text": S.to_prophy(cases[i][2]),
                                               "schema": cases[i][2], "detail": r["worker_error"], "histories": hist[i]})
            else:
                chk.coverage["not_compiled"] = chk.coverage.get("not_compiled", 0) + 1
            continue
        for h, (ops, hr) in enumerate(zip(hist[i], r["histories"])):
            if "steps" not in hr:
                chk.violation("harness-%d-%d" % (i, h), {"kind": "history runner failed", "detail": hr, "schema_text": S.to_prophy(cases[i][2])},
                              "no-failing-input-found")
                continue
            entries.append((i, h, ops, hr))

    def ex(en, names):
        i, h, ops, hr = en
        tt = S.to_coq(cases[i][2], names)
        obs = []
        for st in hr["steps"]:
            if "get_exc" in st:
                obs.append("(8, VNone, VNone)")
            else:
                obs.append("(%d, %s, %s)" % (EXC_CODE.get(st.get("exc"), 9), S.value_coq(S.value_from_json(st["a"])),
                                             S.value_coq(S.value_from_json(st["b"]))))
        return "(%d, %d, api_history_case %s [%s] [%s])" % (i, h, tt, "; ".join(op_coq(o) for o in ops), "; ".join(obs))

    work = common.scratch(label)
    files = codec.write_case_files(work, label, entries, ex, chunk=60)
    bad = codec.eval_case_files(files)
    index = {(i, h): (ops, hr) for i, h, ops, hr in entries}
    out = []
    for i, h, r in bad:
        ops, hr = index[(i, h)]
        out.append((i, h, r, ops, hr))
    return entries, out
