#!/venv/bin/python
"""C17 — front-ends agree: isar (+patch) and prophy text give the same wire layout.

  (1) schemas expressible in both syntaxes are printed as prophy text (schema.to_prophy) and as isar
      xml + patch (frontends.to_isar, styles direct / inline / patch / noisy / mixed, some structs as
      <message>, bytes through `type` rules or type="byte", shuffled document order); the two models
      must have the same structs and unions: members, byte_size, alignment, kind, paddings;
  (2) the Python codecs generated from either route encode the same values to the same bytes in both
      byte orders;
  (3) a negative enumerator value v in isar behaves as v mod 2^32 (text schema spells the unsigned value);
  (4) patch semantics of docs/other_schemas.rst: for every action (type, insert, remove, dynamic, greedy,
      static, limited, struct, rename node, rename field) an applicable use gives the documented
      result (compared with the equivalent text schema), inapplicable uses (member not found, wrong
      parameter count, non-numeric index or size, missing sizer, wrong node kind, ...) make prophyc
      fail, rules naming an absent node are ignored (outputs identical to a run without them); the same
      inapplicable / absent rules are also injected at random places into the patch files of (1);
  (5) every isar <dimension> form (fixed, 2-d, variable with default / named / typed counter, variable with a size, '@counter',
      THIS_IS_VARIABLE_SIZE_ARRAY) with and without optional="true" (implicit u32 has_<name> flag), in a <struct> and in a
      <message> (which drops the size of ALL its variable arrays), as last and as inner member, against the text schema that
      spells the counters / flags out; values with element counts at, under and over the (dropped) size.
"""
import json
import os
import random
import re
import subprocess
import sys

# the text route is compared member-for-member with the isar route, which names builtin types directly;
# the typedef decoration of tools/schema.py would only rename member types here (typedefs are covered by the
# 'rich' definition sets of this check)
os.environ["VERIF_NO_TYPEDEFS"] = "1"

sys.path.insert(0, os.path.dirname(os.path.abspath(__file__)))
sys.path.insert(0, os.path.join(os.path.dirname(os.path.abspath(__file__)), "..", "tools"))
import common  # noqa: E402
import frontends as F  # noqa: E402
import schema as S  # noqa: E402
import C15  # noqa: E402  (generator of definition sets with constants and typedefs)
from checklib import Check  # noqa: E402

TOOLS = os.path.join(common.VERIF, "tools")

_ENC_SCRIPT = r'''
import sys, json, importlib.util, os
sys.path.insert(0, %r)
import pyworker, schema as S
job = json.load(sys.stdin)
t = S.from_json(job["schema"]) if job.get("schema") else None
values = [S.value_from_json(v) for v in job.get("values", [])]
out = {}
for tag, path in job["mods"]:
    r = {}
    out[tag] = r
    try:
        spec = importlib.util.spec_from_file_location("gen_" + tag, path)
        mod = importlib.util.module_from_spec(spec)
        spec.loader.exec_module(mod)
    except BaseException as e:
        r["import_error"] = "%%s: %%s" %% (type(e).__name__, str(e)[-300:])
        continue
    r["consts"] = {k: v for k, v in vars(mod).items() if isinstance(v, int) and not isinstance(v, bool) and not k.startswith("_")}
    r["enc"] = []
    r["defaults"] = {}
    for k, v in sorted(vars(mod).items()):
        if isinstance(v, type) and hasattr(v, "encode") and getattr(v, "__module__", "") == mod.__name__:
            try:
                r["defaults"][k] = [bytearray(v().encode(e)).hex() for e in "<>"]
            except BaseException as e:
                r["defaults"][k] = "EXC:%%s" %% type(e).__name__
    if t is None:
        continue
    try:
        cls = getattr(mod, t[1])
    except AttributeError as e:
        r["import_error"] = "AttributeError: %%s" %% e
        continue
    for v in values:
        try:
            msg = cls()
            pyworker.set_struct(msg, t, v)
            r["enc"].append([bytearray(msg.encode(e)).hex() for e in "<>"])
        except BaseException as e:
            r["enc"].append("EXC:%%s: %%s" %% (type(e).__name__, str(e)[-100:]))
json.dump(out, sys.stdout)
''' % TOOLS


def run_enc(job, cwd):
    try:
        p = subprocess.run([common.PY, "-c", _ENC_SCRIPT], cwd=cwd, env=common.impl_env(), input=json.dumps(job),
                           capture_output=True, text=True, timeout=120)
        return json.loads(p.stdout)
    except subprocess.TimeoutExpired:
        return {"error": "Timeout"}
    except ValueError:
        return {"error": "NoOutput: " + p.stderr[-300:]}


def enums_of(model):
    out = {}
    for nodes in model.get("files", {}).values():
        for n in nodes:
            if n["class"] == "Enum":
                for mn, mv in n["members"]:
                    try:
                        out[mn] = int(str(mv), 0)
                    except ValueError:
                        pass            # symbolic value: compared through the generated Python modules
    return out


def normalised_structs(model):
    """structs_of with symbolic array sizes and union discriminators replaced by their numbers (the text
    front-end evaluates them while parsing, isar passes the text through): wire layout is what counts"""
    env = {}

    def ev(x):
        try:
            return int(str(x), 0)
        except ValueError:
            try:
                return int(eval(str(x), {"__builtins__": {}}, dict(env)))   # text written by this harness
            except Exception:  # noqa
                return None
    for nodes in model.get("files", {}).values():
        for n in nodes:
            if n["class"] == "Constant":
                env[n["name"]] = ev(n["value"])
            elif n["class"] == "Enum":
                for mn, mv in n["members"]:
                    env[mn] = ev(mv)
    out = json.loads(json.dumps(F.structs_of(model)))
    for n in out.values():
        for m in n["members"]:
            if n["class"] == "Struct":
                if m[6] is not None:
                    m[3] = str(m[6])
            else:
                v = ev(m[2])
                m[2] = str(v) if v is not None else m[2]
    return out


# ------------------------------------------------------------------------------------------
# the three kinds of runs
# ------------------------------------------------------------------------------------------

def run_equiv(case, root):
    """text route vs isar(+patch) route -> [(kind, signature, detail)]"""
    os.makedirs(os.path.join(root, "gen_t"), exist_ok=True)
    os.makedirs(os.path.join(root, "gen_x"), exist_ok=True)
    F.write_text(os.path.join(root, "m.prophy"), case["schema_text"])
    F.write_text(os.path.join(root, "m.xml"), case["xml"])
    args = ["--isar"]
    if case.get("patch"):
        F.write_text(os.path.join(root, "m.patch"), case["patch"])
        args += ["--patch", "m.patch"]
    mt = F.model_of(["m.prophy"], ["--python_out", "gen_t"], cwd=root, timeout=60)
    mx = F.model_of(["m.xml"], args + ["--python_out", "gen_x"], cwd=root, timeout=60)
    if "error" in mt:
        return [("harness: the text schema does not compile", mt["error"], "%s: %s" % (mt["error"], mt.get("message", "")[:300]))]
    fails = []
    if "error" in mx:
        msg = "%s: %s" % (mx["error"], mx.get("message", "")[:300])
        return [("isar route fails where the text route compiles", re.sub(r"\b[A-Z]\w*\d+\w*|'[^']*'", "N", msg)[:100], msg)]
    if case.get("definitions"):
        mis = [f for f in C15.judge_run(case["definitions"], {"nodes": mx["files"].get("m", []), "import": None})
               if f[0] == C15.MISORDER]
        if mis:
            return [("skipped", "isar output misordered (C15): " + mis[0][1], mis[0][2])]
    diffs = F.compare_layout(normalised_structs(mt), normalised_structs(mx))
    if diffs:
        d0 = diffs[0]
        what = d0[2] if d0[0] == "layout" and d0[2] in ("byte_size", "alignment", "kind") else "member"
        fails.append(("models differ between the text and the isar route", "%s: %s" % (d0[0], what),
                      "[kind, node, what, text route, isar route]: %s" % json.dumps(diffs[:6])))
    et, ex = enums_of(mt), enums_of(mx)
    if any(et[k] != ex[k] for k in set(et) & set(ex)):
        bad = {k: (et.get(k), ex.get(k)) for k in set(et) & set(ex) if et.get(k) != ex.get(k)}
        fails.append(("enumerator values differ between the text and the isar route",
                      "negative value" if case.get("mode") == "negenum" else "value", json.dumps(bad)[:300]))
    enc = run_enc({"schema": case.get("schema"), "values": case.get("values", []),
                   "mods": [["t", os.path.join(root, "gen_t", "m.py")], ["x", os.path.join(root, "gen_x", "m.py")]]}, root)
    if "error" in enc or "import_error" in enc.get("t", {}):
        fails.append(("harness: the module of the text route does not import", "enc",
                      str(enc.get("error") or enc["t"]["import_error"])[:300]))
    elif "import_error" in enc["x"]:
        err = enc["x"]["import_error"]
        fails.append(("Python module of the isar route fails to import", re.sub(r"'[^']*'", "'..'", err)[:80], err))
    else:
        for vi, (a, b) in enumerate(zip(enc["t"]["enc"], enc["x"]["enc"])):
            if a != b:
                fails.append(("encodings differ between the text and the isar route",
                              "exception" if "EXC" in str(a) + str(b) else "bytes",
                              "value #%d %s: text route %s, isar route %s" % (vi, json.dumps(case["values"][vi])[:200], a, b)))
                break
        dt, dx = enc["t"]["defaults"], enc["x"]["defaults"]
        bad = {k: (dt.get(k), dx.get(k)) for k in set(dt) | set(dx) if dt.get(k) != dx.get(k)}
        if bad:
            fails.append(("encodings differ between the text and the isar route", "default-constructed objects",
                          "class: (text route, isar route) [little, big]: %s" % json.dumps(bad)[:400]))
        ct, cx = enc["t"]["consts"], enc["x"]["consts"]
        bad = {k: (ct.get(k), cx.get(k)) for k in set(ct) | set(cx) if ct.get(k) != cx.get(k)}
        if bad:
            fails.append(("constants of the Python modules differ between the text and the isar route", "consts",
                          json.dumps(bad)[:300]))
    return fails


def compile_isar(xml, patch, root, sub):
    d = os.path.join(root, sub)
    os.makedirs(os.path.join(d, "out"), exist_ok=True)
    F.write_text(os.path.join(d, "m.xml"), xml)
    args = ["--isar"]
    if patch is not None:
        F.write_text(os.path.join(d, "m.patch"), patch)
        args += ["--patch", "m.patch"]
    r = F.compile_files(["m.xml"], args + ["--python_out", "out", "--cpp_out", "out", "--cpp_full_out", "out"], cwd=d, timeout=60)
    outs = {}
    for fn in sorted(os.listdir(os.path.join(d, "out"))):
        with open(os.path.join(d, "out", fn), "rb") as f:
            outs[fn] = f.read().decode("latin-1")
    return r, outs


def run_must_fail(case, root):
    r, outs = compile_isar(case["xml"], case["patch"], root, "x")
    if r["timeout"]:
        return [("prophyc hangs on a patch rule that cannot be applied", case["signature"], "no result within 60 s")]
    if r["rc"] == 0:
        py = outs.get("m.py", "")
        m = re.search(r"class %s\(.*?(?=\n\n\n|\Z)" % re.escape(case.get("node", "X")), py, re.S)
        return [("patch rule that cannot be applied does not fail the compilation", case["signature"],
                 "rule `%s`: exit code 0%s; generated Python: %s" % (
                     case["rule"], ", stderr: " + r["stderr"].strip()[-200:] if r["stderr"].strip() else "",
                     (m.group(0) if m else py[-300:]).replace("\n", " ")[:400]))]
    return []


def run_absent(case, root):
    """rules naming a node that is not in the schema: outputs must equal those without the rules"""
    r1, o1 = compile_isar(case["xml"], case["patch"], root, "with")
    r0, o0 = compile_isar(case["xml"], case.get("patch_without"), root, "without")
    if r0["rc"] != 0:
        return [("harness: the schema does not compile without the extra rules", "absent", r0["stderr"].strip()[-300:])]
    if r1["rc"] != 0:
        return [("patch rule naming an absent node is not ignored", "%s: compilation fails" % case["signature"],
                 "rule `%s`: exit code %s: %s" % (case["rule"], r1["rc"], r1["stderr"].strip()[-300:]))]
    if o1 != o0:
        diff = [fn for fn in sorted(set(o0) | set(o1)) if o0.get(fn) != o1.get(fn)]
        return [("patch rule naming an absent node is not ignored", "%s: outputs change" % case["signature"],
                 "rule `%s`: generated files that differ: %s" % (case["rule"], diff))]
    return []


RUNNERS = {"equiv": run_equiv, "negenum": run_equiv, "rich": run_equiv, "dims": run_equiv, "patch-applicable": run_equiv,
           "patch-inapplicable": run_must_fail, "patch-absent": run_absent}


# ------------------------------------------------------------------------------------------
# (5) every isar <dimension> form x optional attribute x <struct>/<message> x member position
# ------------------------------------------------------------------------------------------
# What an isar member means, member by member (prophyc/parsers/isar.py make_struct_members, its tests, and the
# text syntax of docs/schema.rst); `x` is the member name, T its type:
#   no <dimension>                                        T x;        optional="true": T* x;
#   <dimension size="N"/>                                 T x[N];
#   <dimension size="N" size2="M"/>                       T x[N*M];
#   <dimension isVariableSize="true"/>                    u32 x_len; T x<@x_len>;
#        + variableSizeFieldName="c" variableSizeFieldType="C"     C c; T x<@c>;
#   <dimension isVariableSize="true" size="N"/>           in a <struct>: counter + array limited to N  (text: T x<N>, whose
#                                                         counter is u32 num_of_x, so the xml names it that way);
#                                                         in a <message>: the size is dropped for EVERY member: plain dynamic
#   <dimension ... variableSizeFieldName="@c"/>           T x<@c>;    (c is a member of its own, defined before)
#   <dimension size="THIS_IS_VARIABLE_SIZE_ARRAY"/>       T x<@numOfX>;   (numOfX is a member of its own)
#   optional="true" together with ANY <dimension>         u32 has_x; in front of what the dimension form gives
#   optional="false"                                      as without the attribute
# The generator below writes the xml itself (frontends.to_isar never combines optional with a dimension and restores limits
# inside messages through patch rules) together with the schema tuple of the meaning above; the text route is
# schema.to_prophy of that tuple.

DIM_FORMS = ("plain", "fixed", "fixed2", "var", "var_named", "varsize", "varsize2", "ext", "native")


def _dim_pool():
    """element types: alignments 1, 2, 4, 8, enum, fixed structs, union, bytes, a dynamic struct"""
    en = S.mk_enum("DEn", [("DEn_A", 1), ("DEn_B", 0x80000000)])
    f4 = S.mk_struct("DF", [("a", "plain", S.scalar("u32")), ("b", "plain", S.scalar("u8"))])
    g2 = S.mk_struct("DG", [("a", "plain", S.scalar("u8")), ("b", "plain", S.scalar("u16")), ("c", "plain", S.scalar("u8"))])
    un = S.mk_union("DU", [(0, "a", S.scalar("u8")), (1, "b", S.scalar("u64"))])
    dy = S.mk_struct("DD", [("k", "plain", S.scalar("u8")), ("x", "dyn", S.scalar("u16"))])
    fixed = [S.scalar(n) for n in ("u8", "u16", "u32", "u64", "i8", "i16", "r32", "r64")] + [en, f4, g2, un]
    return {"fixed": fixed, "bytes": S.BYTE, "dynamic": dy}


def _dim_struct(name, tag, members):
    """members: dicts {name, type, form, optional: None|'true'|'false', size, size2, sizer_name, sizer_type, size_text}
    -> (xml element text, schema struct tuple, {array member index: size attribute dropped by <message>})"""
    fields, index, hints, body = [], {}, {}, ""

    def add(n, k, t):
        index[n] = len(fields)
        fields.append((n, k, t))

    for m in members:
        fn, ft, form, opt = m["name"], m["type"], m["form"], m.get("optional")
        flag = opt == "true"
        extra = [("optional", opt)] if opt is not None else []
        tn = "byte" if ft[0] == "byte" else ft[1]
        size = m.get("size_text") or m.get("size")

        def member(dim):
            a = F._attrs([("name", fn), ("type", tn)] + extra)
            if dim is None:
                return "        <member%s/>\n" % a
            return "        <member%s>\n            <dimension%s/>\n        </member>\n" % (a, F._attrs(dim))
        if form == "plain":
            add(fn, S.OPT if flag else S.PLAIN, ft)
            body += member(None)
            continue
        if flag:
            add("has_" + fn, S.PLAIN, S.scalar("u32"))
        if form == "fixed":
            add(fn, ("fixed", m["size"]), ft)
            body += member([("size", size)])
        elif form == "fixed2":
            add(fn, ("fixed", m["size"] * m["size2"]), ft)
            body += member([("size", size), ("size2", m["size2"])])
        elif form in ("var", "var_named", "varsize", "varsize2"):
            dim = [("isVariableSize", "true")]
            cap = m.get("size")
            if form in ("varsize", "varsize2"):
                dim.append(("size", size))
            if form == "varsize2":
                # size and size2 multiply for a variable-size array as they do for a fixed one: T x<N*M>
                dim.append(("size2", m["size2"]))
                cap = m["size"] * m["size2"]
            cname, ctype = m.get("sizer_name"), m.get("sizer_type")
            if cname:
                dim.append(("variableSizeFieldName", cname))
            if ctype:
                dim.append(("variableSizeFieldType", ctype))
            add(cname or fn + "_len", S.PLAIN, S.scalar(ctype or "u32"))
            s = len(fields) - 1
            if form in ("varsize", "varsize2") and tag == "struct":
                add(fn, ("limited", cap, s), ft)
            else:
                add(fn, ("bound", s), ft)
                if form in ("varsize", "varsize2"):
                    hints[len(fields) - 1] = cap
            body += member(dim)
        elif form == "ext":
            add(fn, ("bound", index[m["sizer_name"]]), ft)
            body += member([("isVariableSize", "true"), ("variableSizeFieldName", "@" + m["sizer_name"])])
        elif form == "native":
            add(fn, ("bound", index["numOf" + fn[0].upper() + fn[1:]]), ft)
            body += member([("size", "THIS_IS_VARIABLE_SIZE_ARRAY")])
        else:
            raise ValueError(form)
    return ("    <%s%s>\n%s    </%s>\n" % (tag, F._attrs([("name", name)]), body, tag), ("struct", name, tuple(fields)), hints)


def _dim_value(rng, t, hints, policy):
    """a value of struct t whose element counts are chosen relative to the limit (or to the size attribute a <message>
    drops): 'at' it, one 'under', 'over' it (where no limit holds), or 'mixed'"""
    fields = t[2]
    counts = {}
    for i, (fname, k, ft) in enumerate(fields):
        if k[0] in ("bound", "limited"):
            lim = k[1] if k[0] == "limited" else None
            ref = lim if lim is not None else hints.get(i, 3)
            c = {"at": ref, "under": max(0, ref - 1), "over": ref + rng.choice([1, 2, 5]),
                 "mixed": rng.choice([0, 1, 2, ref, ref + 1, 7])}[policy]
            if lim is not None:
                c = min(c, lim)
            c = min(c, S.srange(fields[k[-1]][2][1])[1])
            counts[k[-1]] = min(counts.get(k[-1], c), c)
    vals = []
    for i, (fname, k, ft) in enumerate(fields):
        if i in counts:
            vals.append(counts[i])
        elif k[0] == "plain":
            vals.append(rng.choice([0, 1]) if fname.startswith("has_") else S.gen_value(rng, ft, 1, "mixed"))
        elif k[0] == "opt":
            vals.append(None if rng.random() < 0.4 else ("some", S.gen_value(rng, ft, 1, "mixed")))
        else:
            n = k[1] if k[0] == "fixed" else counts[k[-1]]
            vals.append(("list", [S.gen_value(rng, ft, 1, "mixed") for _ in range(n)]))
    return ("struct", vals)


def _dim_case(rng, name, tag, members, label, cls, wrap=False, consts=()):
    chunk, t, hints = _dim_struct(name, tag, members)
    inner = t
    if wrap:
        t = S.mk_struct(name + "W", [("p", "plain", S.scalar("u8")), ("n", "plain", inner), ("q", "plain", S.scalar("u16"))])
    chunks = []
    for d in S.decls(t):
        if d[1] == name:
            chunks.append(chunk)
        elif d[0] == "enum":
            chunks.append(F._enum_isar(d, "direct")[0])
        elif d[0] == "union":
            chunks.append(F._union_isar(d, "direct", False, None)[0])
        else:
            chunks.append(F._struct_isar(d, "direct", "direct", False, False, None)[0])
    rng.shuffle(chunks)
    cx = "".join("    <constant%s/>\n" % F._attrs([("name", n), ("value", v)]) for n, v in consts)
    ct = "".join("const %s = %d;\n" % (n, v) for n, v in consts)
    values = [S.gen_value(rng, t, 0, "min")]
    for policy in ("at", "under", "over", "mixed"):
        v = _dim_value(rng, inner, hints, policy)
        values.append(("struct", [rng.randint(0, 255), v, rng.randint(0, 65535)]) if wrap else v)
    return {"mode": "dims", "style": "isar dimension forms", "schema": t, "values": values, "schema_text": ct + S.to_prophy(t),
            "xml": '<?xml version="1.0" encoding="utf-8"?>\n<x>\n%s%s</x>\n' % (cx, "".join(chunks)), "patch": None,
            "label": label, "cls": cls}


def _dim_member(rng, pool, name, form, optional, tag, sizers):
    """one member of the given form with a suitable element type; appends the counter members it needs to `pre`"""
    pre = []
    m = {"name": name, "form": form, "optional": optional}
    if form == "plain":
        m["type"] = rng.choice(pool["fixed"])
    elif form in ("fixed", "fixed2") or (form in ("varsize", "varsize2") and tag == "struct"):
        m["type"] = rng.choice(pool["fixed"] + [pool["bytes"]])      # elements of fixed / limited arrays are of fixed size
    else:
        m["type"] = rng.choice(pool["fixed"] + [pool["bytes"], pool["dynamic"], S.scalar("u8"), S.scalar("u16")])
    if form in ("fixed", "fixed2", "varsize", "varsize2"):
        m["size"] = rng.choice([1, 2, 3, 4, 5])
    if form in ("fixed2", "varsize2"):
        m["size2"] = rng.choice([1, 2, 3])
    if form == "var_named":
        m["sizer_name"] = rng.choice(["cnt_" + name, name + "Count", "num_of_" + name])
        m["sizer_type"] = rng.choice(S.INTS)
    elif form in ("varsize", "varsize2"):
        if tag == "struct":
            m["sizer_name"] = "num_of_" + name                      # the only counter the text form x<N> can have
        elif rng.random() < 0.5:
            m["sizer_name"] = rng.choice(["cnt_" + name, "num_of_" + name])
            m["sizer_type"] = rng.choice([None, "u8", "u16", "u32"])
    elif form == "ext":
        if sizers and rng.random() < 0.4:
            m["sizer_name"] = rng.choice(sizers)
        else:
            m["sizer_name"] = "n_" + name
            pre.append({"name": m["sizer_name"], "form": "plain", "type": S.scalar(rng.choice(S.INTS))})
            sizers.append(m["sizer_name"])
    elif form == "native":
        pre.append({"name": "numOf" + name[0].upper() + name[1:], "form": "plain", "type": S.scalar(rng.choice(S.INTS))})
    return pre, m


def dims_cases(seed, n_random):
    rng = random.Random(seed)
    pool = _dim_pool()
    out = []
    # the matrix: every form x optional x struct/message x (last member / followed by another member)
    for form in DIM_FORMS:
        for optional in (None, "true"):
            for tag in ("struct", "message"):
                for pos in ("last", "middle"):
                    pre, m = _dim_member(rng, pool, "x", form, optional, tag, [])
                    members = [{"name": "h", "form": "plain", "type": S.scalar("u8")}] + pre + [m]
                    if pos == "middle":
                        members.append({"name": "t", "form": "plain", "type": S.scalar(rng.choice(["u16", "u32", "u64"]))})
                    out.append(_dim_case(rng, "M%d" % len(out), tag, members,
                                         "dims:%s:%s:optional=%s:%s" % (tag, form, optional, pos), ("dims", tag, form, optional, pos)))
    # several sized variable arrays in one element: first, middle and last member
    for tag in ("struct", "message"):
        for optional in (None, "true"):
            members = []
            for fn, et in (("a", "u16"), ("b", "u8"), ("c", "u32")):
                members.append({"name": fn, "form": "varsize", "type": S.scalar(et), "size": rng.choice([2, 3, 4]), "optional": optional,
                                "sizer_name": "num_of_" + fn if tag == "struct" else None})
                if fn == "a":
                    members.append({"name": "k", "form": "plain", "type": S.scalar("u16")})
            out.append(_dim_case(rng, "M%d" % len(out), tag, members, "dims:%s:three sized variable arrays:optional=%s" % (tag, optional),
                                 ("dims", tag, "varsize x3", optional, "all")))
    # random combinations
    for i in range(n_random):
        tag = rng.choice(["struct", "message"])
        members, sizers, consts = [], [], {}
        forms = []
        for j in range(rng.randint(2, 5)):
            form = rng.choice(DIM_FORMS)
            optional = rng.choice([None, None, None, "true", "true", "true", "false"])
            pre, m = _dim_member(rng, pool, "f%d" % j, form, optional, tag, sizers)
            if "size" in m and rng.random() < 0.3:
                m["size_text"] = "DK%d" % m["size"]                  # the size spelled by a constant
                consts[m["size_text"]] = m["size"]
            if rng.random() < 0.3:
                members.append({"name": "s%d" % j, "form": "plain", "type": S.scalar(rng.choice(S.INTS))})
                if rng.random() < 0.5:
                    sizers.append("s%d" % j)
            members += pre + [m]
            forms.append(form + ("?" if optional == "true" else ""))
        if rng.random() < 0.4:
            members.append({"name": "z", "form": "plain", "type": S.scalar(rng.choice(["u8", "u16", "u64"]))})
        out.append(_dim_case(rng, "R%d" % i, tag, members, "dims:rnd%d:%s:%s" % (i, tag, "+".join(forms)),
                             ("dims-rnd", tag, tuple(sorted(set(forms)))), wrap=rng.random() < 0.25, consts=sorted(consts.items())))
    return out


# ------------------------------------------------------------------------------------------
# (4) the patch matrix
# ------------------------------------------------------------------------------------------

BASE_XML = """<?xml version="1.0" encoding="utf-8"?>
<x>
    <enum name="E">
        <enum-member name="E_A" value="1"/>
        <enum-member name="E_B" value="2"/>
    </enum>
    <struct name="D">
        <member name="d" type="u8">
            <dimension isVariableSize="true"/>
        </member>
    </struct>
    <union name="U">
        <member type="u8" name="a" discriminatorValue="1"/>
        <member type="u32" name="b" discriminatorValue="2"/>
    </union>
    <struct name="L">
        <member name="num_of_f" type="u32"/>
        <member name="f" type="u16">
            <dimension size="4"/>
        </member>
    </struct>
    <struct name="X">
        <member name="n" type="u32"/>
        <member name="a" type="u16"/>
        <member name="f" type="u8">
            <dimension size="4"/>
        </member>
        <member name="b" type="u8"/>
    </struct>
    <struct name="W">
        <member name="n" type="u8"/>
        <member name="d" type="D"/>
        <member name="t" type="u8"/>
    </struct>
</x>
"""
_E = "enum E\n{\n    E_A = 1,\n    E_B = 2\n};\n"
_D = "struct D\n{\n    u32 d_len;\n    u8 d<@d_len>;\n};\n"
_U = "union U\n{\n    1: u8 a;\n    2: u32 b;\n};\n"
_L = "struct L\n{\n    u32 num_of_f;\n    u16 f[4];\n};\n"
_X = "struct X\n{\n    u32 n;\n    u16 a;\n    u8 f[4];\n    u8 b;\n};\n"
_W = "struct W\n{\n    u8 n;\n    D d;\n    u8 t;\n};\n"


def _text(**repl):
    parts = {"E": _E, "D": _D, "U": _U, "L": _L, "X": _X, "W": _W}
    parts.update(repl)
    return "\n".join(parts[k] for k in ("E", "D", "U", "L", "X", "W"))


def _xs(body, name="X"):
    return "struct %s\n{\n%s};\n" % (name, "".join("    %s;\n" % ln for ln in body))


def patch_matrix():
    """[(mode, action, label, rule text, expected text or None, node)]"""
    ap = [  # applicable uses with the documented result
        ("type", "change the type of a field", "X type a u64", _text(X=_xs(["u32 n", "u64 a", "u8 f[4]", "u8 b"]))),
        ("type", "change the type to a struct", "X type a L", _text(X=_xs(["u32 n", "L a", "u8 f[4]", "u8 b"]))),
        ("insert", "insert in the middle", "X insert 1 k i16", _text(X=_xs(["u32 n", "i16 k", "u16 a", "u8 f[4]", "u8 b"]))),
        ("insert", "insert at index 0", "X insert 0 k u64", _text(X=_xs(["u64 k", "u32 n", "u16 a", "u8 f[4]", "u8 b"]))),
        ("insert", "insert at index 999 (end)", "X insert 999 k u64", _text(X=_xs(["u32 n", "u16 a", "u8 f[4]", "u8 b", "u64 k"]))),
        ("remove", "remove a field", "X remove a", _text(X=_xs(["u32 n", "u8 f[4]", "u8 b"]))),
        ("dynamic", "make a field a dynamic array", "X dynamic b n", _text(X=_xs(["u32 n", "u16 a", "u8 f[4]", "u8 b<@n>"]))),
        ("dynamic", "fixed array becomes dynamic", "X dynamic f n\nX remove b", _text(X=_xs(["u32 n", "u16 a", "u8 f<@n>"]))),
        ("greedy", "make the last field greedy", "X greedy b", _text(X=_xs(["u32 n", "u16 a", "u8 f[4]", "u8 b<...>"]))),
        ("static", "make a field a fixed array", "X static b 3", _text(X=_xs(["u32 n", "u16 a", "u8 f[4]", "u8 b[3]"]))),
        ("static", "change the size of a fixed array", "X static f 2", _text(X=_xs(["u32 n", "u16 a", "u8 f[2]", "u8 b"]))),
        ("limited", "make a fixed array limited", "L limited f num_of_f", _text(L="struct L\n{\n    u16 f<4>;\n};\n")),
        ("struct", "turn a union into a struct", "U struct", _text(U="struct U\n{\n    u8 a;\n    u32 b;\n};\n")),
        ("rename", "rename a node", "L rename L2", _text(L=_L.replace("struct L", "struct L2"))),
        ("rename", "rename a struct field", "X rename a z", _text(X=_xs(["u32 n", "u16 z", "u8 f[4]", "u8 b"]))),
        ("rename", "rename a union arm", "U rename a z", _text(U=_U.replace("u8 a", "u8 z"))),
        ("rename", "rules for the original name still apply after a rename, rules for the new name do not",
         "L rename L2\nL type f u8\nL2 type f u64", _text(L="struct L2\n{\n    u32 num_of_f;\n    u8 f[4];\n};\n")),
        ("several", "insert + dynamic + rename", "X insert 2 cnt u8\nX dynamic b cnt\nX rename b data",
         _text(X=_xs(["u32 n", "u16 a", "u8 cnt", "u8 f[4]", "u8 data<@cnt>"]))),
    ]
    inap = [  # uses that cannot be applied: compilation must fail
        ("type", "member not found", "X type nosuch u8", "X"),
        ("type", "wrong parameter count (1)", "X type a", "X"),
        ("type", "wrong parameter count (3)", "X type a u8 u8", "X"),
        ("type", "node is not a struct", "E type E_A u8", "E"),
        ("insert", "index is not a number", "X insert first k u8", "X"),
        ("insert", "wrong parameter count (2)", "X insert 1 k", "X"),
        ("insert", "node is not a struct", "U insert 0 k u8", "U"),
        ("remove", "member not found", "X remove nosuch", "X"),
        ("remove", "wrong parameter count (2)", "X remove a b", "X"),
        ("remove", "node is not a struct", "U remove a", "U"),
        ("dynamic", "member not found", "X dynamic nosuch n", "X"),
        ("dynamic", "size field not found", "X dynamic b nosuch", "X"),
        ("dynamic", "size field comes after the array", "X dynamic a b", "X"),
        ("dynamic", "wrong parameter count (1)", "X dynamic b", "X"),
        ("greedy", "member not found", "X greedy nosuch", "X"),
        ("greedy", "wrong parameter count (2)", "X greedy b n", "X"),
        ("greedy", "field is not the last one", "X greedy a", "X"),
        ("static", "member not found", "X static nosuch 3", "X"),
        ("static", "size is neither a number nor a constant", "X static b three", "X"),
        ("static", "wrong parameter count (1)", "X static b", "X"),
        ("static", "element type is not of fixed size", "W static d 2", "W"),
        ("limited", "member not found", "L limited nosuch num_of_f", "L"),
        ("limited", "size field not found", "L limited f nosuch", "L"),
        ("limited", "field is not a fixed array to begin with", "X limited b n", "X"),
        ("limited", "wrong parameter count (1)", "L limited f", "L"),
        ("struct", "node is not a union", "X struct", "X"),
        ("struct", "takes no parameters", "U struct now", "U"),
        ("rename", "member not found", "X rename nosuch z", "X"),
        ("rename", "wrong parameter count (0)", "X rename", "X"),
        ("rename", "wrong parameter count (3)", "X rename a z y", "X"),
        ("rename", "node has no fields (enum)", "E rename E_A E_Z", "E"),
        ("unknown", "unknown action", "X frobnicate a", "X"),
        ("unknown", "rule without an action", "X", "X"),
    ]
    absent = ["type a u8", "insert 0 k u8", "remove a", "dynamic b n", "greedy b", "static b 3", "limited f n", "struct",
              "rename Other", "rename a z", "type nosuch u8", "frobnicate"]
    out = []
    for action, label, rule, text in ap:
        out.append({"mode": "patch-applicable", "style": "patch matrix", "action": action, "label": label, "rule": rule,
                    "schema_text": text, "xml": BASE_XML, "patch": rule + "\n", "signature": "%s: %s" % (action, label)})
    for action, label, rule, node in inap:
        out.append({"mode": "patch-inapplicable", "style": "patch matrix", "action": action, "label": label, "rule": rule,
                    "schema_text": _text(), "xml": BASE_XML, "patch": rule + "\n", "node": node,
                    "signature": "%s: %s" % (action, label)})
    for a in absent:
        rule = "Absent " + a
        out.append({"mode": "patch-absent", "style": "patch matrix", "action": a.split()[0], "label": "absent node", "rule": rule,
                    "schema_text": _text(), "xml": BASE_XML, "patch": rule + "\n\n", "patch_without": None,
                    "signature": "%s" % a.split()[0]})
    out.append({"mode": "patch-absent", "style": "patch matrix", "action": "all", "label": "absent node, among rules that apply",
                "rule": "Absent remove a", "schema_text": _text(), "xml": BASE_XML,
                "patch": "X type a u64\nAbsent remove a\n\nL rename L2\nL2 remove f\n", "patch_without": "X type a u64\nL rename L2\n",
                "signature": "among applicable rules"})
    return out


# ------------------------------------------------------------------------------------------
# (3) negative enumerators
# ------------------------------------------------------------------------------------------

def negenum_cases(rng, n):
    out = []
    pool = [-1, -2, -5, -255, -65536, -2147483647, -2147483648]
    for i in range(n):
        negs = rng.sample(pool, rng.randint(1, 3))
        pos = rng.sample([0, 1, 7, 255, 65536, 0x7FFFFFFF], rng.randint(0, 2))
        vals = negs + pos
        rng.shuffle(vals)
        en = S.mk_enum("NE%d" % i, [("NE%d_%s" % (i, "ABCDEF"[k]), v % (1 << 32)) for k, v in enumerate(vals)])
        members = [("e", "plain", en)]
        for spec, nm in rng.sample([("opt", "o"), (("fixed", 2), "x"), ("dyn", "d"), (("limited", 3), "l")], rng.randint(1, 3)):
            members.append((nm, spec, en))
        if rng.random() < 0.5:
            members.insert(rng.randint(0, len(members)), ("u", "plain", S.mk_union("NU%d" % i, [(1, "a", en), (2, "b", S.scalar("u64"))])))
        t = S.mk_struct("NS%d" % i, members)
        xml, patch = F.to_isar(t, style="direct")
        hexform = i % 3 == 2
        for (mn, uv), v in zip(en[2], vals):
            if v < 0:
                neg = ("-0x%X" % -v) if hexform else str(v)
                xml = xml.replace('name="%s" value="%d"' % (mn, uv), 'name="%s" value="%s"' % (mn, neg))
        out.append({"mode": "negenum", "style": "negative enumerators", "schema": t, "values": S.gen_values(rng, t, 3),
                    "schema_text": S.to_prophy(t), "xml": xml, "patch": patch, "label": "negenum:%d:%s" % (i, vals)})
    return out


# ------------------------------------------------------------------------------------------

def load_corpus():
    d = os.path.join(common.VERIF, "corpus", "C17")
    out = []
    if os.path.isdir(d):
        for f in sorted(os.listdir(d)):
            if f.endswith(".json"):
                with open(os.path.join(d, f)) as fh:
                    j = json.load(fh)
                j["label"] = "corpus:" + f
                if j.get("schema"):
                    j["schema"] = S.from_json(j["schema"])
                out.append(j)
    return out


def equiv_cases(seed, n_schemas, styles_per_schema):
    rng = random.Random(seed)
    ex = list(S.exhaustive_small(2))
    picked = [("ex:" + lb, t) for lb, t in rng.sample(ex, min(n_schemas // 2, len(ex)))]
    rs = S.RandomSchemas(random.Random(seed + 1), prefix="Q")
    nm = S.Namer("V")
    while len(picked) < n_schemas:
        if len(picked) % 5 == 4:
            lb, st = rng.choice(ex)
            lb, t = rng.choice(S.wrappers(lb, st, nm))
            picked.append(("wrap:" + lb, t))
        else:
            picked.append(("rnd%d" % len(picked), rs.message()))
    cases, skipped = [], {}
    for i, (label, t) in enumerate(picked):
        try:
            text = S.to_prophy(t)
        except ValueError as e:
            skipped["text: " + str(e)[:60]] = skipped.get("text: " + str(e)[:60], 0) + 1
            continue
        values = S.gen_values(random.Random(seed * 3 + i), t, 3)
        r = random.Random(seed * 11 + i)
        styles = list(F.STYLES) if styles_per_schema >= len(F.STYLES) else [
            F.STYLES[(i + k * 2) % len(F.STYLES)] for k in range(styles_per_schema)]
        for st in styles:
            names = [d[1] for d in S.decls(t)]
            r.shuffle(names)
            structs = [d[1] for d in S.decls(t) if d[0] == "struct"]
            messages = tuple(n for n in structs if r.random() < 0.25)
            via = r.choice(["patch", "direct"])
            try:
                xml, patch = F.to_isar(t, order=names, style=st, bytes_via=via, messages=messages, rng=random.Random(r.getrandbits(30)))
            except F.NotExpressible as e:
                key = "isar: " + re.sub(r"^\S+ ", "", e.reason)[:60]
                skipped[key] = skipped.get(key, 0) + 1
                continue
            cases.append({"mode": "equiv", "style": st, "schema": t, "values": values, "schema_text": text, "xml": xml,
                          "patch": patch, "label": "%s:%s%s" % (label, st, ":msg" if messages else ""),
                          "cls": (st, bool(patch), bool(messages), via)})
    return cases, skipped


def rich_cases(seed, n):
    """definition sets with constants, constant expressions, typedefs (chains, of composites), enumerators
    given by constants, array sizes and discriminators given by constants / enumerators — things the
    schema tuples cannot say — as isar xml (any document order) and as prophy text (dependency order)"""
    rng = random.Random(seed)
    out = []
    for i in range(n):
        ks, edges = C15.random_shape(rng, rng.randint(3, 9), pool="CCTTTEESSSUU")
        # prophyc misorders constants / enumerators that name another enum's enumerator (C15): not asked here
        edges = {k: f for k, f in edges.items() if not (ks[k[0]] in "CE" and ks[k[1]] == "E")}
        ds = C15.DefSet(ks, edges, rng=random.Random(rng.getrandbits(30)), forms=(0, 1, 2))
        structs = []
        for name, ms in ds.structs:
            new = []
            for fn, tn, dim in ms:
                if dim == "dyn":
                    dim = ("dyn", fn + "_len")                  # isar's implicit counter, spelled out for the text
                elif dim and dim[0] == "limited" and len(dim) == 2:
                    dim = ("limited", dim[1], "num_of_" + fn)   # the text's implicit counter, spelled out for isar
                new.append((fn, tn, dim))
            structs.append((name, new))
        kw = dict(constants=ds.constants, enums=ds.enums, typedefs=ds.typedefs, structs=structs, unions=ds.unions)
        order = list(ds.names)
        rng.shuffle(order)
        out.append({"mode": "rich", "style": "constants and typedefs", "schema_text": F.constants_to_prophy(order=ds.names, **kw),
                    "xml": F.to_isar_constants(order=order, **kw), "patch": None, "definitions": ds.describe(),
                    "label": "rich:%d:%s" % (i, ks), "cls": ("rich", "".join(sorted(set(ks))), len(edges) // 3)})
    return out


def inject_cases(cases, rng, n):
    """inapplicable / absent rules put at random places into patch files that work"""
    out = []
    pool = [c for c in cases if c.get("patch")]
    rng.shuffle(pool)
    forms = [("member not found", "%s type nosuch_member u8"), ("member not found", "%s remove nosuch_member"),
             ("member not found", "%s rename nosuch_member z"), ("size field not found", "%s dynamic %%s nosuch_sizer"),
             ("wrong parameter count", "%s static %%s"), ("size is neither a number nor a constant", "%s static %%s many"),
             ("unknown action", "%s frobnicate")]
    for c in pool[:n]:
        lines = c["patch"].strip().split("\n")
        node = rng.choice(lines).split()[0]
        struct = re.search(r'<(?:struct|message|union) name="%s">(.*?)</(?:struct|message|union)>' % re.escape(node), c["xml"], re.S)
        members = re.findall(r'<member[^>]*\bname="([^"]+)"', struct.group(1)) if struct else []
        label, form = rng.choice(forms)
        rule = form % node
        pos = rng.randint(0, len(lines))
        if "%s" in rule:
            # a later rule on the same member would override the nonsense: put these last, on the final names
            final = node[:-4] if node.endswith("_Pre") else node
            members = [f[0] for d in S.decls(c["schema"]) if d[1] == final and d[0] == "struct" for f in d[2]]
            if not members:
                continue
            rule = rule % rng.choice(members)
            pos = len(lines)
        out.append({"mode": "patch-inapplicable", "style": "injected into a working patch file", "schema_text": c["schema_text"],
                    "xml": c["xml"], "patch": "\n".join(lines[:pos] + [rule] + lines[pos:]) + "\n", "rule": rule, "node": node,
                    "signature": "%s: %s" % (rule.split()[1], label), "label": "inject:" + c["label"]})
        absent = ["NoSuchNode%d %s" % (k, rng.choice(["type a u8", "remove a", "rename b", "struct", "greedy x", "insert 0 a u8"]))
                  for k in range(rng.randint(1, 3))]
        new = list(lines)
        for a in absent:
            new.insert(rng.randint(0, len(new)), a)
        out.append({"mode": "patch-absent", "style": "injected into a working patch file", "schema_text": c["schema_text"],
                    "xml": c["xml"], "patch": "\n".join(new) + "\n", "patch_without": c["patch"], "rule": "; ".join(absent),
                    "signature": "injected", "label": "absent:" + c["label"]})
    return out


def case_dict(c, kind, detail):
    d = {"kind": kind, "style": c.get("style"), "schema_text": c.get("schema_text"), "xml": c["xml"], "patch": c.get("patch"),
         "detail": detail, "mode": c["mode"], "label": c.get("label")}
    for k in ("schema", "values", "rule", "node", "signature", "patch_without", "action", "definitions"):
        if c.get(k) is not None:
            d[k] = c[k]
    return d


def replay(chk, path):
    with open(path) as f:
        rec = json.load(f)
    if rec.get("schema"):
        rec["schema"] = S.from_json(rec["schema"])
    root = common.scratch("c17r")
    chk.count()
    fails = RUNNERS[rec["mode"]](rec, root)
    again = [f for f in fails if f[0] == rec["kind"]]
    if again:
        new = dict(rec)
        new["detail"] = again[0][2]
        chk.violation(os.path.splitext(os.path.basename(path))[0], new, "still fails: %s" % again[0][2][:200])
    else:
        print("replay: the recorded failure (%s) does not occur any more%s" % (
            rec["kind"], "; other failures: %s" % sorted(set(f[0] for f in fails)) if fails else ""))
    return chk.finish(level="proof")


def main():
    chk = Check("C17")
    chk.build()
    if chk.replay_mode:
        return replay(chk, chk.replay_mode)
    rng = random.Random(chk.seed)
    quick = chk.tier == "quick"
    cases, skipped = equiv_cases(chk.seed, 150 if quick else 1500, 2 if quick else len(F.STYLES))
    n_equiv = len(cases)
    neg = negenum_cases(random.Random(chk.seed + 2), 20 if quick else 200)
    rich = rich_cases(chk.seed + 4, 100 if quick else 1000)
    dims = dims_cases(chk.seed + 5, 60 if quick else 600)
    matrix = patch_matrix()
    injected = inject_cases(cases, random.Random(chk.seed + 3), 40 if quick else 400)
    corpus = load_corpus()
    allc = cases + neg + rich + dims + matrix + injected + corpus
    root = common.scratch("c17")

    def job(a):
        i, c = a
        d = os.path.join(root, "c%d" % i)
        try:
            return RUNNERS[c["mode"]](c, d)
        finally:
            F._rmtree(d)

    results = F.pmap(job, list(enumerate(allc)))

    seen = {}
    total = 0
    by_mode = {}
    for c, fails in zip(allc, results):
        chk.count()
        by_mode[c["mode"]] = by_mode.get(c["mode"], 0) + 1
        chk.seen_class(c.get("cls") or (c["mode"], c.get("signature") or c.get("label")), True)
        for kind, sig, detail in fails:
            if kind == "skipped":
                skipped[sig] = skipped.get(sig, 0) + 1
                continue
            total += 1
            key = (kind, sig)
            size = len(c["xml"]) + len(c.get("patch") or "")
            if key not in seen:
                seen[key] = [size, c, detail, 1]
            else:
                seen[key][3] += 1
                if size < seen[key][0]:
                    seen[key][:3] = [size, c, detail]
    distinct = []
    for key in sorted(seen, key=lambda k: (k[0].startswith("harness"), k[0], k[1])):
        size, c, detail, n = seen[key]
        cd = case_dict(c, key[0], detail)
        cd["signature"] = key[1]
        cd["occurrences"] = n
        distinct.append({"kind": key[0], "signature": key[1], "cases": n, "label": c.get("label"), "rule": c.get("rule")})
        name = re.sub(r"[^a-z0-9]+", "-", ("%s %s" % key).lower())[:90].strip("-")
        chk.violation(name, cd, "%s [%s] x%d: %s" % (key[0], key[1], n, detail[:200]))

    chk.coverage["cases_by_mode"] = by_mode
    chk.coverage["equiv_cases_by_style"] = {}
    for c in cases:
        chk.coverage["equiv_cases_by_style"][c["style"]] = chk.coverage["equiv_cases_by_style"].get(c["style"], 0) + 1
    chk.coverage["not_expressible"] = skipped
    chk.coverage["patch_matrix"] = {m: sum(1 for c in matrix if c["mode"] == m) for m in ("patch-applicable", "patch-inapplicable", "patch-absent")}
    chk.coverage["failures_total"] = total
    chk.coverage["distinct_failures"] = distinct
    chk.coverage["rule"] = (
        "%d (schema, style) pairs: schemas = half sampled from the exhaustive-small stream (k=2), the rest random messages and "
        "wrapped exhaustive-small members; styles of frontends.to_isar %s per schema, document order shuffled, a quarter of the "
        "structs as <message>, bytes via patch `type` or type=\"byte\"; text route schema.to_prophy. Compared: struct/union shape "
        "and layout of the two models (compare_layout), enumerator values, 3 values (min/max/mixed) encoded by both generated "
        "Python modules in both byte orders, module constants, default-constructed objects of every class. %d definition sets with "
        "constants, constant expressions, typedef chains and typedefs of composites, enumerators / array sizes / discriminators "
        "given by constants (C15.DefSet through to_isar_constants / constants_to_prophy; symbolic sizes and discriminators "
        "compared by value). %d schemas with negative isar enumerators (decimal and hex, plain / "
        "optional / array / union arm) against the text schema with v mod 2^32. Patch matrix over a fixed 6-node xml: %d applicable "
        "uses with the documented result as text, %d inapplicable uses (must exit non-zero), %d rules naming an absent node (all "
        "three generators' outputs byte-identical to a run without them); %d rules of both sorts injected at random positions "
        "into generated patch files. %d hand-written isar elements for the <dimension> forms (%s) x optional attribute (absent / "
        "true; false in the random ones) x <struct> / <message> x array as last / inner member, three sized variable arrays in "
        "one element, and random combinations of 2-5 such members (sizes by number or constant, shared '@' counters, element types "
        "of every alignment, bytes, composites, a dynamic struct; a quarter nested in an outer struct), against the text of the "
        "stated meaning; 5 values each with element counts at / one under / over the limit (or the size a <message> drops)."
        % (n_equiv, "2 of 5 (rotating)" if quick else "all 5", len(rich), len(neg),
                                         chk.coverage["patch_matrix"]["patch-applicable"], chk.coverage["patch_matrix"]["patch-inapplicable"],
                                         chk.coverage["patch_matrix"]["patch-absent"], len(injected), len(dims), ", ".join(DIM_FORMS)))
    for c in cases:
        if c["style"] == "noisy" and c["patch"] and len(c["xml"]) < 2500:
            chk.sample({"style": c["style"], "schema_text": c["schema_text"], "xml": c["xml"], "patch": c["patch"]})
            break
    print("C17: %s cases, not expressible: %s; %d failures, %d distinct" % (by_mode, skipped, total, len(distinct)))
    for d in distinct:
        print("  - %s [%s]: %d cases; smallest: %s%s" % (d["kind"], d["signature"], d["cases"], d["label"],
                                                          " rule `%s`" % d["rule"] if d.get("rule") else ""))
    chk.assumptions += ["frontends.to_isar is the (trusted) statement of which isar text describes the same types as a prophy text",
                        "equality of the codecs is observed through the Python generator only; the C++ generators read the same model "
                        "(whose member shapes and layouts are compared)"]
    # the tie of the theorems of props/C17.v: the real patch.patch() against model/PcPatch.v on generated member records
    import patchcorr
    patchcorr.run(chk, 600 if chk.tier == 'quick' else 6000)
    patchcorr.run_isar(chk, 600 if chk.tier == 'quick' else 6000)
    return chk.finish(level="proof")


if __name__ == "__main__":
    sys.exit(main())
