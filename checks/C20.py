#!/venv/bin/python
"""C20 — prophyc output is a deterministic function of its inputs.

For valid schemas (one prophy file, several prophy files that include each other, isar xml +
patch) every generated file (--python_out --cpp_out --cpp_full_out) is compared byte for byte
between a baseline run and runs that differ in exactly one respect that must not matter:
  repeat      the same command again
  hashseed    another PYTHONHASHSEED
  cwd         another working directory (sub-directory with ../ paths, absolute paths)
  order       another command-line order of the same input files
  other-file  the file compiled alone vs. together with other files in one invocation
Besides unrelated partner files the "other files" are whole other projects: several directories whose
main files each `#include` a file of the *same name* (sibling, sub-path, ../ path, or one of them through
-I) with other contents, and one tree whose top file includes both projects. The cwd variation also runs
from a directory that holds unrelated files named exactly like every include of the input (found beside
the including file or through -I): they are no input and must not be read.
`--replay <file>` re-runs the two runs of a recorded case."""
import json
import os
import random
import re
import shutil
import sys

sys.path.insert(0, os.path.dirname(os.path.abspath(__file__)))
sys.path.insert(0, os.path.join(os.path.dirname(os.path.abspath(__file__)), "..", "tools"))
import common  # noqa: E402
import frontends as F  # noqa: E402
import schema as S  # noqa: E402
from checklib import Check  # noqa: E402

TIMEOUT = 60
SUFFIXES = (".ppf.hpp", ".ppf.cpp", ".pp.hpp", ".pp.cpp", ".py")
FIXED_SEEDS = ["1", "2", "12345", "4294967295"]


# ------------------------------------------------------------------------------- running

def stem_of_output(name):
    base = os.path.basename(name)
    for s in SUFFIXES:
        if base.endswith(s):
            return base[:-len(s)]
    return os.path.splitext(base)[0]


def stem_of_input(path):
    return os.path.splitext(os.path.basename(path))[0]


def _abs_run(files, mains, args_extra, include_dirs, patch, hashseed, foreign_cwd, cwd_rel="."):
    """as frontends.python_outputs, with every path on the command line absolute; the working
    directory is the scratch root (or its sub-directory cwd_rel) or (foreign_cwd) an unrelated directory"""
    root = common.scratch("abs")
    try:
        F.materialise(files, root)
        out = os.path.join(root, "OUT")
        os.makedirs(out, exist_ok=True)
        args = []
        for d in include_dirs:
            args += ["-I", os.path.normpath(os.path.join(root, d))]
        args += list(args_extra)
        if patch:
            args += ["--patch", os.path.join(root, patch)]
        args += ["--python_out", out, "--cpp_out", out, "--cpp_full_out", out]
        paths = [os.path.join(root, m) for m in mains]
        cwd = os.path.normpath(os.path.join(root, cwd_rel))
        os.makedirs(cwd, exist_ok=True)
        r = F.compile_files(paths, args, cwd="/" if foreign_cwd else cwd, timeout=TIMEOUT, hashseed=hashseed)
        outputs = {}
        for dp, _, fns in os.walk(out):
            for fn in fns:
                with open(os.path.join(dp, fn), "rb") as f:
                    outputs[os.path.relpath(os.path.join(dp, fn), out)] = f.read().decode("latin-1")
        return {"rc": r["rc"], "stderr": r["stderr"], "timeout": r["timeout"], "outputs": outputs}
    finally:
        if not os.environ.get("VERIF_KEEP"):
            shutil.rmtree(root, ignore_errors=True)


def run_once(files, mains, p):
    """one prophyc invocation described by parameter dict p -> python_outputs-like result"""
    cwd = p.get("cwd", ".")
    extra = list(p.get("args_extra", []))
    if p.get("abs"):
        return _abs_run(files, mains, extra, p.get("include_dirs", []), p.get("patch"), p.get("hashseed", "0"),
                        p.get("abs") == "foreign", cwd)
    if p.get("patch"):
        extra += ["--patch", os.path.relpath(p["patch"], cwd)]
    r = F.python_outputs(files, mains, args_extra=extra, cwd_rel=cwd, hashseed=p.get("hashseed", "0"),
                         include_dirs=p.get("include_dirs", []), timeout=TIMEOUT)
    return r


def run(files, p):
    """p["mains"]: command-line order of the input files; p["separate"]: one invocation per
    input file, outputs merged; p["select"]: keep only the outputs of these input stems.
    -> {"rc", "stderr", "timeout", "outputs"}"""
    mains = list(p["mains"])
    if p.get("separate"):
        merged = {"rc": 0, "stderr": "", "timeout": False, "outputs": {}}
        for m in mains:
            r = run_once(files, [m], p)
            merged["rc"] = merged["rc"] or r["rc"]
            merged["stderr"] += r["stderr"]
            merged["timeout"] = merged["timeout"] or r["timeout"]
            merged["outputs"].update(r["outputs"])
        r = merged
    else:
        r = run_once(files, mains, p)
    if p.get("select") is not None:
        keep = set(p["select"])
        r = dict(r, outputs={k: v for k, v in r["outputs"].items() if stem_of_output(k) in keep})
    return r


def differing(base, var):
    """{file name: [first differing line in the baseline, in the variant]} (None: no such file / line)"""
    out = {}
    for name in sorted(set(base) | set(var)):
        a, b = base.get(name), var.get(name)
        if a == b:
            continue
        if a is None or b is None:
            out[name] = [None if a is None else "<generated>", None if b is None else "<generated>"]
            continue
        la, lb = a.split("\n"), b.split("\n")
        for i in range(max(len(la), len(lb))):
            x = la[i] if i < len(la) else None
            y = lb[i] if i < len(lb) else None
            if x != y:
                out[name] = ["%d: %s" % (i + 1, x), "%d: %s" % (i + 1, y)]
                break
    return out


# ------------------------------------------------------------------------------- inputs

def text_schemas(rng, n, prefix, min_decls=1):
    ex = list(S.exhaustive_small(2))
    out = [t for _, t in rng.sample(ex, min(n // 2, len(ex)))] if min_decls <= 1 else []
    rs = S.RandomSchemas(random.Random(rng.randint(0, 1 << 30)), prefix=prefix)
    guard = 0
    while len(out) < n and guard < 200 * n:
        guard += 1
        t = rs.message()
        if len(S.decls(t)) < min_decls:
            continue
        try:
            S.to_prophy(t)
        except ValueError:
            continue
        out.append(t)
    return out


def single_inputs(rng, n):
    ts = text_schemas(rng, n, "R")
    others = text_schemas(rng, n, "R")   # a second name counter: the same names with other definitions
    for i in range(n):
        other = others[n - 1 - i]
        yield {"input": "single", "files": {"m.prophy": S.to_prophy(ts[i]), "other.prophy": S.to_prophy(other)},
               "mains": ["m.prophy"], "other": ["other.prophy"], "base": {}}


def split_inputs(rng, n):
    ts = text_schemas(rng, n, "P", min_decls=3)
    others = text_schemas(rng, n, "P", min_decls=3)   # the same names with other definitions
    for i, t in enumerate(ts):
        style = F.SPLIT_STYLES[i % len(F.SPLIT_STYLES)]
        sp = F.split_files(t, rng, 2 + (i // len(F.SPLIT_STYLES)) % 4, style)
        files = dict(sp["files"])
        files["unrelated/other.prophy"] = S.to_prophy(others[i])
        files, ndecoys = add_shadow(files, sp["include_dirs"])
        amb, via_i, _ = include_facts(files, sp["include_dirs"], skip_dir=SHADOW)
        yield {"input": "split-" + style, "files": files, "mains": list(sp["order"]), "main": sp["main"],
               "other": ["unrelated/other.prophy"], "base": {"include_dirs": list(sp["include_dirs"])}, "shadow": ndecoys > 0,
               "facts": {"ambiguous_include_strings": len(amb), "include_strings_through_I": len(via_i), "decoys": ndecoys}}


def isar_inputs(rng, n):
    rs = S.RandomSchemas(random.Random(rng.randint(0, 1 << 30)), prefix="X")
    qs = S.RandomSchemas(random.Random(rng.randint(0, 1 << 30)), prefix="Y")
    made = 0
    guard = 0
    while made < n and guard < 200 * n:
        guard += 1
        t, o = rs.message(), qs.message()
        try:
            names = [d[1] for d in S.decls(t)]
            rng.shuffle(names)
            xml, patch = F.to_isar(t, order=names, style=F.STYLES[made % len(F.STYLES)], rng=rng)
            oxml, opatch = F.to_isar(o, style="direct", rng=rng)
        except F.NotExpressible:
            continue
        files = {"m.xml": xml, "other.xml": oxml}
        base = {"args_extra": ["--isar"]}
        both = (patch or "") + (opatch or "")
        if both:
            files["m.patch"] = both       # distinct name prefixes: each rule touches one file only
            base["patch"] = "m.patch"
        yield {"input": "isar", "files": files, "mains": ["m.xml"], "other": ["other.xml"], "base": base}
        made += 1


# ---- include resolution (what the property's "inputs" are) and files that are *not* inputs

_INCLUDE_RE = re.compile(r'^\s*#include\s+"([^"\n]*)"', re.M)
SHADOW = "shadowcwd"          # a working directory that holds same-named files which are no inputs
_RETYPE = {"u8": "u16", "u16": "u32", "u32": "u64", "u64": "u8", "i8": "i16", "i16": "i32", "i32": "i64", "i64": "i8",
           "float": "double", "double": "float"}
_RETYPE_RE = re.compile(r"\b(%s)\b" % "|".join(_RETYPE))


def include_strings(text):
    return _INCLUDE_RE.findall(text)


def resolve(files, including, leaf, include_dirs):
    """the file (key of `files`) the documented lookup gives for `#include "leaf"` written in file
    `including`: the including file's directory first, then the -I directories in order; None: not found.
    Only used to describe the generated inputs (coverage), never as an oracle."""
    for d in [os.path.dirname(including)] + [("" if x == "." else x) for x in include_dirs]:
        q = os.path.normpath(os.path.join(d, leaf))
        if q in files:
            return q
    return None


def include_facts(files, include_dirs, skip_dir=None):
    """-> (include strings that denote different files depending on the including file,
           include strings found only through -I, all (including file, string, resolved file))"""
    by_leaf = {}
    via_i = set()
    edges = []
    for path in sorted(files):
        if skip_dir and (path == skip_dir or path.startswith(skip_dir + "/")):
            continue
        for leaf in include_strings(files[path]):
            tgt = resolve(files, path, leaf, include_dirs)
            edges.append((path, leaf, tgt))
            if tgt is not None:
                by_leaf.setdefault(leaf, set()).add(tgt)
            if tgt is not None and tgt != os.path.normpath(os.path.join(os.path.dirname(path), leaf)):
                via_i.add(leaf)
    return sorted(k for k, v in by_leaf.items() if len(v) > 1), sorted(via_i), edges


def retype(text, times=1):
    """another valid schema with the same includes, structure and names: every builtin numeric type is
    exchanged for another one (u8 -> u16 -> u32 -> u64 -> u8, ...), `times` times"""
    for _ in range(times):
        text = "\n".join(ln if ln.lstrip().startswith("#") else _RETYPE_RE.sub(lambda m: _RETYPE[m.group(1)], ln)
                         for ln in text.split("\n"))
    return text


def decoy_text(text, tag):
    """retype(text) plus one more constant: whatever is generated from a file that (wrongly) includes the
    decoy differs, or does not compile"""
    return retype(text) + "\nconst DECOY_%s = 77;\n" % re.sub(r"\W", "_", tag).upper()


def add_shadow(files, include_dirs=()):
    """files + for every include string of every file a decoy SHADOW/<string> (a file of that name which
    is neither beside an including file nor in a -I directory). -> (files, number of decoys)"""
    out = dict(files)
    n = 0
    for path in sorted(files):
        for leaf in include_strings(files[path]):
            q = os.path.normpath(os.path.join(SHADOW, leaf))
            if not q.startswith(SHADOW + "/") or q in out:
                continue        # ../ strings that leave the directory denote real input files
            tgt = resolve(files, path, leaf, include_dirs)
            out[q] = decoy_text(files[tgt] if tgt else "", leaf)
            n += 1
    return out, n


def shadow_pairs(b):
    """cwd variations: the same command from the directory that holds the decoys (relative and absolute paths)"""
    return [("cwd", b, dict(b, cwd=SHADOW)), ("cwd", b, dict(b, cwd=SHADOW, abs="root"))]


def _place(sp, main_path, inc_dir=None, base_dir=""):
    """the files of a frontends.split_files result: the main file renamed/moved to `main_path`, the other
    files moved below `inc_dir` (default: they stay beside the main file, below `base_dir`); include
    lines that name the main file follow the renaming. -> (files, -I directories)"""
    old_main = os.path.basename(sp["main"])
    new_main = os.path.basename(main_path)
    files = {}
    for p, text in sp["files"].items():
        text = _INCLUDE_RE.sub(lambda m: m.group(0).replace(old_main, new_main), text)
        if p == sp["main"]:
            files[main_path] = text
        else:
            files[os.path.normpath(os.path.join(inc_dir if inc_dir is not None else base_dir, p))] = text
    where = inc_dir if inc_dir is not None else base_dir
    return files, [os.path.normpath(os.path.join(where, d)) for d in sp["include_dirs"]]


def _rewrite_includes(text, fn):
    return _INCLUDE_RE.sub(lambda m: m.group(0).replace('"%s"' % m.group(1), '"%s"' % fn(m.group(1))), text)


PROJECT_LAYOUTS = ("sibling", "subpath", "one-through-I", "sibling-chain", "updir", "subdirs", "tree")
PROJECT_DIRS = (["pa", "pb", "pc"], ["pa", "pa/inner", "pb"], ["x/proj", "y/proj", "z/proj"], ["pb", "pa"])


def project_inputs(rng, n):
    """several projects in different directories; the main file of each includes files that have the same
    names in every project (the split of a schema into part0.prophy, part1.prophy, ...) and other contents.
    Compiling the main files of all projects in one invocation must give what compiling each alone gives.

    layouts   sibling        the included files lie beside the main file (2 files per project)
              sibling-chain  the same with up to 4 files per project (includes of includes)
              subpath        the included files lie in <project>/inc and are included as "inc/partN.prophy"
              updir          main file in <project>/src, includes in <project>/common, written "../common/partN.prophy"
              one-through-I  the included files of the first project lie in shared/ (found through -I shared),
                             those of the other projects beside their main files
              subdirs        frontends.split_files 'subdirs' per project (relative paths and -I look-ups mixed)
              tree           sibling, distinct declaration names per project, plus a top file in the root that
                             includes the main files of two projects: the same include string is used from two
                             directories inside one include tree
    Every other round (not for tree) the projects are clones: the files of the first project with the numeric
    types exchanged (retype), i.e. exactly the same names and include lines with other definitions, so that
    taking the file of the wrong project compiles and silently changes the output."""
    made = 0
    guard = 0
    while made < n and guard < 50 * n:
        guard += 1
        layout = PROJECT_LAYOUTS[made % len(PROJECT_LAYOUTS)]
        dirs = list(PROJECT_DIRS[(made // len(PROJECT_LAYOUTS)) % len(PROJECT_DIRS)])
        k = 2 + (made // 2) % 2
        dirs = dirs[:k]
        tree = layout == "tree"
        clone = not tree and (made // len(PROJECT_LAYOUTS)) % 2 == 1
        files, mains, include_dirs, tops, owner = {}, [], [], [], {}
        ok = True
        for i, d in enumerate(dirs):
            # the same prefix with a fresh counter per project: the same names with other definitions
            ts = text_schemas(random.Random(rng.randint(0, 1 << 30)), 1, "T%d" % i if tree else "Q", min_decls=3)
            if not ts:
                ok = False
                break
            t = ts[0]
            tops.append(t)
            r = random.Random(rng.randint(0, 1 << 30))
            if clone and i > 0:
                sp = dict(sp0, files={p: retype(x, i) for p, x in sp0["files"].items()})
            elif layout == "subdirs":
                sp = F.split_files(t, r, 2 + made % 3, "subdirs")
            else:
                style = ("chain", "diamond", "random")[(made // len(PROJECT_LAYOUTS) + i) % 3]
                sp = F.split_files(t, r, 2 if layout == "sibling" else 2 + (made + i) % 3, style)
            if i == 0:
                sp0 = sp
            if len(sp["files"]) < 2:
                ok = False
                break
            stem = "m%d" % i
            if layout == "subpath":
                fs, inc = _place(sp, os.path.join(d, stem + ".prophy"), inc_dir=os.path.join(d, "inc"))
                fs = {p: (_rewrite_includes(x, lambda s: "inc/" + s) if p == os.path.join(d, stem + ".prophy") else x)
                      for p, x in fs.items()}
            elif layout == "updir":
                mp = os.path.join(d, "src", stem + ".prophy")
                fs, inc = _place(sp, mp, inc_dir=os.path.join(d, "common"))
                fs = {p: (_rewrite_includes(x, lambda s: "../common/" + s) if p == mp else x) for p, x in fs.items()}
            elif layout == "one-through-I" and i == 0:
                fs, inc = _place(sp, os.path.join(d, stem + ".prophy"), inc_dir="shared")
                inc = inc + ["shared"]
            else:
                fs, inc = _place(sp, os.path.join(d, stem + ".prophy"), base_dir=d)
            if set(fs) & set(files):
                ok = False
                break
            files.update(fs)
            owner.update({p: i for p in fs})
            mains.append([p for p in fs if os.path.basename(p) == stem + ".prophy"][0])
            include_dirs += [x for x in inc if x not in include_dirs]
        if not ok:
            continue
        if any(tgt is not None and owner[tgt] != owner[path] for path, _, tgt in include_facts(files, include_dirs)[2]):
            continue    # with the -I directories of all projects an include of one project denotes a file of another
        base = {"include_dirs": include_dirs}
        stems = [stem_of_input(m) for m in mains]
        rev = list(reversed(mains))
        sep = dict(base, mains=list(mains), separate=True)
        pairs = []
        if tree:
            top = "".join('#include "%s"\n' % m for m in mains[:2]) + \
                "\nstruct TreeTop\n{\n    u8 a;\n    %s b;\n};\n" % tops[1][1]
            files["top.prophy"] = top
            joint = ["top.prophy"] + mains
            pairs.append(("other-file", sep, dict(base, mains=joint, select=stems)))
            pairs.append(("other-file", sep, dict(base, mains=rev + ["top.prophy"], select=stems)))
            pairs.append(("other-file", dict(base, mains=["top.prophy"]), dict(base, mains=rev + ["top.prophy"], select=["top"])))
        else:
            pairs.append(("other-file", sep, dict(base, mains=list(mains))))
            pairs.append(("other-file", sep, dict(base, mains=rev)))
            pairs.append(("order", dict(base, mains=list(mains)), dict(base, mains=rev)))
            if k > 2:
                rot = mains[1:] + mains[:1]
                pairs.append(("other-file", sep, dict(base, mains=rot)))
        files, ndecoys = add_shadow(files, include_dirs)
        if ndecoys:
            pairs += shadow_pairs(dict(base, mains=(["top.prophy"] if tree else []) + list(mains)))
        amb, via_i, _ = include_facts(files, include_dirs, skip_dir=SHADOW)
        yield {"input": "projects-" + layout, "layout": layout + (" (clones)" if clone else ""), "files": files, "mains": mains, "base": base, "pairs": pairs,
               "facts": {"ambiguous_include_strings": len(amb), "include_strings_through_I": len(via_i), "decoys": ndecoys}}
        made += 1


def incdir_inputs(rng, n):
    """one schema split into a main file in src/ and the files it includes in inc/ (given with -I inc, named
    by their bare file names), or spread over sub-directories (split style 'subdirs'); compiled from the
    project root and from a directory that holds other files with the names of the includes"""
    ts = text_schemas(rng, n, "V", min_decls=3)
    for i, t in enumerate(ts):
        r = random.Random(rng.randint(0, 1 << 30))
        if i % 3 == 2:
            sp = F.split_files(t, r, 2 + i % 4, "subdirs")
            files, include_dirs = dict(sp["files"]), list(sp["include_dirs"])
            main, layout = sp["main"], "subdirs"
        else:
            sp = F.split_files(t, r, 2 + i % 4, ("chain", "diamond", "random")[i % 3])
            main = ["src/vmain.prophy", "vmain.prophy"][(i // 3) % 2]
            files, include_dirs = _place(sp, main, inc_dir="inc")
            include_dirs = include_dirs + ["inc"]
            layout = "main in %s, includes in inc/ through -I" % (os.path.dirname(main) or "the root")
        if len(files) < 2:
            continue
        base = {"include_dirs": include_dirs}
        b = dict(base, mains=[main])
        files, ndecoys = add_shadow(files, include_dirs)
        amb, via_i, _ = include_facts(files, include_dirs, skip_dir=SHADOW)
        pairs = shadow_pairs(b) + [("cwd", b, dict(b, cwd="elsewhere/empty"))]
        yield {"input": "incdir", "layout": layout, "files": files, "mains": [main], "base": base, "pairs": pairs,
               "facts": {"ambiguous_include_strings": len(amb), "include_strings_through_I": len(via_i), "decoys": ndecoys}}


def precedence_inputs(rng, n):
    """search precedence: every included file exists twice under the same name — beside the including file
    (proj/) and, with other contents, in vendor/ — and the command line lists -I vendor before -I proj, so the
    including file's own directory is also one of the -I directories. The directory of the including file is
    searched first whatever the spelling of the paths, so every run (from the root, from proj/, from vendor/, with
    absolute paths) must take the files of proj/ and generate the same bytes"""
    ts = text_schemas(rng, n, "Q", min_decls=3)
    for i, t in enumerate(ts):
        r = random.Random(rng.randint(0, 1 << 30))
        sp = F.split_files(t, r, 2 + i % 3, ("chain", "diamond", "random")[i % 3])
        if sp["include_dirs"]:
            continue
        files, _ = _place(sp, "proj/qmain.prophy", base_dir="proj")
        if len(files) < 2:
            continue
        for q, text in list(files.items()):
            if q != "proj/qmain.prophy":
                files[os.path.normpath(os.path.join("vendor", os.path.relpath(q, "proj")))] = decoy_text(text, q)
        include_dirs = ["vendor", "proj"]
        base = {"include_dirs": include_dirs}
        b = dict(base, mains=["proj/qmain.prophy"])
        pairs = [("cwd", b, dict(b, cwd="proj")), ("cwd", b, dict(b, cwd="vendor")), ("cwd", b, dict(b, abs="root")),
                 ("cwd", dict(b, cwd="proj"), dict(b, abs="foreign"))]
        amb, via_i, _ = include_facts(files, include_dirs)
        yield {"input": "precedence", "layout": "same names in proj/ (beside the main file) and vendor/; -I vendor -I proj",
               "files": files, "mains": ["proj/qmain.prophy"], "base": base, "pairs": pairs,
               "facts": {"ambiguous_include_strings": len(amb), "include_strings_through_I": len(via_i), "decoys": len(files) // 2}}


def variations(inp, rng, idx):
    """[(variation kind, baseline parameters, variant parameters)]"""
    b = dict(inp["base"], mains=list(inp["mains"]))
    mains = inp["mains"]
    out = [("repeat", b, dict(b)),
           ("hashseed", b, dict(b, hashseed=FIXED_SEEDS[idx % len(FIXED_SEEDS)])),
           ("hashseed", b, dict(b, hashseed=str(rng.randint(3, (1 << 32) - 1)))),
           ("cwd", b, dict(b, cwd=["sub", "deep/er/dir"][idx % 2])),
           ("cwd", b, dict(b, abs=["root", "foreign"][idx % 2]))]
    stems = [stem_of_input(m) for m in mains]
    joint = mains + inp["other"]
    if idx % 2:
        joint = inp["other"] + mains
    out.append(("other-file", b, dict(b, mains=joint, select=stems)))
    if len(mains) > 1:
        rev = list(reversed(mains))
        out.append(("order", b, dict(b, mains=rev)))
        sh = list(mains)
        rng.shuffle(sh)
        if sh != mains and sh != rev:
            out.append(("order", b, dict(b, mains=sh)))
        out.append(("other-file", b, dict(b, separate=True)))
        main_only = dict(b, mains=[inp["main"]])
        out.append(("other-file", dict(b, select=[stem_of_input(inp["main"])]), main_only))
    else:
        other_first = dict(b, mains=inp["other"] + mains)
        other_last = dict(b, mains=mains + inp["other"])
        out.append(("order", other_last, other_first))
    if inp.get("shadow"):
        out.append(shadow_pairs(b)[idx % 2])
    return out


# ------------------------------------------------------------------------------- main

def compare(files, kind, pb, pv, rb=None):
    """-> (baseline result, variant result, differing outputs)"""
    rb = rb if rb is not None else run(files, pb)
    rv = run(files, pv)
    return rb, rv, differing(rb["outputs"], rv["outputs"])


def make_case(inp, kind, pb, pv, rb, rv, diff):
    return {"kind": "generated files differ between two runs that differ only in: %s" % kind,
            "variation": kind, "input": inp["input"], "layout": inp.get("layout"), "include_facts": inp.get("facts"),
            "files": inp["files"], "main_files": pb["mains"],
            "baseline": pb, "variant": pv, "differing_outputs": diff,
            "baseline_rc": rb["rc"], "variant_rc": rv["rc"], "variant_stderr": rv["stderr"][-800:]}


def replay(chk):
    with open(chk.replay_mode) as f:
        j = json.load(f)
    inp = {"input": j.get("input", "replay"), "files": j["files"]}
    pb = j.get("baseline") or {"mains": j["main_files"]}
    pv = j.get("variant") or dict(pb)
    rb, rv, diff = compare(j["files"], j.get("variation", "repeat"), pb, pv)
    chk.count()
    bad = bool(diff) and rb["rc"] == 0
    if bad:
        chk.violation("replay", make_case(inp, j.get("variation", "repeat"), pb, pv, rb, rv, diff))
    print("REPLAY property=C20 still-violates=%s baseline_rc=%s variant_rc=%s differing=%s" % (
        "yes" if bad else "no", rb["rc"], rv["rc"], json.dumps(diff)[:300]))
    return chk.finish(level="proof")


def corpus_inputs():
    d = os.path.join(common.VERIF, "corpus", "C20")
    if not os.path.isdir(d):
        return
    for fn in sorted(os.listdir(d)):
        if fn.endswith(".json"):
            with open(os.path.join(d, fn)) as f:
                j = json.load(f)
            yield {"input": "corpus", "label": fn, "files": j["files"],
                   "pairs": [(j.get("variation", "repeat"), j.get("baseline") or {"mains": j["main_files"]},
                              j.get("variant") or {"mains": j["main_files"]})]}


def main():
    chk = Check("C20")
    if chk.replay_mode:
        return replay(chk)
    chk.build()
    rng = random.Random(chk.seed)
    m = 1 if chk.tier == "quick" else 10
    inputs = list(corpus_inputs())
    inputs += list(single_inputs(rng, 40 * m))
    inputs += list(split_inputs(rng, 40 * m))
    inputs += list(isar_inputs(rng, 20 * m))
    inputs += list(project_inputs(rng, 24 * m))
    inputs += list(incdir_inputs(rng, 12 * m))
    inputs += list(precedence_inputs(rng, 8 * m))
    jobs = []
    for idx, inp in enumerate(inputs):
        pairs = inp.get("pairs") or variations(inp, random.Random(chk.seed * 1000003 + idx), idx)
        jobs.append((idx, inp, pairs))

    def job(a):
        idx, inp, pairs = a
        cache = {}
        res = []
        other = inp.get("other")
        if other:
            # the unrelated partner file must compile on its own, else a joint run proves nothing
            ro = run(inp["files"], dict(inp["base"], mains=list(other)))
            if ro["rc"] != 0 or ro["timeout"]:
                pairs = [(k, pb, pv) for k, pb, pv in pairs if not (set(other) & (set(pb["mains"]) | set(pv["mains"])))]
                res.append(("partner", None, None, ro, None, None))
        for kind, pb, pv in pairs:
            key = json.dumps(pb, sort_keys=True)
            if key not in cache:
                cache[key] = run(inp["files"], pb)
            rb = cache[key]
            if rb["rc"] != 0 or rb["timeout"]:
                res.append((kind, pb, pv, rb, None, None))
                continue
            rb, rv, diff = compare(inp["files"], kind, pb, pv, rb)
            res.append((kind, pb, pv, rb, rv, diff))
        return res

    results = F.pmap(job, jobs)
    skipped = {}
    per_var = {}
    per_input = {}
    nfiles_hist = {}
    outputs_compared = 0
    sample_done = set()
    facts = {}
    for (idx, inp, pairs), res in zip(jobs, results):
        per_input[inp["input"]] = per_input.get(inp["input"], 0) + 1
        for fk, fv in (inp.get("facts") or {}).items():
            facts["inputs_with_" + fk] = facts.get("inputs_with_" + fk, 0) + (1 if fv else 0)
        not_compiling = False
        for vi, (kind, pb, pv, rb, rv, diff) in enumerate(res):
            if kind == "partner":
                skipped["partner of " + inp["input"]] = skipped.get("partner of " + inp["input"], 0) + 1
                continue
            if rv is None:
                not_compiling = True
                continue
            chk.count()
            nf = len(pv["mains"])
            per_var[kind] = per_var.get(kind, 0) + 1
            nfiles_hist[str(nf)] = nfiles_hist.get(str(nf), 0) + 1
            outputs_compared += len(rb["outputs"])
            chk.seen_class((inp["input"], kind, nf), nontrivial=bool(rb["outputs"]))
            if diff:
                name = re.sub(r"[^A-Za-z0-9_.-]+", "_", "%s-%s-%04d-%d" % (inp["input"], kind, idx, vi))
                chk.violation(name, make_case(inp, kind, pb, pv, rb, rv, diff),
                              note="%s/%s: %s" % (inp["input"], kind, json.dumps(diff)[:160]))
            elif (inp["input"], kind) not in sample_done and len(sample_done) < 3 and kind in ("hashseed", "order", "cwd") \
                    and inp["input"] != "single":
                sample_done.add((inp["input"], kind))
                chk.sample({"input": inp["input"], "variation": kind, "baseline": pb, "variant": pv,
                            "input_files": sorted(inp["files"]), "identical_outputs": sorted(rb["outputs"])})
        if not_compiling:
            skipped[inp["input"]] = skipped.get(inp["input"], 0) + 1
    chk.coverage["skipped_not_compiling"] = skipped
    chk.coverage["inputs_per_kind"] = per_input
    chk.coverage["comparisons_per_variation"] = per_var
    chk.coverage["comparisons_per_number_of_input_files"] = nfiles_hist
    chk.coverage["output_files_compared"] = outputs_compared
    chk.coverage["include_structure"] = facts
    chk.coverage["outcomes"] = {"identical": chk.coverage["evaluations"] - chk.violations - sum(chk.known_hits.values()),
                                "different": chk.violations + sum(chk.known_hits.values())}
    chk.coverage["rule"] = (
        "valid schemas from random.Random(seed): single prophy files (exhaustive-small sample + random-structured), random-"
        "structured schemas split into 2..5 files by frontends.split_files (chain, diamond, random, subdirs with -I), isar xml "
        "(+patch, every to_isar style, shuffled document order). Each is compiled with --python_out --cpp_out --cpp_full_out "
        "through frontends.python_outputs (baseline: PYTHONHASHSEED=0, run from the scratch root, relative paths) and again "
        "with one difference: repeat; PYTHONHASHSEED in {1, 2, 12345, 4294967295} and one random value per schema; working "
        "directory (a sub-directory with ../ paths; absolute paths from the scratch root or from /); command-line order of the "
        "files of a split (reversed, shuffled) and of two unrelated files; other-file: the file(s) compiled together with an "
        "unrelated file that reuses the same declaration names with other definitions (only the outputs of the original "
        "files are compared), all files of a split in one invocation vs. one invocation per file, the main file alone vs. with "
        "all files it includes on the command line; projects: 2..3 directories whose main files include files of the same "
        "names with other contents (beside the main file, in inc/ as \"inc/x\", in ../common, one of them through -I, "
        "split_files subdirs; tree: a top file including two projects), each main file alone vs. all in one invocation in "
        "2..3 orders, and the order of these independent main files; incdir: main file in src/ or the root, includes "
        "through -I inc. cwd for every input with includes additionally: a directory holding decoy files named like every "
        "include string (relative and absolute command lines). Oracle: the {output file name: bytes} maps are equal. Schemas whose "
        "baseline does not compile are skipped and counted. distinct_nontrivial = distinct (input kind, variation, number of "
        "input files on the variant's command line).")
    chk.assumptions += ["hash seeds, directories and orders are sampled, not exhausted",
                        "the file system and the process environment other than PYTHONHASHSEED and the working directory are "
                        "held constant by the harness (fresh scratch directory per run)"]
    # the tie of the theorems of props/C20.v: the real FileProcessor against model/PcFiles.v on generated include graphs
    import filecorr
    filecorr.run(chk, 250 if chk.tier == 'quick' else 3000)
    return chk.finish(level="proof")


if __name__ == "__main__":
    sys.exit(main())
