#!/venv/bin/python
"""C20 — prophyc output is a deterministic function of its inputs.

For valid schemas (one prophy file, several prophy files that include each other, isar xml +
patch) every generated file (--python_out --cpp_out --cpp_full_out) is compared byte for byte
between a baseline run and runs that differ in exactly one respect that must not matter:
  repeat      the same command again
  hashseed    another PYTHONHASHSEED
  cwd         another working directory (sub-directory with ../ paths, absolute paths)
  order       another command-line order of the same input files
  other-file  the file compiled alone vs. together with other files in one invocation
`--replay <file>` re-runs the two runs of a recorded case."""
import json
import os
import random
import re
import shutil
import sys

sys.path.insert(0, os.path.dirname(os.path.abspath(__file__)))
sys.path.insert(0, os.path.join(os.path.dirname(os.path.abspath(__file__)), "..", "tools"))
import common  # noqa: E402
import frontends as F  # noqa: E402
import schema as S  # noqa: E402
from checklib import Check  # noqa: E402

TIMEOUT = 60
SUFFIXES = (".ppf.hpp", ".ppf.cpp", ".pp.hpp", ".pp.cpp", ".py")
FIXED_SEEDS = ["1", "2", "12345", "4294967295"]


# ------------------------------------------------------------------------------- running

def stem_of_output(name):
    base = os.path.basename(name)
    for s in SUFFIXES:
        if base.endswith(s):
            return base[:-len(s)]
    return os.path.splitext(base)[0]


def stem_of_input(path):
    return os.path.splitext(os.path.basename(path))[0]


def _abs_run(files, mains, args_extra, include_dirs, patch, hashseed, foreign_cwd):
    """as frontends.python_outputs, with every path on the command line absolute; the working
    directory is the scratch root or (foreign_cwd) an unrelated directory"""
    root = common.scratch("abs")
    try:
        F.materialise(files, root)
        out = os.path.join(root, "OUT")
        os.makedirs(out, exist_ok=True)
        args = []
        for d in include_dirs:
            args += ["-I", os.path.normpath(os.path.join(root, d))]
        args += list(args_extra)
        if patch:
            args += ["--patch", os.path.join(root, patch)]
        args += ["--python_out", out, "--cpp_out", out, "--cpp_full_out", out]
        paths = [os.path.join(root, m) for m in mains]
        r = F.compile_files(paths, args, cwd="/" if foreign_cwd else root, timeout=TIMEOUT, hashseed=hashseed)
        outputs = {}
        for dp, _, fns in os.walk(out):
            for fn in fns:
                with open(os.path.join(dp, fn), "rb") as f:
                    outputs[os.path.relpath(os.path.join(dp, fn), out)] = f.read().decode("latin-1")
        return {"rc": r["rc"], "stderr": r["stderr"], "timeout": r["timeout"], "outputs": outputs}
    finally:
        if not os.environ.get("VERIF_KEEP"):
            shutil.rmtree(root, ignore_errors=True)


def run_once(files, mains, p):
    """one prophyc invocation described by parameter dict p -> python_outputs-like result"""
    cwd = p.get("cwd", ".")
    extra = list(p.get("args_extra", []))
    if p.get("abs"):
        return _abs_run(files, mains, extra, p.get("include_dirs", []), p.get("patch"), p.get("hashseed", "0"),
                        p.get("abs") == "foreign")
    if p.get("patch"):
        extra += ["--patch", os.path.relpath(p["patch"], cwd)]
    r = F.python_outputs(files, mains, args_extra=extra, cwd_rel=cwd, hashseed=p.get("hashseed", "0"),
                         include_dirs=p.get("include_dirs", []), timeout=TIMEOUT)
    return r


def run(files, p):
    """p["mains"]: command-line order of the input files; p["separate"]: one invocation per
    input file, outputs merged; p["select"]: keep only the outputs of these input stems.
    -> {"rc", "stderr", "timeout", "outputs"}"""
    mains = list(p["mains"])
    if p.get("separate"):
        merged = {"rc": 0, "stderr": "", "timeout": False, "outputs": {}}
        for m in mains:
            r = run_once(files, [m], p)
            merged["rc"] = merged["rc"] or r["rc"]
            merged["stderr"] += r["stderr"]
            merged["timeout"] = merged["timeout"] or r["timeout"]
            merged["outputs"].update(r["outputs"])
        r = merged
    else:
        r = run_once(files, mains, p)
    if p.get("select") is not None:
        keep = set(p["select"])
        r = dict(r, outputs={k: v for k, v in r["outputs"].items() if stem_of_output(k) in keep})
    return r


def differing(base, var):
    """{file name: [first differing line in the baseline, in the variant]} (None: no such file / line)"""
    out = {}
    for name in sorted(set(base) | set(var)):
        a, b = base.get(name), var.get(name)
        if a == b:
            continue
        if a is None or b is None:
            out[name] = [None if a is None else "<generated>", None if b is None else "<generated>"]
            continue
        la, lb = a.split("\n"), b.split("\n")
        for i in range(max(len(la), len(lb))):
            x = la[i] if i < len(la) else None
            y = lb[i] if i < len(lb) else None
            if x != y:
                out[name] = ["%d: %s" % (i + 1, x), "%d: %s" % (i + 1, y)]
                break
    return out


# ------------------------------------------------------------------------------- inputs

def text_schemas(rng, n, prefix, min_decls=1):
    ex = list(S.exhaustive_small(2))
    out = [t for _, t in rng.sample(ex, min(n // 2, len(ex)))] if min_decls <= 1 else []
    rs = S.RandomSchemas(random.Random(rng.randint(0, 1 << 30)), prefix=prefix)
    guard = 0
    while len(out) < n and guard < 200 * n:
        guard += 1
        t = rs.message()
        if len(S.decls(t)) < min_decls:
            continue
        try:
            S.to_prophy(t)
        except ValueError:
            continue
        out.append(t)
    return out


def single_inputs(rng, n):
    ts = text_schemas(rng, n, "R")
    others = text_schemas(rng, n, "R")   # a second name counter: the same names with other definitions
    for i in range(n):
        other = others[n - 1 - i]
        yield {"input": "single", "files": {"m.prophy": S.to_prophy(ts[i]), "other.prophy": S.to_prophy(other)},
               "mains": ["m.prophy"], "other": ["other.prophy"], "base": {}}


def split_inputs(rng, n):
    ts = text_schemas(rng, n, "P", min_decls=3)
    others = text_schemas(rng, n, "P", min_decls=3)   # the same names with other definitions
    for i, t in enumerate(ts):
        style = F.SPLIT_STYLES[i % len(F.SPLIT_STYLES)]
        sp = F.split_files(t, rng, 2 + (i // len(F.SPLIT_STYLES)) % 4, style)
        files = dict(sp["files"])
        files["unrelated/other.prophy"] = S.to_prophy(others[i])
        yield {"input": "split-" + style, "files": files, "mains": list(sp["order"]), "main": sp["main"],
               "other": ["unrelated/other.prophy"], "base": {"include_dirs": list(sp["include_dirs"])}}


def isar_inputs(rng, n):
    rs = S.RandomSchemas(random.Random(rng.randint(0, 1 << 30)), prefix="X")
    qs = S.RandomSchemas(random.Random(rng.randint(0, 1 << 30)), prefix="Y")
    made = 0
    guard = 0
    while made < n and guard < 200 * n:
        guard += 1
        t, o = rs.message(), qs.message()
        try:
            names = [d[1] for d in S.decls(t)]
            rng.shuffle(names)
            xml, patch = F.to_isar(t, order=names, style=F.STYLES[made % len(F.STYLES)], rng=rng)
            oxml, opatch = F.to_isar(o, style="direct", rng=rng)
        except F.NotExpressible:
            continue
        files = {"m.xml": xml, "other.xml": oxml}
        base = {"args_extra": ["--isar"]}
        both = (patch or "") + (opatch or "")
        if both:
            files["m.patch"] = both       # distinct name prefixes: each rule touches one file only
            base["patch"] = "m.patch"
        yield {"input": "isar", "files": files, "mains": ["m.xml"], "other": ["other.xml"], "base": base}
        made += 1


def variations(inp, rng, idx):
    """[(variation kind, baseline parameters, variant parameters)]"""
    b = dict(inp["base"], mains=list(inp["mains"]))
    mains = inp["mains"]
    out = [("repeat", b, dict(b)),
           ("hashseed", b, dict(b, hashseed=FIXED_SEEDS[idx % len(FIXED_SEEDS)])),
           ("hashseed", b, dict(b, hashseed=str(rng.randint(3, (1 << 32) - 1)))),
           ("cwd", b, dict(b, cwd=["sub", "deep/er/dir"][idx % 2])),
           ("cwd", b, dict(b, abs=["root", "foreign"][idx % 2]))]
    stems = [stem_of_input(m) for m in mains]
    joint = mains + inp["other"]
    if idx % 2:
        joint = inp["other"] + mains
    out.append(("other-file", b, dict(b, mains=joint, select=stems)))
    if len(mains) > 1:
        rev = list(reversed(mains))
        out.append(("order", b, dict(b, mains=rev)))
        sh = list(mains)
        rng.shuffle(sh)
        if sh != mains and sh != rev:
            out.append(("order", b, dict(b, mains=sh)))
        out.append(("other-file", b, dict(b, separate=True)))
        main_only = dict(b, mains=[inp["main"]])
        out.append(("other-file", dict(b, select=[stem_of_input(inp["main"])]), main_only))
    else:
        other_first = dict(b, mains=inp["other"] + mains)
        other_last = dict(b, mains=mains + inp["other"])
        out.append(("order", other_last, other_first))
    return out


# ------------------------------------------------------------------------------- main

def compare(files, kind, pb, pv, rb=None):
    """-> (baseline result, variant result, differing outputs)"""
    rb = rb if rb is not None else run(files, pb)
    rv = run(files, pv)
    return rb, rv, differing(rb["outputs"], rv["outputs"])


def make_case(inp, kind, pb, pv, rb, rv, diff):
    return {"kind": "generated files differ between two runs that differ only in: %s" % kind,
            "variation": kind, "input": inp["input"], "files": inp["files"], "main_files": pb["mains"],
            "baseline": pb, "variant": pv, "differing_outputs": diff,
            "baseline_rc": rb["rc"], "variant_rc": rv["rc"], "variant_stderr": rv["stderr"][-800:]}


def replay(chk):
    with open(chk.replay_mode) as f:
        j = json.load(f)
    inp = {"input": j.get("input", "replay"), "files": j["files"]}
    pb = j.get("baseline") or {"mains": j["main_files"]}
    pv = j.get("variant") or dict(pb)
    rb, rv, diff = compare(j["files"], j.get("variation", "repeat"), pb, pv)
    chk.count()
    bad = bool(diff) and rb["rc"] == 0
    if bad:
        chk.violation("replay", make_case(inp, j.get("variation", "repeat"), pb, pv, rb, rv, diff))
    print("REPLAY property=C20 still-violates=%s baseline_rc=%s variant_rc=%s differing=%s" % (
        "yes" if bad else "no", rb["rc"], rv["rc"], json.dumps(diff)[:300]))
    return chk.finish(level="exploration")


def corpus_inputs():
    d = os.path.join(common.VERIF, "corpus", "C20")
    if not os.path.isdir(d):
        return
    for fn in sorted(os.listdir(d)):
        if fn.endswith(".json"):
            with open(os.path.join(d, fn)) as f:
                j = json.load(f)
            yield {"input": "corpus", "label": fn, "files": j["files"],
                   "pairs": [(j.get("variation", "repeat"), j.get("baseline") or {"mains": j["main_files"]},
                              j.get("variant") or {"mains": j["main_files"]})]}


def main():
    chk = Check("C20")
    if chk.replay_mode:
        return replay(chk)
    chk.build()
    rng = random.Random(chk.seed)
    m = 1 if chk.tier == "quick" else 10
    inputs = list(corpus_inputs())
    inputs += list(single_inputs(rng, 40 * m))
    inputs += list(split_inputs(rng, 40 * m))
    inputs += list(isar_inputs(rng, 20 * m))
    jobs = []
    for idx, inp in enumerate(inputs):
        pairs = inp.get("pairs") or variations(inp, random.Random(chk.seed * 1000003 + idx), idx)
        jobs.append((idx, inp, pairs))

    def job(a):
        idx, inp, pairs = a
        cache = {}
        res = []
        other = inp.get("other")
        if other:
            # the unrelated partner file must compile on its own, else a joint run proves nothing
            ro = run(inp["files"], dict(inp["base"], mains=list(other)))
            if ro["rc"] != 0 or ro["timeout"]:
                pairs = [(k, pb, pv) for k, pb, pv in pairs if not (set(other) & (set(pb["mains"]) | set(pv["mains"])))]
                res.append(("partner", None, None, ro, None, None))
        for kind, pb, pv in pairs:
            key = json.dumps(pb, sort_keys=True)
            if key not in cache:
                cache[key] = run(inp["files"], pb)
            rb = cache[key]
            if rb["rc"] != 0 or rb["timeout"]:
                res.append((kind, pb, pv, rb, None, None))
                continue
            rb, rv, diff = compare(inp["files"], kind, pb, pv, rb)
            res.append((kind, pb, pv, rb, rv, diff))
        return res

    results = F.pmap(job, jobs)
    skipped = {}
    per_var = {}
    per_input = {}
    nfiles_hist = {}
    outputs_compared = 0
    sample_done = set()
    for (idx, inp, pairs), res in zip(jobs, results):
        per_input[inp["input"]] = per_input.get(inp["input"], 0) + 1
        not_compiling = False
        for vi, (kind, pb, pv, rb, rv, diff) in enumerate(res):
            if kind == "partner":
                skipped["partner of " + inp["input"]] = skipped.get("partner of " + inp["input"], 0) + 1
                continue
            if rv is None:
                not_compiling = True
                continue
            chk.count()
            nf = len(pv["mains"])
            per_var[kind] = per_var.get(kind, 0) + 1
            nfiles_hist[str(nf)] = nfiles_hist.get(str(nf), 0) + 1
            outputs_compared += len(rb["outputs"])
            chk.seen_class((inp["input"], kind, nf), nontrivial=bool(rb["outputs"]))
            if diff:
                name = re.sub(r"[^A-Za-z0-9_.-]+", "_", "%s-%s-%04d-%d" % (inp["input"], kind, idx, vi))
                chk.violation(name, make_case(inp, kind, pb, pv, rb, rv, diff),
                              note="%s/%s: %s" % (inp["input"], kind, json.dumps(diff)[:160]))
            elif (inp["input"], kind) not in sample_done and len(sample_done) < 3 and kind in ("hashseed", "order", "cwd") \
                    and inp["input"] != "single":
                sample_done.add((inp["input"], kind))
                chk.sample({"input": inp["input"], "variation": kind, "baseline": pb, "variant": pv,
                            "input_files": sorted(inp["files"]), "identical_outputs": sorted(rb["outputs"])})
        if not_compiling:
            skipped[inp["input"]] = skipped.get(inp["input"], 0) + 1
    chk.coverage["skipped_not_compiling"] = skipped
    chk.coverage["inputs_per_kind"] = per_input
    chk.coverage["comparisons_per_variation"] = per_var
    chk.coverage["comparisons_per_number_of_input_files"] = nfiles_hist
    chk.coverage["output_files_compared"] = outputs_compared
    chk.coverage["outcomes"] = {"identical": chk.coverage["evaluations"] - chk.violations - sum(chk.known_hits.values()),
                                "different": chk.violations + sum(chk.known_hits.values())}
    chk.coverage["rule"] = (
        "valid schemas from random.Random(seed): single prophy files (exhaustive-small sample + random-structured), random-"
        "structured schemas split into 2..5 files by frontends.split_files (chain, diamond, random, subdirs with -I), isar xml "
        "(+patch, every to_isar style, shuffled document order). Each is compiled with --python_out --cpp_out --cpp_full_out "
        "through frontends.python_outputs (baseline: PYTHONHASHSEED=0, run from the scratch root, relative paths) and again "
        "with one difference: repeat; PYTHONHASHSEED in {1, 2, 12345, 4294967295} and one random value per schema; working "
        "directory (a sub-directory with ../ paths; absolute paths from the scratch root or from /); command-line order of the "
        "files of a split (reversed, shuffled) and of two unrelated files; other-file: the file(s) compiled together with an "
        "unrelated file that reuses the same declaration names with other definitions (only the outputs of the original "
        "files are compared), all files of a split in one invocation vs. one invocation per file, the main file alone vs. with "
        "all files it includes on the command line. Oracle: the {output file name: bytes} maps are equal. Schemas whose "
        "baseline does not compile are skipped and counted. distinct_nontrivial = distinct (input kind, variation, number of "
        "input files on the variant's command line).")
    chk.assumptions += ["hash seeds, directories and orders are sampled, not exhausted",
                        "the file system and the process environment other than PYTHONHASHSEED and the working directory are "
                        "held constant by the harness (fresh scratch directory per run)"]
    return chk.finish(level="exploration")


if __name__ == "__main__":
    sys.exit(main())
