#!/venv/bin/python
"""C07 — C++ full decode is memory-safe and exact on arbitrary bytes."""
import os
import random
import sys

sys.path.insert(0, os.path.dirname(os.path.abspath(__file__)))
sys.path.insert(0, os.path.join(os.path.dirname(os.path.abspath(__file__)), "..", "tools"))
import C06 as P06  # noqa: E402  (mutant generator)
import codec  # noqa: E402
import common  # noqa: E402
import cppcommon as C  # noqa: E402
import cpprun  # noqa: E402
import schema as S  # noqa: E402
from checklib import Check  # noqa: E402


def main():
    chk = Check("C07")
    chk.build()
    rng = random.Random(chk.seed)
    quick = chk.tier == "quick"
    cases = C.cpp_schemas(chk.tier, chk.seed, 50 if quick else 150, k=1 if quick else 2, every=1 if quick else 4)
    corp = []
    for pid in ("C07", "C03", "C02", "C01"):
        for f, t, vs, j in codec.load_corpus(pid):
            if C.full_supported(t) and f not in [c[1] for c in corp]:
                corp.append(("corpus", f, t))
    cases = corp + cases
    jobs, pyres = C.python_encodings(cases, rng, 2)
    budget = 30 if quick else 50
    cj = []
    for j in jobs:
        r = pyres.get(j["id"], {})
        if "values" not in r:
            continue
        ops = []
        seen = set()
        for rv in r["values"]:
            for e, key in (("little", "<"), ("big", ">")):
                if key in rv and not rv[key].startswith("EXC:"):
                    for m in P06.mutants(bytes(bytearray.fromhex(rv[key])), key, rng, budget):
                        if (e, m) not in seen:
                            seen.add((e, m))
                            ops.append(["decode", e, m.hex()])
        if ops:
            cj.append({"id": j["id"], "schema": j["schema"], "text": j["text"], "root": j["root"], "ops": ops})
    out = cpprun.run_full(cj, sanitize=True, timeout=600)
    errors = {}
    outcomes = {}
    sample = None
    for j in cj:
        r = out.get(j["id"], {})
        if "ops" not in r:
            kind = list(r.keys())[0] if r else "missing"
            errors.setdefault(kind, []).append((j["id"], r.get(kind, "")))
            continue
        for op, o in zip(j["ops"], r["ops"]):
            chk.count()
            n = len(op[2]) // 2
            key = "crash" if "crash" in o else ("exception" if "exception" in o else ("true" if o.get("ok") else "false"))
            outcomes[key] = outcomes.get(key, 0) + 1
            chk.seen_class((cases[j["id"]][1], key, n), True)
            case = {"schema_text": j["text"], "schema": j["schema"], "root": j["root"], "label": cases[j["id"]][1],
                    "endianness": op[1], "data": op[2],
                    "cpp": {k: o.get(k) for k in ("ok", "size", "crash", "exception", "alloc_peak", "alloc_total", "exceptions")}}
            if "crash" in o:
                case["crash"] = o["crash"]
                chk.violation("crash-%d-%s" % (j["id"], op[2][:24]), dict(case, kind="decode of arbitrary bytes crashed / sanitizer report"))
            elif "exception" in o:
                chk.violation("exc-%d-%s" % (j["id"], op[2][:24]), dict(case, kind="decode threw %s instead of returning a boolean" % o["exception"]))
            elif o.get("alloc_peak", 0) > 65536 + 64 * n:
                chk.violation("alloc-%d-%s" % (j["id"], op[2][:24]), dict(case, kind="decode requested %d bytes for a %d byte input" % (o["alloc_peak"], n)))
            elif o.get("ok"):
                if o.get("size") != n or o.get("reenc") is None or len(o["reenc"]) // 2 != n:
                    chk.violation("exact-%d-%s" % (j["id"], op[2][:24]), dict(case, kind="accepted a %d byte input that re-encodes to %s bytes" % (n, o.get("size"))))
            if sample is None and o.get("ok") is False and n > 8:
                sample = {"schema": j["text"], "endianness": op[1], "data": op[2], "result": "false"}
    C.report_build_errors(chk, cases, errors)
    # the tie of the C07 theorems: the compiled decoder's verdict = the decoder model's verdict, evaluated inside Coq
    entries = []
    for j in cj:
        r = out.get(j["id"], {})
        if "ops" not in r:
            continue
        for op, o in zip(j["ops"], r["ops"]):
            if "crash" not in o and "exception" not in o and "ok" in o:
                entries.append((j["id"], len(entries), op[1], op[2], bool(o["ok"]), j))
    if quick and len(entries) > 6000:
        rng2 = random.Random(chk.seed + 7)
        entries = rng2.sample(entries, 6000)

    def ex(en, names):
        i, k, e, hx, ok, j = en
        return "(%d, %d, cpp_dec_case %s %s %s %s)" % (i, k, "LE" if e == "little" else "BE", S.to_coq(cases[i][2], names),
                                                       S.bytes_coq(bytes.fromhex(hx)), "true" if ok else "false")

    files = codec.write_case_files(common.scratch("c07"), "dec", entries, ex, chunk=300)
    byk = {en[1]: en for en in entries}
    for i, k, r in codec.eval_case_files(files):
        en = byk.get(k)
        case = {"schema_text": en[5]["text"], "schema": en[5]["schema"], "root": en[5]["root"], "endianness": en[2], "data": en[3],
                "compiled_decoder_returned": en[4], "model_result": r}
        if r[:1] == [98]:
            chk.violation("model-crash-%d-%d" % (i, k), dict(case, kind="the decoder model reaches an out-of-bounds load on this input (theorem C07_no_out_of_bounds_no_hang broken?)"))
        else:
            chk.violation("corr-%d-%d" % (i, k), dict(case, kind="correspondence broken: the compiled decoder returned %s where the decoder model CppFull.cpp_decode returns %s" % (en[4], bool(r[1:2] == [1]))),
                          note="no-failing-input-found")
    chk.coverage["coq_decode_verdicts"] = len(entries)
    chk.coverage["outcomes"] = outcomes
    chk.coverage["rule"] = ("malformed inputs as in C06 (every prefix, extensions, aligned 1/2/4/8-byte words replaced by boundary values, "
                            "bit flips, random bytes) derived from valid encodings, both byte orders, fed to the generated decode<E> "
                            "compiled with -fsanitize=address,undefined on exact-size heap buffers with a counting operator new. "
                            "Oracle: no sanitizer report/crash/exception; peak allocation <= 64 KiB + 64 x input size; when decode "
                            "returns true, get_byte_size() and the re-encoding have exactly the input's length; every verdict is also compared inside "
                            "Coq with the decoder model cpp_decode. "
                            "distinct_nontrivial = distinct (schema, outcome, input length).")
    if sample:
        chk.sample(sample)
    chk.assumptions += ["ASan/UBSan detect faults on the executions run; absence of a report is not a proof of memory safety"]
    return chk.finish(level="proof")


if __name__ == "__main__":
    sys.exit(main())
