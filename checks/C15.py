#!/venv/bin/python
"""C15 — definition order does not matter: prophyc's output is dependency-ordered and complete.

Input space: acyclic sets of isar definitions — constants (literals, expressions over other
constants, names of enumerators), enums (enumerator values that are literals, constant names or
enumerators of other enums), typedefs (of builtins, typedefs, structs, unions, enums), structs and
messages (members of typedef / enum / struct / union type, array sizes given by constants or
enumerators) and unions (arms of such types, discriminators given by constants or enumerators) —
in every document order that isar lets reach the model. Renderings of the same graph that are varied
on top: the expression form of constant / enumerator values and discriminators, the array form of
a size reference (fixed array, limited array = bound + size, size * size2 with the name in either
attribute, size expression) and of a member type reference (limited array of the type), and the
shape of the identifiers (plain, leading underscore).

For every input:
  (1) every definition appears exactly once in prophyc's node list, after everything it depends
      on (dependencies are computed here from the generated set, not by prophyc);
  (2) the generated Python module imports;
  (3) byte_size / alignment / kind / member paddings of every struct and union are the same for all
      orders of the same set.

Speed: the sets are first screened by a batch worker that calls prophyc.main and imports the
generated module in-process (a few ms per input). Every verdict is taken by the stand-alone
route (frontends.model_of + import in a fresh interpreter) on the smallest inputs of each
distinct failure signature; a sample of inputs the screen let through is re-run stand-alone too.
"""
import itertools
import json
import os
import random
import re
import subprocess
import sys

sys.path.insert(0, os.path.dirname(os.path.abspath(__file__)))
sys.path.insert(0, os.path.join(os.path.dirname(os.path.abspath(__file__)), "..", "tools"))
import common  # noqa: E402
import frontends as F  # noqa: E402
from checklib import Check  # noqa: E402

# kinds: Constant, Typedef, Enum, Struct, Union, Message — the order in which isar.py collects them
KINDS = "CTESUM"
PREFIX = {"C": "K", "T": "T", "E": "E", "S": "S", "U": "U", "M": "M"}
CLASS = {"C": "Constant", "T": "Typedef", "E": "Enum", "S": "Struct", "U": "Union", "M": "Struct"}
KIND_WORD = {"C": "constant", "T": "typedef", "E": "enum", "S": "struct", "U": "union", "M": "message"}

# which definition may refer to which, and how (flavour of the reference)
_STRUCT_REFS = {"T": ["type"], "E": ["type", "size"], "S": ["type"], "U": ["type"], "M": ["type"], "C": ["size"]}
FLAVOURS = {}
for _k, _v in (("C", {"C": ["expr"], "E": ["expr"]}), ("E", {"C": ["value"], "E": ["value"]}),
               ("T", {"T": ["type"], "S": ["type"], "U": ["type"], "E": ["type"], "M": ["type"]}),
               ("S", _STRUCT_REFS), ("M", _STRUCT_REFS),
               ("U", {"T": ["type"], "E": ["type", "disc"], "S": ["type"], "U": ["type"], "M": ["type"], "C": ["disc"]})):
    for _t, _f in _v.items():
        FLAVOURS[(_k, _t)] = _f

BUILTINS = ["u8", "u16", "u32", "u64", "i32", "r64", "i8", "r32"]
N_FORMS = 5
# array forms of a "size" reference (how the struct names the constant / enumerator that sizes its array):
#   0 fixed array             <dimension size="NAME"/>
#   1 limited array           <dimension isVariableSize="true" size="NAME"/>  (bound + size; a <message> drops the
#                             size of such an array, so there it is size="NAME" size2="2" instead); member type
#                             references of a struct become limited arrays of the type, too
#   2 name in size2           <dimension size="2" size2="NAME"/>
#   3 size expression         <dimension size="(NAME + 1)*2"/>
# (isar passes the size text through unchanged: no shiftLeft()/bitMaskOr() here)
N_AFORMS = 4
AFORM_WORD = ["size", "size of a limited array", "size2", "size expression"]
# identifier styles: 0 plain (K0, E1_A, S2); 1 leading underscore (_K0, _E1_A, _S2)
N_STYLES = 2
SYMBOL_FLAVOURS = ("expr", "value", "size", "disc")    # references written as a name inside an expression


# ------------------------------------------------------------------------------------------
# abstract definition sets
# ------------------------------------------------------------------------------------------

def dag_shapes(n, kinds=KINDS):
    """every (kinds, edges) with n definitions listed in a dependency order: edges[(i, j)] = flavour
    says that definition i refers to the earlier definition j. Listings that differ only by
    swapping adjacent unrelated definitions are the same graph: only the one with the kinds of
    such neighbours in KINDS order is produced (every graph keeps at least one listing)."""
    pairs = [(i, j) for i in range(n) for j in range(i)]
    for ks in itertools.product(kinds, repeat=n):
        opts = [[None] + FLAVOURS.get((ks[i], ks[j]), []) for i, j in pairs]
        for choice in itertools.product(*opts):
            edges = {p: f for p, f in zip(pairs, choice) if f}
            ok = True
            for i in range(n):
                if ks[i] == "T" and sum(1 for (a, _) in edges if a == i) > 1:
                    ok = False
                    break
            if ok:
                for i in range(n - 1):
                    if (i + 1, i) not in edges and KINDS.index(ks[i]) > KINDS.index(ks[i + 1]):
                        ok = False
                        break
            if ok:
                yield "".join(ks), edges


def random_shape(rng, n, pool="CCTEESSUM"):
    ks = [rng.choice(pool) for _ in range(n)]
    edges = {}
    density = rng.choice([0.25, 0.4, 0.6])
    for i in range(n):
        cands = [j for j in range(i) if (ks[i], ks[j]) in FLAVOURS]
        rng.shuffle(cands)
        if ks[i] == "T":
            if cands and rng.random() < 0.8:
                edges[(i, cands[0])] = "type"
            continue
        for j in cands[:4]:
            if rng.random() < density:
                edges[(i, j)] = rng.choice(FLAVOURS[(ks[i], ks[j])])
    return "".join(ks), edges


class DefSet(object):
    """renders (kinds, edges) into the argument lists of frontends.to_isar_constants and keeps the
    abstract description: names, dependencies, flavours"""

    def __init__(self, kinds, edges, form=0, rng=None, forms=None, aform=0, style=0, name_rng=None):
        self.allowed_forms = forms       # expression forms to choose from (None: all, see _expr)
        self.kinds = kinds
        self.edges = {(int(a), int(b)): f for (a, b), f in edges.items()}
        self.form = form
        self.aform = aform               # array form of size references (see N_AFORMS); rng: chosen per member
        self.rng = rng
        n = len(kinds)
        # identifier style: all names alike, or (name_rng) chosen per definition; enumerators take their enum's
        lead = ["_" if (name_rng.random() < 0.35 if name_rng is not None else style == 1) else "" for _ in kinds]
        self.names = [lead[i] + PREFIX[k] + str(i) for i, k in enumerate(kinds)]
        self.how = {}                    # (i, j) -> wording of a size reference (AFORM_WORD)
        self.env = {}                    # constant / enumerator name -> numeric value
        self.used = set()                # numeric values taken (keeps enumerators / discriminators distinct)
        self.members = {}                # enum index -> [enumerator names]
        self.dyn = [False] * n
        self.texts = [None] * n
        self.constants, self.enums, self.typedefs, self.structs, self.unions = [], [], [], [], []
        self.messages = []
        reach = set()                    # everything some union depends on (transitively) must stay fixed-size
        for i in range(n - 1, -1, -1):
            if kinds[i] == "U" or i in reach:
                reach.update(j for (a, j) in self.edges if a == i)
        self.union_reach = reach
        for i in range(n):
            getattr(self, "_def_" + kinds[i])(i)

    # -- helpers
    def deps_of(self, i):
        return sorted(j for (a, j) in self.edges if a == i)

    def deps(self):
        return {self.names[i]: [self.names[j] for j in self.deps_of(i)] for i in range(len(self.kinds))}

    def _pick(self, seq, salt):
        if self.rng is not None:
            return self.rng.choice(seq)
        return seq[salt % len(seq)]

    def _fresh(self):
        v = 1
        while v in self.used:
            v += 1
        self.used.add(v)
        return v

    def _ref_name(self, i, j):
        """how definition i names the constant / an enumerator of the enum j"""
        if self.kinds[j] == "C":
            return self.names[j]
        return self._pick(self.members[j], i + j)

    def _expr(self, i, terms, local, forms=None):
        """expression text over `terms`; unless it is a bare name its value is fresh: not in `local`
        (values already taken in the same enum / union) and not used anywhere else.
        forms: 0 bare name / a + b; 1 (a + b) * 2; 2 a*2 (no blanks); 3 shiftLeft(a, 1); 4 bitMaskOr(a, b)"""
        form = self.form if self.rng is None else self.rng.randrange(N_FORMS)
        for allowed in (self.allowed_forms, forms):
            if allowed is not None and form not in allowed:
                form = allowed[form % len(allowed)]
        a, rest = terms[0], terms[1:]
        if form == 0 and not rest and self.env[a] not in local:
            return a, self.env[a]
        tail = "".join(" + " + t for t in rest)
        tval = sum(self.env[t] for t in rest)
        if form == 0:
            core, val = a + tail, self.env[a] + tval
        elif form == 1:
            core, val = "(%s) * 2" % (a + tail), (self.env[a] + tval) * 2
        elif form == 2:
            core, val = "%s*2" % a + tail, self.env[a] * 2 + tval
        elif form == 3:
            core, val = "shiftLeft(%s, 1)" % a + tail, (self.env[a] << 1) + tval
        else:
            b = rest[0] if rest else "16"
            bv = self.env[b] if rest else 16
            core = "bitMaskOr(%s, %s)" % (a, b) + "".join(" + " + t for t in rest[1:])
            val = (self.env[a] | bv) + sum(self.env[t] for t in rest[1:])
        k = 1
        while val + k in self.used or val + k in local:
            k += 1
        self.used.add(val + k)
        return "%s + %d" % (core, k), val + k

    # -- one renderer per kind
    def _def_C(self, i):
        terms = [self._ref_name(i, j) for j in self.deps_of(i)]
        if terms:
            text, val = self._expr(i, terms, set())
        else:
            val = self._fresh()
            text = str(val)
        self.env[self.names[i]] = val
        self.constants.append((self.names[i], text))
        self.texts[i] = "const %s = %s" % (self.names[i], text)

    def _def_E(self, i):
        ms = []
        local = set()
        for n, j in enumerate(self.deps_of(i)):
            text, val = self._expr(i, [self._ref_name(i, j)], local)
            ms.append(("%s_%s" % (self.names[i], "ABCDEFGHIJKL"[n]), text, val))
            local.add(val)
        v = self._fresh()
        ms.append(("%s_Z" % self.names[i], str(v), v))
        if self.rng is not None and self.rng.random() < 0.5:
            ms.insert(0, ms.pop())
        for mn, _, val in ms:
            self.env[mn] = val
        self.members[i] = [mn for mn, _, _ in ms]
        self.enums.append((self.names[i], [(mn, text) for mn, text, _ in ms]))
        self.texts[i] = "enum %s { %s }" % (self.names[i], ", ".join("%s = %s" % (mn, t) for mn, t, _ in ms))

    def _def_T(self, i):
        ds = self.deps_of(i)
        if ds:
            target = self.names[ds[0]]
            self.dyn[i] = self.dyn[ds[0]]
            self.typedefs.append((self.names[i], target))
        else:
            target = self._pick(BUILTINS, i)
            self.typedefs.append((self.names[i], ("prim", target) if self._pick([0, 1], i // 2) else target))
        self.texts[i] = "typedef %s %s" % (target, self.names[i])

    def _struct_members(self, i):
        may_dyn = self.rng is not None and i not in self.union_reach
        ms = [("a", self._pick(BUILTINS[:6], i), None)]
        for j in self.deps_of(i):
            fl = self.edges[(i, j)]
            if fl == "size":
                name = self._ref_name(i, j)
                aform, lit2 = self.aform, False
                if self.rng is not None:
                    r = self.rng.random()
                    aform = 0 if r < 0.6 else 1 if r < 0.8 else 2 if r < 0.9 else 3
                    lit2 = r < 0.1
                if aform == 1 and self.kinds[i] == "M":      # (<message> drops the limit, and the name with it)
                    aform, lit2 = 0, True
                if aform == 1:
                    dim = ("limited", name)
                elif aform == 2:
                    dim = ("fixed", "2", name)
                elif aform == 3:
                    dim = ("fixed", "(%s + 1)*2" % name)
                else:
                    dim = ("fixed", name, "2") if lit2 else ("fixed", name)
                self.how[(i, j)] = AFORM_WORD[aform]
                ms.append(("n%d" % j, self._pick(["u8", "u16", "u32"], i + j), dim))
            elif self.dyn[j]:
                ms.append(("m%d" % j, self.names[j], self._pick([None, "dyn"], i + j)))
                self.dyn[i] = True
            else:
                forms = [None, "opt", ("fixed", "2")] + (["dyn", ("limited", "3")] if may_dyn else [])
                dim = self._pick(forms, i + j)
                if self.rng is None and self.aform == 1 and self.kinds[i] == "S":
                    dim = ("limited", "3")
                if dim == "dyn" or (dim and dim[0] == "limited" and self.kinds[i] == "M"):
                    self.dyn[i] = True
                ms.append(("m%d" % j, self.names[j], dim))
        if may_dyn and self.rng.random() < 0.25:
            ms.append(("tail", self.rng.choice(["u8", "u64"]), "dyn"))
            self.dyn[i] = True
        if self.rng is not None and self.rng.random() < 0.5:
            ms.append(("z", self.rng.choice(BUILTINS[:6]), None))
        return ms

    def _def_S(self, i):
        ms = self._struct_members(i)
        self.structs.append((self.names[i], ms))
        if self.kinds[i] == "M":
            self.messages.append(self.names[i])
        self.texts[i] = "%s %s { %s }" % (KIND_WORD[self.kinds[i]], self.names[i], "; ".join(
            "%s %s%s" % (tn, fn, "" if dim is None else " " + json.dumps(dim)) for fn, tn, dim in ms))

    _def_M = _def_S

    def _def_U(self, i):
        arms = []
        local = set()
        plain = []
        for j in self.deps_of(i):
            if self.edges[(i, j)] == "disc":
                # isar passes the discriminator text through unchanged: no shiftLeft()/bitMaskOr() here
                text, val = self._expr(i, [self._ref_name(i, j)], local, forms=(0, 1, 2))
                local.add(val)
                arms.append((text, "d%d" % j, self._pick(["u16", "u8", "u64"], i + j)))
            else:
                plain.append(("m%d" % j, self.names[j]))
        plain.append(("a", self._pick(BUILTINS[:6], i)))
        for an, tn in plain:
            v = self._fresh()
            while v in local:
                v = self._fresh()
            local.add(v)
            arms.append((str(v), an, tn))
        if self.rng is not None:
            self.rng.shuffle(arms)
        self.unions.append((self.names[i], arms))
        self.texts[i] = "union %s { %s }" % (self.names[i], "; ".join("%s: %s %s" % (a[0], a[2], a[1]) for a in arms))

    # -- output
    def xml(self, order):
        x = F.to_isar_constants(constants=self.constants, enums=self.enums, typedefs=self.typedefs,
                                structs=self.structs, unions=self.unions, order=order)
        for m in self.messages:
            start = x.find('<struct name="%s">' % m)
            end = x.find("</struct>", start)
            if start >= 0 and end >= 0:
                x = x[:start] + '<message name="%s">' % m + x[start + len('<struct name="%s">' % m):end] + "</message>" + \
                    x[end + len("</struct>"):]
        return x

    def describe(self):
        return [{"kind": KIND_WORD[k], "name": self.names[i], "deps": [self.names[j] for j in self.deps_of(i)],
                 "refs": {self.names[j]: self.how.get((i, j), self.edges[(i, j)]) for j in self.deps_of(i)},
                 "text": self.texts[i]}
                for i, k in enumerate(self.kinds)]

    def orders_exhaustive(self):
        """every document order that differs for isar (which regroups by element kind): all
        permutations within each kind, the kinds in isar's collection order; plus one order that
        interleaves the kinds back to front"""
        by_kind = [[self.names[i] for i in range(len(self.kinds)) if self.kinds[i] == k] for k in KINDS]
        out = [list(itertools.chain(*combo)) for combo in itertools.product(*[list(itertools.permutations(g)) for g in by_kind])]
        rev = list(reversed(self.names))
        if rev not in out:
            out.append(rev)
        return out


# ------------------------------------------------------------------------------------------
# judging one group (= one definition set in several orders)
# ------------------------------------------------------------------------------------------

def kinds_of(definitions):
    return {d["name"]: d["kind"] for d in definitions}


def generic(text, definitions):
    """replace generated names by the kind of thing they name (for failure signatures)"""
    kd = kinds_of(definitions)

    def sub(m):
        w = m.group(0)
        if w in kd:
            return "<%s>" % kd[w]
        base = w.rsplit("_", 1)[0]
        if base in kd and kd[base] == "enum":
            return "<enumerator>"
        return w
    return re.sub(r"[A-Za-z_]\w*", sub, text)


def judge_run(definitions, run):
    """failures of one compiled input -> [(kind, signature, detail)]. `run` is
    {"nodes": [node dict...]} or {"error", "message"}, plus "import": None | text, "stderr"."""
    out = []
    if "error" in run:
        msg = "%s: %s" % (run["error"], run.get("message", ""))
        return [("prophyc fails on an acyclic definition set", generic(msg, definitions)[:160], msg[:400])]
    kd = kinds_of(definitions)
    pos = {}
    count = {}
    for p, n in enumerate(run["nodes"]):
        count[n["name"]] = count.get(n["name"], 0) + 1
        pos.setdefault(n["name"], p)
        if n["name"] not in kd:
            out.append(("output has a node that was not defined", n["class"], "extra %s %s" % (n["class"], n["name"])))
        elif n["class"] != CLASS_OF[kd[n["name"]]]:
            out.append(("definition comes out as another class", "%s as %s" % (kd[n["name"]], n["class"]),
                        "%s %s is a %s in the output" % (kd[n["name"]], n["name"], n["class"])))
    for d in definitions:
        c = count.get(d["name"], 0)
        if c == 0:
            out.append(("definition missing in the output", d["kind"], "missing %s %s" % (d["kind"], d["name"])))
        elif c > 1:
            out.append(("definition emitted more than once", d["kind"], "%s %s appears %d times" % (d["kind"], d["name"], c)))
    for d in definitions:
        for dep in d["deps"]:
            if d["name"] in pos and dep in pos and pos[dep] > pos[d["name"]]:
                fl = d.get("refs", {}).get(dep, "?")
                note = ""
                if d["kind"] == "constant" and kd[dep] == "constant" and re.search(r"[\w)][*/|<>]|[*/|<>][\w(]", d.get("text", "")):
                    note = ", operator written without blanks"
                if dep.startswith("_") and fl != "type":
                    note += ", name starts with an underscore"
                out.append((MISORDER,
                            "%s before the %s it refers to (as %s%s)" % (d["kind"], kd[dep], fl, note),
                            "%s %s is emitted at position %d, before %s %s (position %d) which it uses as %s; output order: %s" % (
                                d["kind"], d["name"], pos[d["name"]], kd[dep], dep, pos[dep], fl,
                                " ".join(n["name"] for n in run["nodes"]))))
    imp = run.get("import")
    if imp:
        out.append((IMPORT, generic(imp, definitions)[:160], imp[:400]))
    return out


CLASS_OF = {KIND_WORD[k]: CLASS[k] for k in KINDS}


MISORDER = "definition emitted before one it depends on"
IMPORT = "generated Python module fails to import"
LAYOUT = "layout differs between two orders of the same definitions"


def judge_group(definitions, runs):
    """runs in the order of the group's xmls -> [(run index, kind, signature, detail)].
    Root causes only: when an input has a misordered definition, its import failure and its layout
    difference are attached to the misorder report as consequences instead of being reported on
    their own (likewise a layout difference whose reference order is misordered is not reported)."""
    out = []
    ref = None
    kd = kinds_of(definitions)
    misordered = set()
    for k, run in enumerate(runs):
        fails = judge_run(definitions, run)
        cons = []
        if any(f[0] == MISORDER for f in fails):
            misordered.add(k)
            cons = ["%s (%s)" % (f[0], f[2]) for f in fails if f[0] == IMPORT]
            fails = [f for f in fails if f[0] != IMPORT]
        diffs = None
        if "nodes" in run:
            st = F.structs_of({"files": {"m": run["nodes"]}})
            if ref is None:
                ref = (k, st)
            else:
                diffs = F.compare_layout(ref[1], st)
        if diffs:
            d0 = diffs[0]
            sig = "%s of a %s: %s" % (d0[0], kd.get(d0[1], "?"), d0[2] if d0[0] == "layout" and d0[2] in (
                "byte_size", "alignment", "kind") else "member")
            text = "compared with order #%d: %s" % (ref[0], json.dumps(diffs[:6]))
            if k in misordered:
                cons.append("%s (%s)" % (LAYOUT, text))
            elif ref[0] not in misordered:
                fails.append((LAYOUT, sig, text))
        for kind, sig, detail in fails:
            if kind == MISORDER and cons:
                detail += "; consequences: " + "; ".join(cons)
            out.append((k, kind, sig, detail))
    return out


# ------------------------------------------------------------------------------------------
# running prophyc: batch screen (in-process) and stand-alone route
# ------------------------------------------------------------------------------------------

def build_group(spec):
    """spec -> group {"label", "definitions", "xmls", "orders"}; deterministic"""
    if "xmls" in spec:
        return spec
    edges = {(i, j): f for i, j, f in spec["edges"]}
    if spec.get("seed") is None:
        ds = DefSet(spec["kinds"], edges, form=spec.get("form", 0), aform=spec.get("aform", 0), style=spec.get("style", 0))
        orders = ds.orders_exhaustive()
    else:
        ds = DefSet(spec["kinds"], edges, rng=random.Random(spec["seed"]), name_rng=random.Random(spec["seed"] + 2))
        orng = random.Random(spec["seed"] + 1)
        orders = [list(ds.names)]
        for _ in range(spec.get("norders", 6)):
            o = list(ds.names)
            orng.shuffle(o)
            orders.append(o)
    return {"label": spec["label"], "definitions": ds.describe(), "xmls": [ds.xml(o) for o in orders], "orders": orders}


def worker_main():
    """`C15.py --worker ROOT`: specs on stdin -> per batch summary on stdout. Everything runs
    in-process: prophyc.main, import of the generated module, judge_group."""
    import contextlib
    import importlib.util
    import io
    import shutil
    import prophyc
    import prophyc.model as M

    def node(n):
        d = {"class": type(n).__name__, "name": n.name}
        if isinstance(n, M.Struct):
            d.update(byte_size=n.byte_size, alignment=n.alignment, kind=n.kind)
            d["members"] = [[m.name, m.type_name, m.bound, m.size, m.greedy, m.optional, m.numeric_size,
                             m.byte_size, m.alignment, m.padding, m.kind] for m in n.members]
        elif isinstance(n, M.Union):
            d.update(byte_size=n.byte_size, alignment=n.alignment, kind=n.kind)
            d["members"] = [[m.name, m.type_name, m.discriminator, m.byte_size, m.alignment] for m in n.members]
        return d

    root = sys.argv[sys.argv.index("--worker") + 1]
    specs = json.load(sys.stdin)
    summary = {"inputs": 0, "failing_inputs": 0, "sigs": {}, "clean": [], "groups": 0}
    d = os.path.join(root, "w%d" % os.getpid())     # one directory per worker, m.xml / m.py overwritten per input
    os.makedirs(d)
    for spec in specs:
        g = build_group(spec)
        runs = []
        for k, xml in enumerate(g["xmls"]):
            if os.path.exists(os.path.join(d, "m.py")):
                os.unlink(os.path.join(d, "m.py"))
            with open(os.path.join(d, "m.xml"), "w") as f:
                f.write(xml)
            r = {}
            err = io.StringIO()
            try:
                with contextlib.redirect_stderr(err), contextlib.redirect_stdout(io.StringIO()):
                    res = prophyc.main(["--isar", "--python_out", d, os.path.join(d, "m.xml")])
                r["nodes"] = json.loads(json.dumps([node(n) for n in res["m"]], default=str))
            except BaseException as e:  # noqa
                r["error"] = type(e).__name__
                r["message"] = str(e)[-300:]
            r["stderr"] = err.getvalue()[-300:]
            if "nodes" in r:
                try:
                    sp = importlib.util.spec_from_file_location("gen_%s_%d" % (spec["id"], k), os.path.join(d, "m.py"))
                    mod = importlib.util.module_from_spec(sp)
                    sp.loader.exec_module(mod)
                    r["import"] = None
                except BaseException as e:  # noqa
                    r["import"] = "%s: %s" % (type(e).__name__, str(e)[-200:])
            runs.append(r)
        summary["groups"] += 1
        summary["inputs"] += len(runs)
        fails = judge_group(g["definitions"], runs)
        summary["failing_inputs"] += len(set(k for k, _, _, _ in fails))
        if not fails:
            summary["clean"].append(spec["id"])
        for k, kind, sig, detail in fails:
            e = summary["sigs"].setdefault(kind + " | " + sig, {"count": 0, "smallest": []})
            e["count"] += 1
            e["smallest"] = sorted(e["smallest"] + [[len(g["definitions"]), len(g["xmls"][k]), spec["id"], k]])[:3]
    shutil.rmtree(d, ignore_errors=True)
    json.dump(summary, sys.stdout)
    return 0


def batch_screen(specs, root, batch=60, timeout=900):
    """-> (merged summary, [specs whose worker died])"""
    env = common.impl_env()
    batches = [specs[i:i + batch] for i in range(0, len(specs), batch)]

    def do(b):
        try:
            p = subprocess.run([common.PY, os.path.abspath(__file__), "--worker", root], input=json.dumps(b),
                               capture_output=True, text=True, timeout=timeout, env=env)
            return json.loads(p.stdout), []
        except (subprocess.TimeoutExpired, ValueError, OSError):
            return None, b
    total = {"inputs": 0, "failing_inputs": 0, "sigs": {}, "clean": [], "groups": 0}
    dead = []
    for s, lost in F.pmap(do, batches):
        dead += lost
        if s is None:
            continue
        for key in ("inputs", "failing_inputs", "groups"):
            total[key] += s[key]
        total["clean"] += s["clean"]
        for sig, e in s["sigs"].items():
            t = total["sigs"].setdefault(sig, {"count": 0, "smallest": []})
            t["count"] += e["count"]
            t["smallest"] = sorted(t["smallest"] + e["smallest"])[:3]
    return total, dead


def standalone_run(xml, root, tag):
    """one input through frontends.model_of (+ --python_out) and an import in a fresh interpreter"""
    d = os.path.join(root, "s_%s" % tag)
    os.makedirs(d, exist_ok=True)
    F.write_text(os.path.join(d, "m.xml"), xml)
    m = F.model_of(["m.xml"], ["--isar", "--python_out", "."], cwd=d, timeout=30)
    run = {"stderr": m.get("stderr", "")[-300:]}
    if "error" in m:
        run["error"], run["message"] = m["error"], m.get("message", "")[-300:]
    else:
        run["nodes"] = m["files"].get("m", [])
        code = ("import importlib.util\nspec = importlib.util.spec_from_file_location('gen_m', 'm.py')\n"
                "mod = importlib.util.module_from_spec(spec)\nspec.loader.exec_module(mod)\n")
        try:
            p = subprocess.run([common.PY, "-c", code], cwd=d, env=common.impl_env(), capture_output=True, text=True, timeout=30)
            lines = [ln for ln in p.stderr.strip().split("\n") if ln.strip()]
            run["import"] = None if p.returncode == 0 else (lines[-1] if lines else "exit code %d" % p.returncode)
        except subprocess.TimeoutExpired:
            run["import"] = "Timeout: import did not finish within 30 s"
    F._rmtree(d)
    return run


def standalone_group(definitions, xmls, root, tag):
    runs = [standalone_run(x, root, "%s_%d" % (tag, k)) for k, x in enumerate(xmls)]
    return judge_group(definitions, runs), runs


# ------------------------------------------------------------------------------------------

def load_corpus():
    d = os.path.join(common.VERIF, "corpus", "C15")
    out = []
    if os.path.isdir(d):
        for f in sorted(os.listdir(d)):
            if f.endswith(".json"):
                with open(os.path.join(d, f)) as fh:
                    j = json.load(fh)
                out.append({"label": "corpus:" + f, "definitions": j["definitions"], "xmls": j["xmls"],
                            "orders": j.get("orders", [None] * len(j["xmls"]))})
    return out


def make_case(g, k, kind, detail, ref_k=0):
    case = {"kind": kind, "xml": g["xmls"][k], "order": g["orders"][k], "definitions": g["definitions"],
            "detail": detail, "label": g["label"]}
    if kind == LAYOUT:
        case["reference_xml"] = g["xmls"][ref_k]
        case["reference_order"] = g["orders"][ref_k]
    return case


def replay(chk, path):
    with open(path) as f:
        case = json.load(f)
    root = common.scratch("c15r")
    xmls = ([case["reference_xml"]] if case.get("reference_xml") else []) + [case["xml"]]
    fails, runs = standalone_group(case["definitions"], xmls, root, "r")
    chk.count(len(xmls))
    for k, kind, sig, detail in fails:
        if kind == case["kind"] and sig == case.get("signature", sig):
            new = dict(case)
            new["detail"] = detail
            chk.violation(os.path.splitext(os.path.basename(path))[0], new, "still fails: %s" % detail[:200])
            break
    else:
        print("replay: the recorded failure (%s) does not occur any more%s" % (
            case["kind"], "; other failures: %s" % [f[1] for f in fails] if fails else ""))
    return chk.finish(level="exploration")


def main():
    chk = Check("C15")
    chk.build()
    if chk.replay_mode:
        return replay(chk, chk.replay_mode)
    rng = random.Random(chk.seed)
    quick = chk.tier == "quick"
    nmax = 4 if quick else 5
    mmax = 3 if quick else 4
    vmax = 3 if quick else 4          # array forms / identifier styles are varied up to this many definitions
    n_rand = 60 if quick else 600
    corpus = load_corpus()
    counts = {"exhaustive": 0, "random": 0, "corpus": 0, "variants": 0}

    def cross_kind(ks, edges):
        return any(ks[i] != ks[j] for (i, j) in edges)

    def stream():
        """(spec, class, nontrivial) of every definition set, smallest first"""
        # (a) every DAG shape over few definitions, every order isar lets vary
        for n in range(1, nmax + 1):
            for ks, edges in dag_shapes(n, KINDS if n <= mmax else KINDS[:5]):
                forms = range(N_FORMS) if n <= 2 and any(f in ("expr", "value", "disc") for f in edges.values()) else [0]
                el = [[i, j, f] for (i, j), f in sorted(edges.items())]
                variants = [(form, 0, 0) for form in forms]
                if n <= vmax:
                    # the same graph with the other array forms (where a struct has an array size / a member type
                    # to write differently) and with the other identifier styles (where a name is used in an expression)
                    if any(f == "size" for f in edges.values()):
                        variants += [(0, a, 0) for a in range(1, N_AFORMS)]
                    elif any(ks[i] == "S" for (i, _) in edges):
                        variants += [(0, 1, 0)]
                    if any(f in SYMBOL_FLAVOURS for f in edges.values()):
                        variants += [(form, 0, s) for s in range(1, N_STYLES) for form in forms]
                        if any(f == "size" for f in edges.values()):
                            variants += [(0, 1, s) for s in range(1, N_STYLES)]
                for form, aform, style in variants:
                    counts["exhaustive"] += 1
                    counts["variants"] += 1 if (aform or style) else 0
                    yield ({"label": "dag:%s:%s:f%d%s%s" % (ks, ",".join("%d>%d%s" % (i, j, f[0]) for i, j, f in el), form,
                                                            ":a%d" % aform if aform else "", ":s%d" % style if style else ""),
                            "kinds": ks, "edges": el, "form": form, "aform": aform, "style": style},
                           ("dag", "".join(sorted(ks)), tuple(sorted((ks[i], ks[j], f) for i, j, f in el)), aform, style),
                           cross_kind(ks, edges))
        # (b) random larger sets: the dependency order itself + 6 random document permutations
        for r in range(n_rand):
            ks, edges = random_shape(rng, rng.randint(6, 12))
            el = [[i, j, f] for (i, j), f in sorted(edges.items())]
            counts["random"] += 1
            yield ({"label": "random:%d:%s" % (r, ks), "kinds": ks, "edges": el, "seed": rng.getrandbits(30), "norders": 6},
                   ("random", "".join(sorted(ks)), len(el)), cross_kind(ks, edges))
        # (c) corpus
        for g in corpus:
            counts["corpus"] += 1
            yield g, ("corpus", g["label"]), True

    root = common.scratch("c15")
    total = {"inputs": 0, "failing_inputs": 0, "sigs": {}, "clean": [], "groups": 0}
    specs = {}          # id -> spec, only those needed after the screen (the others are dropped chunk by chunk)
    todo = {}
    n_dead = 0
    n_specs = 0
    srng = random.Random(chk.seed + 1)

    def flush(chunk):
        srng.shuffle(chunk)                        # spread the expensive groups over the batches
        part, dead = batch_screen(chunk, root)
        by_id = {s["id"]: s for s in chunk}
        for key in ("inputs", "failing_inputs", "groups"):
            total[key] += part[key]
        for sig, e in part["sigs"].items():
            t = total["sigs"].setdefault(sig, {"count": 0, "smallest": []})
            t["count"] += e["count"]
            t["smallest"] = sorted(t["smallest"] + e["smallest"])[:3]
            for _, _, gid, _ in e["smallest"]:
                specs[gid] = by_id[gid]
        # stand-alone later: groups whose worker died, a sample of the clean groups, the corpus
        for s in dead:
            specs[s["id"]] = s
            todo.setdefault(s["id"], None)
        clean = sorted(part["clean"])
        for gid in srng.sample(clean, min(len(clean), 40 if quick else 12)) + [s["id"] for s in chunk if "xmls" in s]:
            specs[gid] = by_id[gid]
            todo.setdefault(gid, None)
        return len(dead)

    chunk = []
    for spec, cls, nontrivial in stream():
        spec["id"] = n_specs
        n_specs += 1
        chk.seen_class(cls, nontrivial)
        chunk.append(spec)
        if len(chunk) >= 20000:
            n_dead += flush(chunk)
            chunk = []
    if chunk:
        n_dead += flush(chunk)
    n_exh = counts["exhaustive"]
    by_sig = total["sigs"]
    # stand-alone verdicts: per signature its three smallest inputs (plus what flush() queued)
    for sig, e in by_sig.items():
        for _, _, gid, k in e["smallest"]:
            if todo.get(gid, 0) is not None:
                todo.setdefault(gid, set()).add(k)

    def confirm(item):
        gid, ks = item
        g = build_group(specs[gid])
        idx = sorted(set(ks) | {0}) if ks is not None else list(range(len(g["xmls"])))   # order #0: layout reference
        fails, _ = standalone_group(g["definitions"], [g["xmls"][k] for k in idx], root, "g%d" % gid)
        return gid, len(idx), [(idx[k], kind, sig, detail) for k, kind, sig, detail in fails]

    confirmed = {}
    standalone_inputs = 0
    for gid, n, fails in F.pmap(confirm, sorted(todo.items(), key=lambda kv: kv[0])):
        standalone_inputs += n
        g = None
        for k, kind, sig, detail in fails:
            g = g or build_group(specs[gid])
            confirmed.setdefault(kind + " | " + sig, []).append((len(g["definitions"]), len(g["xmls"][k]), gid, k, kind, sig, detail))
    screen_only = sorted(set(by_sig) - set(confirmed))
    missed_by_screen = sorted(set(confirmed) - set(by_sig))

    distinct = []
    for key in sorted(confirmed, key=lambda s: min(confirmed[s])[:2] + (s,)):
        _, _, gid, k, kind, sig, detail = min(confirmed[key])
        occ = by_sig.get(key, {}).get("count") or len(confirmed[key])
        g = build_group(specs[gid])
        case = make_case(g, k, kind, detail)
        case["signature"] = sig
        case["occurrences"] = occ
        distinct.append((kind, sig, occ, g["label"]))
        name = re.sub(r"[^a-z0-9]+", "-", (kind + " " + sig).lower())[:90].strip("-")
        chk.violation(name, case, "%s [%s] x%d: %s" % (kind, sig, occ, detail[:160]))

    n_inputs = total["inputs"]
    chk.count(n_inputs)
    chk.coverage["distinct_failures"] = [{"kind": kind, "signature": sig, "inputs": occ, "smallest": label}
                                         for kind, sig, occ, label in distinct]
    chk.coverage["definition_sets"] = {"exhaustive_dag_shapes": n_exh, "max_definitions_exhaustive": nmax,
                                       "random_sets": n_rand, "corpus": len(corpus)}
    chk.coverage["inputs"] = n_inputs
    chk.coverage["failing_inputs_total"] = total["failing_inputs"]
    chk.coverage["failing_by_signature"] = {k: v["count"] for k, v in sorted(by_sig.items())}
    chk.coverage["standalone_inputs"] = standalone_inputs
    chk.coverage["screen_only_failures_not_confirmed_standalone"] = screen_only
    chk.coverage["standalone_failures_missed_by_screen"] = missed_by_screen
    chk.coverage["groups_whose_screen_worker_died"] = n_dead
    chk.coverage["rule"] = (
        "isar definition sets: (a) every acyclic reference graph over <= %d definitions of kinds constant, typedef, enum, struct, "
        "union (and message up to %d), each edge in every flavour the kinds admit (constant expression naming a constant or an "
        "enumerator; enumerator value naming a constant or another enum's enumerator; typedef of typedef/struct/union/enum; "
        "member or arm of typedef/enum/struct/union type; array size or union discriminator given by a constant or an "
        "enumerator), expression forms {bare name, a + b, (a + b) * 2, a*2 without blanks, shiftLeft(), bitMaskOr()} for <= 2 "
        "definitions; for <= %d definitions each graph also with the array sizes written as limited array (bound + size; "
        "member types as limited arrays of the type), as size2 beside a literal size, as a size expression, and with all "
        "identifiers starting with an underscore (%d such renderings); in every permutation within each element kind (isar regroups by kind) plus one interleaved reversed order; "
        "(b) %d random sets of 6-12 definitions (also dynamic structs, limited arrays, size2, size expressions, a third of the "
        "definitions with a leading underscore) in the dependency order and 6 random "
        "document permutations; (c) corpus/C15. Oracle per input: each definition exactly once and after all definitions it "
        "refers to (dependencies computed by the generator), generated Python module imports, struct/union layout equal to "
        "that of the first order of the same set. Screen in-process, verdicts through frontends.model_of + a fresh interpreter. "
        "sack is not exercised (C++ requires declaration before use, so its definition order cannot be permuted freely)."
        % (nmax, mmax, vmax, counts["variants"], n_rand))
    for spec in specs.values():
        if spec["label"].startswith("random") or len(spec.get("kinds", "")) >= 4:
            g = build_group(spec)
            chk.sample({"definitions": [d["text"] for d in g["definitions"]], "order": g["orders"][1], "xml": g["xmls"][1]})
            break
    if screen_only:
        print("note: failures seen only by the in-process screen (not reproduced stand-alone): %s" % screen_only)
    print("C15: %d definition sets, %d inputs, %d failing inputs, %d distinct signatures (%d confirmed stand-alone), %d stand-alone inputs" % (
        n_specs, n_inputs, total["failing_inputs"], len(by_sig), len(confirmed), standalone_inputs))
    for kind, sig, occ, label in distinct:
        print("  - %s [%s]: %d inputs; smallest: %s" % (kind, sig, occ, label))
    chk.assumptions += ["dependencies of a definition = the names the generator wrote into it (types, constants, enumerators' enums)",
                        "CPython importlib / xml.etree are trusted"]
    # the sort itself: theorem C15_sorted_complete about the Coq model PcSort, tied to model.topological_sort here
    import sortcorr
    sortcorr.run(chk, 400 if chk.tier == 'quick' else 8000, 3)
    chk.assumptions += ['the theorem is about the sort given complete dependency lists; that dependencies() is complete (every name a definition mentions) and that the generated module imports is decided by the permutation run']
    return chk.finish(level="proof")


if __name__ == "__main__":
    sys.exit(worker_main() if "--worker" in sys.argv else main())
