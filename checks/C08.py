#!/venv/bin/python
"""C08 — raw C++ struct layout coincides with the wire layout."""
import os
import random
import sys

sys.path.insert(0, os.path.dirname(os.path.abspath(__file__)))
sys.path.insert(0, os.path.join(os.path.dirname(os.path.abspath(__file__)), "..", "tools"))
import codec  # noqa: E402
import common  # noqa: E402
import cppcommon as C  # noqa: E402
import cpprun  # noqa: E402
import schema as S  # noqa: E402
from checklib import Check  # noqa: E402


def observed_triples(d, structs):
    """(part, offset, value offset) per member of declaration d from the offsetof table"""
    name = d[1]
    if d[0] == "union":
        st = structs.get(name)
        if st is None:
            return None, None
        arms = [st["members"].get(an) for _, an, _ in d[2]]
        if st["members"].get("discriminator") is None or any(a is None for a in arms) or len(set(arms)) != 1:
            return None, st.get("sizeof")
        return [(0, st["members"]["discriminator"], arms[0])], st.get("sizeof")
    out = []
    part = 0
    for fname, k, ft in d[2]:
        qn = name if part == 0 else "%s::part%d" % (name, part + 1)
        st = structs.get(qn)
        if st is None:
            return None, None
        m = st["members"]
        if k[0] == "opt":
            if "has_" + fname not in m or fname not in m:
                return None, None
            out.append((part, m["has_" + fname], m[fname]))
        else:
            if fname not in m:
                return None, None
            out.append((part, m[fname], -1))
        if k[0] in ("bound", "greedy") or (k[0] == "plain" and S.stiffness(ft) >= 1):
            part += 1
    return out, structs.get(name, {}).get("sizeof")


def layout_pass(chk, cases, prefix=""):
    """compile the generated raw header of every case and compare offsetof/sizeof inside Coq (raw_case)"""
    cj = [{"id": i, "schema": t, "text": S.to_prophy(t), "root": t[1], "ops": [["layout"]]} for i, (_, _, t) in enumerate(cases)]
    out = cpprun.run_raw(cj, timeout=300)
    entries = []
    errors = {}
    for j in cj:
        r = out.get(j["id"], {})
        if "ops" not in r or "structs" not in r["ops"][0]:
            kind = list(r.keys())[0] if r else "missing"
            errors.setdefault(kind, []).append((j["id"], str(r.get(kind, r))[:300]))
            continue
        structs = r["ops"][0]["structs"]
        for d in S.decls(cases[j["id"]][2]):
            if d[0] in ("struct", "union"):
                chk.count()
                chk.seen_class(tuple((k[0], ft[0], ft[1] if ft[0] == "scalar" else "") for _, k, ft in d[2]) if d[0] == "struct" else ("union", len(d[2])),
                               len(d[2]) > 1)
                tr, sz = observed_triples(d, structs)
                entries.append((j["id"], d, tr, sz))
    C.report_build_errors(chk, cases, errors)

    def ex(en, names):
        i, d, tr, sz = en
        tt = S.to_coq(d, names)
        if tr is None:
            return "(%d, 0, [87])" % i
        trs = "[%s]" % "; ".join("(%s, %s, %s)" % (S.zlit(a), S.zlit(b), S.zlit(c)) for a, b, c in tr)
        return "(%d, 0, raw_case %s %s %s)" % (i, tt, trs, S.zlit(sz if sz is not None else -1))

    work = common.scratch("c08")
    files = codec.write_case_files(work, "raw", entries, ex)
    bad = codec.eval_case_files(files)
    seen = set()
    for i, _, r in bad:
        for en in entries:
            if en[0] == i and (i, en[1][1]) not in seen:
                pass
        key = (i, tuple(r[:6]))
        if key in seen:
            continue
        seen.add(key)
        stream, label, t = cases[i]
        if r[:1] == [89]:
            # the compiled header agrees with the spec but not with the generator model the C08 theorem is
            # about: the tie of the theorem to the code is broken, the property itself was not seen to fail
            chk.violation(prefix + "corr-%d" % i, {"kind": "correspondence broken: PcModel.pc_raw_layout (theorem C08_raw_member_offsets) no longer "
                                                  "describes the generated header although the header still matches the wire layout",
                                          "label": label, "schema_text": S.to_prophy(t), "schema": t, "result": r[:10]},
                          note="no-failing-input-found")
            continue
        chk.violation(prefix + "raw-%d" % i, {"kind": "a member of the generated raw struct is not at its wire offset, or sizeof of a fixed type is not its wire size "
                                             "(result = [88; sizeof ok; wire size; expected (part, offset, value offset)...]; 87: a member is missing in the header)",
                                     "label": label, "schema_text": S.to_prophy(t), "schema": t, "result": r[:40],
                                     "observed": out[i]["ops"][0]["structs"]})
    return entries, out


def main():
    chk = Check("C08")
    chk.build()
    quick = chk.tier == "quick"
    cases = codec.gen_schemas(chk.tier, chk.seed, want_random=200 if quick else 1200, k=2)
    if quick:
        cases = [c for i, c in enumerate(cases) if c[0] != "exhaustive" or i % 4 == 0]
    corp = []
    for pid in ("C08", "C03", "C01", "C04"):
        for f, t, vs, j in codec.load_corpus(pid):
            if f not in [c[1] for c in corp]:
                corp.append(("corpus", f, t))
    cases = corp + cases
    entries, out = layout_pass(chk, cases)
    chk.coverage["rule"] = ("schema streams as in C01 (raw generator accepts shared counters too). For every struct, part and union of "
                            "every schema the compiled header's __builtin_offsetof/sizeof table (g++ 12, x86-64) is compared inside Coq "
                            "with the spec's member_offsets and with the generator model pc_raw_layout (offsets relative to the start of the struct or partN; optional flag and "
                            "value; counters; first elements; discriminator and arms) and, for fixed types, sizeof with the wire size.")
    if entries:
        i, d, tr, sz = entries[len(entries) // 2]
        chk.sample({"declaration": S.decl_text(d), "observed_part_offset_value": tr, "sizeof": sz})
    chk.assumptions += ["GCC x86-64 ABI for __attribute__((packed, aligned(n))) is observed, not modelled"]
    return chk.finish(level="proof")


if __name__ == "__main__":
    sys.exit(main())
