#!/venv/bin/python
"""C13 — prophyc always terminates with outputs or a designed diagnostic.

Robustness exploration of the real entry point `prophyc.main(args)`: corrupted prophy texts,
corrupted isar documents (+ patch files), corrupted include structures, random text / bytes, bad
patch files and option combinations. Oracle (nothing else is a violation):
  1. the run did not finish within TIMEOUT seconds (hang);
  2. an exception escaped prophyc.main whose class is (a subclass of) one of ValueError, KeyError,
     AttributeError, TypeError, IndexError, AssertionError, RecursionError — builtin or standard
     library classes only; classes defined by prophyc itself are its designed channel;
  3. normal return / exit status 0 although a requested output file does not exist.

`--replay <file>` re-runs one recorded case (its "files", "dirs", "args", "expect")."""
import builtins
import importlib
import json
import os
import random
import re
import shutil
import sys

sys.path.insert(0, os.path.dirname(os.path.abspath(__file__)))
sys.path.insert(0, os.path.join(os.path.dirname(os.path.abspath(__file__)), "..", "tools"))
import common  # noqa: E402
import frontends as F  # noqa: E402
import schema as S  # noqa: E402
from checklib import Check  # noqa: E402

TIMEOUT = 20
LISTED = (ValueError, KeyError, AttributeError, TypeError, IndexError, AssertionError, RecursionError)
OUT_EXT = {"--python_out": [".py"], "--cpp_out": [".pp.hpp", ".pp.cpp"],
           "--cpp_full_out": [".ppf.hpp", ".ppf.cpp"], "--prophy_out": [".prophy"]}
ALL_OUTS = ["--python_out", "--cpp_out", "--cpp_full_out", "--prophy_out"]
XI = 'xmlns:xi="http://www.w3.org/2001/XInclude"'

RICH_TEXT = """\
const MAX_ITEMS = 4;
const DOUBLE_ITEMS = MAX_ITEMS * 2;
typedef u16 TCount;
typedef TCount TCount2;
enum Color
{
    Color_Red = 1,
    Color_Green = 2,
    Color_Blue = (Color_Red + Color_Green) << 2
};
struct Point
{
    i32 x;
    i32 y;
};
typedef Point TPoint;
union Shape
{
    1: Point p;
    Color_Green: u64 big;
    3: Color c;
};
struct Msg
{
    u8 tag;
    TCount2 n;
    Shape s;
    Point* opt;
    TPoint fixed[MAX_ITEMS];
    u16 lim<DOUBLE_ITEMS>;
    bytes blob<@n>;
    Point pts<>;
    u32 rest<...>;
};
"""


def rich_xml():
    return F.to_isar_constants(
        constants=[("MAX_ITEMS", "4"), ("DOUBLE_ITEMS", "MAX_ITEMS * 2"), ("FLAGS", "bitMaskOr(1, shiftLeft(1, 4))")],
        typedefs=[("TCount", ("prim", "u16")), ("TCount2", "TCount"), ("TPoint", "Point")],
        enums=[("Color", [("Color_Red", "1"), ("Color_Green", "2"), ("Color_Blue", "shiftLeft(Color_Green, 2)")])],
        structs=[("Point", [("x", "i32", None), ("y", "i32", None)]),
                 ("Msg", [("tag", "u8", None), ("n", "TCount2", None), ("s", "Shape", None), ("opt", "Point", "opt"),
                          ("fixed", "TPoint", ("fixed", "MAX_ITEMS")), ("lim", "u16", ("limited", "DOUBLE_ITEMS")),
                          ("blob", "u8", ("ext", "n")), ("pts", "Point", "dyn")])],
        unions=[("Shape", [("1", "p", "Point"), ("Color_Green", "big", "u64"), ("3", "c", "Color")])],
        order=["Msg", "Shape", "TPoint", "DOUBLE_ITEMS"])


# ------------------------------------------------------------------------------- oracle

def exception_name(stderr):
    """dotted name of the last exception of the last traceback in stderr, or None"""
    pos = stderr.rfind("Traceback (most recent call last)")
    if pos < 0:
        return None
    for line in stderr[pos:].split("\n")[1:]:
        if not line or line[0] in " \t":
            continue
        m = re.match(r"([A-Za-z_][\w.]*)\s*(:|$)", line)
        if m:
            return m.group(1)
    return None


def is_listed(dotted):
    """does the (builtin or standard library) class named `dotted` derive from a listed class;
    classes of prophyc / prophy and names that cannot be resolved are not listed"""
    if not dotted:
        return False
    mod, _, name = dotted.rpartition(".")
    cls = None
    if not mod:
        cls = getattr(builtins, name, None)
    elif mod.split(".")[0] in ("prophyc", "prophy", "__main__"):
        return False
    else:
        try:
            cls = getattr(importlib.import_module(mod), name, None)
        except Exception:  # noqa: not importable here: not a standard library class
            cls = None
    return isinstance(cls, type) and issubclass(cls, LISTED)


def where_of(stderr):
    """innermost frame of the last traceback that lies in prophyc itself, as 'file.py:function'
    (no line number: stable under edits); '' when there is none"""
    pos = stderr.rfind("Traceback (most recent call last)")
    if pos < 0:
        return ""
    frames = re.findall(r'File "([^"]*)", line \d+, in (\S+)', stderr[pos:])
    own = [(f, fn) for f, fn in frames if "/prophyc/" in f]
    if not own:
        return ""
    f, fn = own[-1]
    return "%s:%s" % (f.split("/prophyc/", 1)[1], fn)


def message_of(res):
    err = res["stderr"].strip()
    if res["timeout"]:
        return "no answer within %ds" % TIMEOUT
    pos = err.rfind("Traceback (most recent call last)")
    if pos >= 0:
        lines = [ln for ln in err[pos:].split("\n")[1:] if ln and ln[0] not in " \t"]
        return " ".join(lines)[:300]
    return (err.split("\n")[-1] if err else "")[:300]


def expect_from_args(args, inputs):
    """output files (relative to the working directory) a successful run must leave behind.
    Follows argparse: for a repeated option the last value wins; `--opt=value` is accepted."""
    if "--version" in args or "--help" in args or "-h" in args:
        return []
    dirs = {}
    i = 0
    while i < len(args):
        a = args[i]
        if a in OUT_EXT and i + 1 < len(args):
            dirs[a] = args[i + 1]
            i += 2
            continue
        if "=" in a and a.split("=", 1)[0] in OUT_EXT:
            dirs[a.split("=", 1)[0]] = a.split("=", 1)[1]
        i += 1
    out = []
    for opt, d in sorted(dirs.items()):
        for inp in inputs:
            stem = os.path.splitext(os.path.basename(inp))[0]
            for ext in OUT_EXT[opt]:
                p = os.path.join(d, stem + ext)
                if p not in out:
                    out.append(p)
    return out


def run_case(root, idx, case):
    """-> (compile_files result, missing outputs)"""
    d = os.path.join(root, "k%06d" % idx)
    try:
        os.makedirs(d)
        F.materialise(case["files"], d)
        for sub in case.get("dirs", []):
            os.makedirs(os.path.join(d, sub), exist_ok=True)
        res = F.compile_files([], case["args"], cwd=d, timeout=TIMEOUT, entry="main")
        missing = []
        if res["rc"] == 0 and not res["timeout"]:
            missing = [p for p in case.get("expect", []) if not os.path.isfile(os.path.join(d, p))]
        return res, missing
    finally:
        shutil.rmtree(d, ignore_errors=True)


def judge(res, missing):
    """-> (exception label or None when the case conforms, dotted exception name)"""
    if res["timeout"]:
        return "timeout", None
    if res["rc"] == -1 and res["stderr"].startswith("harness:"):
        return None, None
    dotted = exception_name(res["stderr"]) if res["rc"] != 0 else None
    if dotted and is_listed(dotted):
        return dotted.split(".")[-1], dotted
    if res["rc"] == 0 and missing:
        return "missing-output", None
    return None, dotted


def normalise(msg):
    msg = re.sub(r"'[^']*'|\"[^\"]*\"", "Q", msg)
    msg = re.sub(r"0x[0-9a-fA-F]+|\d+", "N", msg)
    return msg[:60]


def mutation_kind(desc):
    d = re.sub(r"'[^']*'|\"[^\"]*\"|\([^)]*\)|[<>]", " ", desc)
    d = re.sub(r"[\d#]+", "", d)
    words = [w for w in d.replace(":", " ").split() if re.match(r"[A-Za-z@/-]+$", w)]
    return " ".join(words[:4])


# ------------------------------------------------------------------------------- generators

def base_schemas(rng, n):
    """n schema tuples that have a text form: half exhaustive-small, half random-structured"""
    ex = list(S.exhaustive_small(2))
    out = [t for _, t in rng.sample(ex, min(n // 2, len(ex)))]
    rs = S.RandomSchemas(random.Random(rng.randint(0, 1 << 30)), prefix="Z")
    guard = 0
    while len(out) < n and guard < 50 * n:
        guard += 1
        t = rs.message()
        try:
            S.to_prophy(t)
        except ValueError:
            continue
        out.append(t)
    return out


def out_args(rng, extra_dirs=False):
    """-> (args, dirs to create)"""
    c = rng.random()
    if c < 0.5:
        outs = ALL_OUTS
    elif c < 0.75:
        outs = ["--python_out"]
    elif c < 0.85:
        outs = ["--cpp_out", "--cpp_full_out"]
    elif c < 0.93:
        outs = rng.sample(ALL_OUTS, rng.randint(1, 3))
    else:
        return ["--void_out"], []
    if extra_dirs and rng.random() < 0.3:
        args, dirs = [], []
        for j, o in enumerate(outs):
            args += [o, "out%d" % j]
            dirs.append("out%d" % j)
        return args, dirs
    args = []
    for o in outs:
        args += [o, "out"]
    return args, ["out"]


def mk_case(kind, front_end, mutation, files, args, inputs, dirs, expect=None):
    return {"kind": kind, "front_end": front_end, "mutation": mutation, "files": files, "args": list(args),
            "dirs": list(dirs), "inputs": list(inputs),
            "expect": expect_from_args(args, inputs) if expect is None else expect}


def text_cases(rng, schemas, n):
    texts = [RICH_TEXT] + [S.to_prophy(t) for t in schemas]
    for i in range(n):
        text = texts[i % len(texts)]
        descs = []
        for _ in range(2 if rng.random() < 0.2 else 1):
            text, d = F.mutate_text(text, rng, filename="input.prophy")
            descs.append(d)
        args, dirs = out_args(rng)
        yield mk_case("mutated prophy text", "prophy", " + ".join(descs), {"input.prophy": text},
                      args + ["input.prophy"], ["input.prophy"], dirs)


def isar_bases(rng, schemas):
    out = [(rich_xml(), None)]
    for i, t in enumerate(schemas):
        try:
            names = [d[1] for d in S.decls(t)]
            rng.shuffle(names)
            out.append(F.to_isar(t, order=names, style=F.STYLES[i % len(F.STYLES)], rng=rng,
                                 bytes_via=rng.choice(["patch", "direct"])))
        except F.NotExpressible:
            continue
    return out


def isar_args(files, patch):
    args = ["--isar"]
    if patch is not None:
        files["p.patch"] = patch
        args += ["--patch", "p.patch"]
    return args


def xml_cases(rng, bases, n):
    for i in range(n):
        xml, patch = bases[i % len(bases)]
        descs = []
        for _ in range(2 if rng.random() < 0.2 else 1):
            xml, d = F.mutate_xml(xml, rng, filename="input.xml")
            descs.append(d)
        files = {"input.xml": xml}
        args = isar_args(files, patch)
        oa, dirs = out_args(rng)
        yield mk_case("mutated isar xml", "isar", " + ".join(descs), files, args + oa + ["input.xml"],
                      ["input.xml"], dirs)


_SOUP = F.KEYWORDS + ["{", "}", "[", "]", "<", ">", "(", ")", ";", ":", ",", "=", "*", "+", "-", "/", "<<", ">>", "...",
                      "@", "#include", "\"a.prophy\"", "0", "1", "0x10", "A", "B", "x", "num_of_x", "\n", "//", "/*", "*/",
                      "|", "&", "~", "!", "%", "^", "\\", "'", "\"", "#", "$", "?", ".", "1.5", "-1", "\t", "\r\n"]
_XSOUP = ["<x>", "</x>", "<struct name=\"A\">", "</struct>", "<member name=\"a\" type=\"u8\"/>", "<member", "/>", ">",
          "<dimension size=\"2\"/>", "<enum name=\"E\">", "</enum>", "<enum-member name=\"E_A\" value=\"1\"/>",
          "<union name=\"U\">", "</union>", "<typedef name=\"T\" type=\"u8\"/>", "<constant name=\"C\" value=\"1\"/>",
          "<message name=\"M\">", "</message>", "<!--", "-->", "<?xml version=\"1.0\"?>", "&amp;", "&", "<![CDATA[", "]]>",
          "name=", "\"", "text", "\n", "<xi:include href=\"input.xml\"/>", "<a href=\"b.xml\"/>"]


def raw_bytes(rng, n):
    """n random bytes as str: ASCII as is, 0x80..0xFF as lone surrogates (frontends.write_text
    writes those back as the raw bytes)"""
    out = []
    for _ in range(n):
        b = rng.choice([0, 1, 9, 10, 27, 127, 128, 0xC3, 0xFF, 0xFE, 0xE2, rng.randint(0, 255), rng.randint(0, 255)])
        out.append(chr(b) if b < 0x80 else chr(0xDC00 + b))
    return "".join(out)


def random_text(rng, front_end):
    """-> (content, description)"""
    xml = front_end == "isar"
    forms = ["empty", "whitespace", "newlines", "ascii", "bytes", "soup", "deep-parens", "long-identifier", "many-definitions",
             "open-comment", "open-string", "bom", "crlf", "nul", "huge-number", "utf8-text", "long-line"]
    if xml:
        forms += ["deep-elements", "huge-attribute", "many-members"]
    form = rng.choice(forms)
    valid = rich_xml() if xml else RICH_TEXT
    if form == "empty":
        return "", "random text: empty file"
    if form == "whitespace":
        return rng.choice([" ", "\t", " \n\t ", "\r\n", "\f", "\v"]) * rng.randint(1, 50), "random text: whitespace only"
    if form == "newlines":
        return "\n" * 2000, "random text: 2000 newlines"
    if form == "ascii":
        n = rng.randint(1, 400)
        return "".join(chr(rng.randint(32, 126)) for _ in range(n)), "random text: %d printable characters" % n
    if form == "bytes":
        n = rng.randint(1, 300)
        return raw_bytes(rng, n), "random text: %d random bytes" % n
    if form == "soup":
        n = rng.randint(3, 200)
        pool = _XSOUP if xml else _SOUP
        return " ".join(rng.choice(pool) for _ in range(n)), "random text: soup of %d grammar tokens" % n
    if form == "deep-parens":
        depth = rng.choice([50, 500, 5000, 50000])
        if xml:
            return ('<x><constant name="C" value="%s1%s"/><struct name="A"><member name="a" type="u8">'
                    '<dimension size="C"/></member></struct></x>' % ("(" * depth, ")" * depth),
                    "random text: constant with %d nested parentheses" % depth)
        return "const C = %s1%s;\nstruct A { u8 a[C]; };\n" % ("(" * depth, ")" * depth), \
            "random text: constant with %d nested parentheses" % depth
    if form == "long-identifier":
        n = rng.choice([1000, 100000])
        if xml:
            return '<x><struct name="%s"><member name="a" type="u8"/></struct></x>' % ("A" * n), \
                "random text: identifier of %d characters" % n
        return "struct %s { u8 a; };\n" % ("A" * n), "random text: identifier of %d characters" % n
    if form == "many-definitions":
        n = rng.choice([300, 1500])
        if xml:
            body = "".join('<struct name="A%d"><member name="a" type="%s"/></struct>' % (i, "A%d" % (i + 1) if i + 1 < n else "u8")
                           for i in range(n))
            return "<x>%s</x>" % body, "random text: chain of %d structs, each using the next one" % n
        body = "".join("struct A%d { %s a; };\n" % (i, "A%d" % (i - 1) if i else "u8") for i in range(n))
        return body, "random text: chain of %d structs, each using the previous one" % n
    if form == "open-comment":
        cut = rng.randrange(len(valid))
        return valid[:cut] + ("<!-- " if xml else "/* ") + valid[cut:], "random text: unterminated comment at offset %d" % cut
    if form == "open-string":
        return ('<x><struct name="A><member name="a" type="u8"/></struct></x>' if xml else '#include "abc\n' + valid), \
            "random text: unterminated string"
    if form == "bom":
        return "﻿" + valid, "random text: byte order mark in front of a valid file"
    if form == "crlf":
        return valid.replace("\n", "\r\n"), "random text: CR LF line ends"
    if form == "nul":
        cut = rng.randrange(len(valid))
        return valid[:cut] + "\x00" + valid[cut:], "random text: NUL character at offset %d" % cut
    if form == "huge-number":
        n = rng.choice([100, 4300, 4301, 20000])
        lit = rng.choice(["1", "9", "0x1"]) + "0" * n
        if xml:
            return ('<x><constant name="C" value="%s"/><enum name="E"><enum-member name="E_A" value="%s"/></enum>'
                    '<struct name="A"><member name="a" type="u8"><dimension size="%s"/></member></struct></x>' % (lit, lit, lit),
                    "random text: numeric literal of %d digits" % n)
        return "const C = %s;\nstruct A { u8 a[%s]; };\n" % (lit, lit), "random text: numeric literal of %d digits" % n
    if form == "utf8-text":
        s = "zażółć gęślą jaźń … 日本語 \U0001F600"
        if xml:
            return '<x><struct name="%s" comment="%s"><member name="a" type="u8" comment="%s"/></struct></x>' % (
                rng.choice(["A", "ż"]), s, s), "random text: non-ascii names and comments"
        return "// %s\nstruct %s { u8 a; /* %s */ };\n" % (s, rng.choice(["A", "ż", "Aż"]), s), \
            "random text: non-ascii names and comments"
    if form == "long-line":
        n = 200000
        return ("<x>" + " " * n + "</x>") if xml else ("struct A { u8 a;" + " " * n + "};"), "random text: line of %d characters" % n
    if form == "deep-elements":
        depth = rng.choice([100, 5000, 100000])
        return "<x>" + "<a>" * depth + '<struct name="A"><member name="a" type="u8"/></struct>' + "</a>" * depth + "</x>", \
            "random text: %d nested elements" % depth
    if form == "huge-attribute":
        return '<x><struct name="A"><member name="a" type="u8" comment="%s"/></struct></x>' % ("c" * 1000000), \
            "random text: attribute of 1000000 characters"
    n = 3000
    return '<x><struct name="A">%s</struct></x>' % "".join('<member name="m%d" type="u8"/>' % i for i in range(n)), \
        "random text: struct with %d members" % n


def random_cases(rng, n_text, n_xml):
    for i in range(n_text + n_xml):
        fe = "prophy" if i < n_text else "isar"
        content, desc = random_text(rng, fe)
        fn = "input.prophy" if fe == "prophy" else "input.xml"
        oa, dirs = out_args(rng)
        yield mk_case("random text", fe, desc, {fn: content}, (["--isar"] if fe == "isar" else []) + oa + [fn], [fn], dirs)


def fileset_cases(rng, n):
    rs = S.RandomSchemas(random.Random(rng.randint(0, 1 << 30)), prefix="P")
    qs = S.RandomSchemas(random.Random(rng.randint(0, 1 << 30)), prefix="Q")
    made = 0
    guard = 0
    while made < n and guard < 100 * n:
        guard += 1
        if made % 3 != 2:
            t = rs.message()
            if len(S.decls(t)) < 3:
                continue
            try:
                S.to_prophy(t)
            except ValueError:
                continue
            sp = F.split_files(t, rng, 2 + made % 4, F.SPLIT_STYLES[made % len(F.SPLIT_STYLES)])
            files, desc = F.mutate_fileset(sp["files"], sp["main"], rng, kind="prophy")
            if rng.random() < 0.25:
                victim = rng.choice(sorted(files))
                files[victim], d2 = F.mutate_text(files[victim], rng, filename=os.path.basename(victim))
                desc += " + in %s: %s" % (victim, d2)
            inputs = [sp["main"]] if rng.random() < 0.6 else list(rng.sample(sp["order"], len(sp["order"])))
            args = []
            dirs = []
            for d in sp["include_dirs"]:
                args += ["-I", d]
                dirs.append(d)
            oa, od = out_args(rng)
            yield mk_case("mutated include structure", "prophy", desc, files, args + oa + inputs, inputs, dirs + od)
        else:
            t1, t2 = qs.message(), qs.message()
            try:
                x1, p1 = F.to_isar(t1, style="direct", rng=rng)
                x2, p2 = F.to_isar(t2, style="direct", rng=rng,
                                   extra_xml='    <xi:include %s href="base.xml"/>\n' % XI)
            except F.NotExpressible:
                continue
            files = {"base.xml": x1, "main.xml": x2}
            files, desc = F.mutate_fileset(files, "main.xml", rng, kind="isar")
            patch = (p1 or "") + (p2 or "")
            args = isar_args(files, patch or None)
            inputs = ["main.xml"] if rng.random() < 0.6 else rng.choice([["main.xml", "base.xml"], ["base.xml", "main.xml"]])
            oa, od = out_args(rng)
            yield mk_case("mutated include structure", "isar", desc, files, args + oa + inputs, inputs, od)
        made += 1


def _xml_names(xml):
    """[(node tag, node name, [member names])] of an isar document (regular expressions: the
    document may be anything)"""
    out = []
    for m in re.finditer(r"<(struct|message|union|enum)\s+name=\"([^\"]*)\"[^>]*>(.*?)</\1>", xml, re.S):
        out.append((m.group(1), m.group(2), re.findall(r"<(?:member|enum-member)[^>]*\sname=\"([^\"]*)\"", m.group(3))))
    return out


def mutate_patch(patch, xml, rng):
    """corrupt a patch file for the isar document `xml` -> (patch text, description)"""
    nodes = _xml_names(xml)
    structs = [n for n in nodes if n[0] in ("struct", "message") and n[2]] or [("struct", "NoStruct", ["a"])]
    others = [n for n in nodes if n[0] in ("union", "enum")] or [("enum", "NoEnum", ["a"])]
    _, sname, smembers = rng.choice(structs)
    _, oname, omembers = rng.choice(others)
    m0, mlast = smembers[0], smembers[-1]
    mx = rng.choice(smembers)
    lines = [ln for ln in (patch or "").split("\n") if ln.strip()]
    bad_number = rng.choice(["abc", "-1", "0", "1.5", "0x", "1e3", "99999999999999999999", "NO_SUCH_CONST", "1/0", "", "7/2",
                             "(", "1 +", "٣", "½"])
    forms = {
        "unknown node": ["NoSuchNode_%d remove x" % rng.randint(0, 9)],
        "unknown action": ["%s %s %s" % (sname, rng.choice(["frobnicate", "Type", "REMOVE", "", "=", "dynamic2"]), mx)],
        "one word line": [rng.choice([sname, "x", "remove"])],
        "missing parameters": ["%s %s" % (sname, rng.choice(["type", "insert", "remove", "dynamic", "greedy", "static", "limited",
                                                             "rename"]))],
        "too many parameters": ["%s %s %s a b c d" % (sname, rng.choice(["type", "insert", "remove", "dynamic", "greedy", "static",
                                                                         "limited", "rename", "struct"]), mx)],
        "non-numeric array size": ["%s static %s %s" % (sname, mx, bad_number)],
        "non-numeric insert index": ["%s insert %s ins u8" % (sname, rng.choice(["abc", "1.5", "", "0x10", "-", "٣", "1e3"]))],
        "odd insert index": ["%s insert %s ins u8" % (sname, rng.choice(["-1", "-999", "99999999999999999999", "+1", " 1", "1_0"]))],
        "struct action on a struct": ["%s struct" % sname],
        "struct action with parameters": ["%s struct x" % oname],
        "member rule on a union or enum": ["%s %s" % (oname, rng.choice(["type a u8", "insert 0 a u8", "remove a", "dynamic a b",
                                                                         "greedy a", "static a 3", "limited a b", "rename a b"]))],
        "unknown member": ["%s %s" % (sname, rng.choice(["type nosuch u8", "remove nosuch", "dynamic nosuch %s" % m0, "greedy nosuch",
                                                          "static nosuch 3", "limited nosuch %s" % m0, "rename nosuch other"]))],
        "unknown sizer": [rng.choice(["%s dynamic %s nosuch", "%s limited %s nosuch"]) % (sname, mlast)],
        "sizer after the array": ["%s insert 999 late_len u32" % sname, "%s dynamic %s late_len" % (sname, m0)],
        "array sized by itself": ["%s dynamic %s %s" % (sname, mx, mx)],
        "non-integer sizer": ["%s insert 0 fsz r32" % sname, "%s dynamic %s fsz" % (sname, mlast)],
        "greedy member not last": ["%s greedy %s" % (sname, m0)],
        "every member removed": ["%s remove %s" % (sname, m) for m in smembers],
        "member removed twice": ["%s remove %s" % (sname, mx)] * 2,
        "undefined member type": ["%s type %s %s" % (sname, mx, rng.choice(["Dangling_t", "u128", "bytes", "", "u8*", "u8[2]", sname]))],
        "node renamed to a taken name": ["%s rename %s" % (sname, rng.choice(["u8", "byte", oname, "struct", "1abc", "a-b", "ż", sname]))],
        "member renamed to a taken name": ["%s rename %s %s" % (sname, mx, rng.choice([m0, mlast, "u8", "struct", "1abc", "a-b"]))],
        "inserted member duplicates a name": ["%s insert 0 %s u8" % (sname, mx)],
        "static then limited without sizer": ["%s static %s 3" % (sname, mx), "%s limited %s %s" % (sname, mx, mx)],
        "array of arrays": ["%s static %s 2" % (sname, mx), "%s dynamic %s %s" % (sname, mx, m0), "%s greedy %s" % (sname, mx)],
        "self-referring type": ["%s type %s %s" % (sname, mx, sname)],
        "enum turned member-wise": ["%s rename %s %s" % (oname, (omembers or ["a"])[0], (omembers or ["a", "b"])[-1])],
    }
    raw_forms = ["empty", "whitespace", "random bytes", "bom", "crlf", "nul", "long line", "comment lines", "shuffled", "truncated"]
    c = rng.random()
    if c < 0.8:
        name = rng.choice(sorted(forms))
        new = forms[name]
        where = rng.choice(["front", "end", "alone"])
        if where == "front":
            lines = new + lines
        elif where == "end":
            lines = lines + new
        else:
            lines = new
        return "\n".join(lines) + "\n", "bad patch: %s (%s; %s)" % (name, " / ".join(new)[:80], where)
    name = rng.choice(raw_forms)
    text = "\n".join(lines) + "\n"
    if name == "empty":
        text = ""
    elif name == "whitespace":
        text = " \n\t\n\r\n   \n"
    elif name == "random bytes":
        pos = rng.randrange(len(text) + 1)
        text = text[:pos] + raw_bytes(rng, rng.choice([1, 4, 40])) + text[pos:]
    elif name == "bom":
        text = "﻿" + (text or "%s remove %s\n" % (sname, mx))
    elif name == "crlf":
        text = text.replace("\n", "\r\n")
    elif name == "nul":
        text = "%s\x00 remove %s\n" % (sname, mx) + text
    elif name == "long line":
        text = "%s rename %s\n" % (sname, "N" * 500000) + text
    elif name == "comment lines":
        text = "# a comment\n// another\n" + text
    elif name == "shuffled":
        rng.shuffle(lines)
        text = "\n".join(lines) + "\n"
    else:
        text = text[:rng.randrange(len(text) + 1)]
    return text, "bad patch: %s" % name


def patch_cases(rng, schemas, n):
    bases = [(rich_xml(), None)]
    for i, t in enumerate(schemas):
        try:
            bases.append(F.to_isar(t, style=["patch", "noisy", "direct", "mixed"][i % 4], rng=rng))
        except F.NotExpressible:
            continue
    for i in range(n):
        xml, patch = bases[i % len(bases)]
        new, desc = mutate_patch(patch, xml, rng)
        files = {"input.xml": xml, "p.patch": new}
        oa, dirs = out_args(rng)
        yield mk_case("bad patch file", "patch", desc, files, ["--isar", "--patch", "p.patch"] + oa + ["input.xml"],
                      ["input.xml"], dirs)
    # the same rules against the text front-end (a patch applies to any front-end)
    for i in range(max(4, n // 10)):
        new, desc = mutate_patch(None, rich_xml(), rng)
        files = {"input.prophy": RICH_TEXT, "p.patch": new}
        oa, dirs = out_args(rng)
        yield mk_case("bad patch file", "patch", desc + " [prophy input]", files,
                      ["--patch", "p.patch"] + oa + ["input.prophy"], ["input.prophy"], dirs)


GOOD_TEXT = "struct Good\n{\n    u8 a;\n    u32 b<>;\n};\n"
OTHER_TEXT = "#include \"good.prophy\"\nstruct Other\n{\n    Good g;\n};\n"
GOOD_HPP = "#include <stdint.h>\nstruct Test\n{\n    uint32_t num_of_x;\n    uint32_t x[1];\n};\n"


def option_files():
    good_xml, _ = F.to_isar(S.mk_struct("GoodX", [("a", "plain", S.scalar("u8")), ("b", "dyn", S.scalar("u32"))]))
    return {"good.prophy": GOOD_TEXT, "other.prophy": OTHER_TEXT, "good.xml": good_xml,
            "p.patch": "GoodX rename GoodY\nGood rename Better\n", "inc/lib.prophy": "struct Lib { u16 l; };\n",
            "uses_lib.prophy": "#include \"lib.prophy\"\nstruct UsesLib { Lib l; };\n",
            "a/same.prophy": "struct SameA { u8 a; };\n", "b/same.prophy": "struct SameB { u16 b; };\n",
            "noext": GOOD_TEXT, ".prophy": GOOD_TEXT, "with space.prophy": GOOD_TEXT, "zażółć.prophy": GOOD_TEXT,
            "-dash.prophy": GOOD_TEXT, "1digit.prophy": GOOD_TEXT, "two.dots.prophy": GOOD_TEXT, "class.prophy": GOOD_TEXT,
            "good.hpp": GOOD_HPP, "afile": "not a directory\n"}


OPTION_DIRS = ["out", "out2", "inc", "emptydir", "a", "b"]


def option_cases():
    """hand-written option combinations: (description, args, inputs[, expect])"""
    P3 = ["--python_out", "out", "--cpp_out", "out", "--cpp_full_out", "out"]
    L = [
        ("no arguments", [], []),
        ("outputs but no input", P3, []),
        ("input but no output directive", ["good.prophy"], ["good.prophy"]),
        ("--void_out", ["--void_out", "good.prophy"], ["good.prophy"]),
        ("--void_out and outputs", ["--void_out"] + P3 + ["good.prophy"], ["good.prophy"]),
        ("--version", ["--version"], []),
        ("--version with input and outputs", ["--version"] + P3 + ["good.prophy"], ["good.prophy"]),
        ("--version with a missing input", ["--version", "missing.prophy"], []),
        ("--help", ["--help"], []),
        ("-h with other options", ["-h", "--isar", "--sack"], []),
        ("--quiet alone", ["--quiet"], []),
        ("--quiet with outputs", ["--quiet"] + P3 + ["good.prophy"], ["good.prophy"]),
        ("--quiet on an isar input with a dangling type", ["--quiet", "--isar", "--python_out", "out", "good.xml"], ["good.xml"]),
        ("--isar --sack", ["--isar", "--sack"] + P3 + ["good.xml"], ["good.xml"]),
        ("--sack --isar", ["--sack", "--isar", "--python_out", "out", "good.hpp"], ["good.hpp"]),
        ("--isar twice", ["--isar", "--isar", "--python_out", "out", "good.xml"], ["good.xml"]),
        ("missing input file", P3 + ["missing.prophy"], ["missing.prophy"]),
        ("directory as input", P3 + ["inc"], ["inc"]),
        ("/dev/null as input", P3 + ["/dev/null"], ["/dev/null"]),
        ("existing and missing input", P3 + ["good.prophy", "missing.prophy"], ["good.prophy", "missing.prophy"]),
        ("missing output directory", ["--python_out", "nodir", "good.prophy"], ["good.prophy"]),
        ("output directory is a file", ["--cpp_out", "afile", "good.prophy"], ["good.prophy"]),
        ("output option without value", ["good.prophy", "--python_out"], ["good.prophy"]),
        ("output option followed by an option", ["--python_out", "--quiet", "good.prophy"], ["good.prophy"]),
        ("all four outputs, one directory", P3 + ["--prophy_out", "out", "good.prophy"], ["good.prophy"]),
        ("all four outputs, different directories", ["--python_out", "out", "--cpp_out", "out2", "--cpp_full_out", "emptydir",
                                                     "--prophy_out", "a", "good.prophy"], ["good.prophy"]),
        ("outputs into the input directory", ["--python_out", ".", "--cpp_out", ".", "--cpp_full_out", ".", "--prophy_out", ".",
                                              "good.prophy"], ["good.prophy"]),
        ("the same output option twice", ["--python_out", "out", "--python_out", "out2", "good.prophy"], ["good.prophy"]),
        ("--opt=value form", ["--python_out=out", "--cpp_full_out=out2", "good.prophy"], ["good.prophy"]),
        ("abbreviated option --py", ["--py", "out", "good.prophy"], ["good.prophy"], ["out/good.py"]),
        ("ambiguous abbreviation --cpp", ["--cpp", "out", "good.prophy"], ["good.prophy"], []),
        ("unknown option", ["--nosuch", "--python_out", "out", "good.prophy"], ["good.prophy"]),
        ("unknown short option", ["-x", "--python_out", "out", "good.prophy"], ["good.prophy"]),
        ("empty string argument", ["", "--python_out", "out", "good.prophy"], ["good.prophy"], []),
        ("empty output directory name", ["--python_out", "", "good.prophy"], ["good.prophy"], []),
        ("argument with a newline", ["--python_out", "out", "good\n.prophy"], ["good\n.prophy"], []),
        ("very long argument", ["--python_out", "out", "x" * 5000 + ".prophy"], [], []),
        ("-I with a directory", ["-I", "inc"] + P3 + ["uses_lib.prophy"], ["uses_lib.prophy"]),
        ("include needs -I but none given", P3 + ["uses_lib.prophy"], ["uses_lib.prophy"]),
        ("-I several directories", ["-I", "emptydir", "-I", "a", "--include_dir", "inc", "-Ib"] + P3 + ["uses_lib.prophy"],
         ["uses_lib.prophy"]),
        ("-I missing directory", ["-I", "nodir"] + P3 + ["good.prophy"], ["good.prophy"]),
        ("-I is a file", ["-I", "afile"] + P3 + ["good.prophy"], ["good.prophy"]),
        ("-I without value", P3 + ["good.prophy", "-I"], ["good.prophy"]),
        ("-I with isar input", ["-I", "inc", "--isar"] + P3 + ["good.xml"], ["good.xml"]),
        ("--patch missing file", ["--isar", "--patch", "missing.patch"] + P3 + ["good.xml"], ["good.xml"]),
        ("--patch is a directory", ["--isar", "--patch", "inc"] + P3 + ["good.xml"], ["good.xml"]),
        ("--patch without value", ["--isar"] + P3 + ["good.xml", "--patch"], ["good.xml"]),
        ("--patch twice", ["--isar", "-p", "p.patch", "--patch", "p.patch"] + P3 + ["good.xml"], ["good.xml"]),
        ("--patch with isar input", ["--isar", "--patch", "p.patch"] + P3 + ["--prophy_out", "out", "good.xml"], ["good.xml"]),
        ("--patch with prophy input", ["--patch", "p.patch"] + P3 + ["--prophy_out", "out", "good.prophy"], ["good.prophy"]),
        ("--patch is the input file itself", ["--patch", "good.prophy"] + P3 + ["good.prophy"], ["good.prophy"]),
        ("--patch is an xml file", ["--isar", "--patch", "good.xml"] + P3 + ["good.xml"], ["good.xml"]),
        ("-S without --sack", ["-S", "good.xml"] + P3 + ["good.prophy"], ["good.prophy"]),
        ("-S with --isar", ["--isar", "-S", "good.xml"] + P3 + ["good.xml"], ["good.xml"]),
        ("-S missing file", ["--sack", "-S", "missing.xml"] + P3 + ["good.hpp"], ["good.hpp"]),
        ("--sack", ["--sack"] + P3 + ["good.hpp"], ["good.hpp"]),
        ("--sack with -S", ["--sack", "-S", "good.xml"] + P3 + ["good.hpp"], ["good.hpp"]),
        ("--sack with -S that is not xml", ["--sack", "-S", "good.prophy"] + P3 + ["good.hpp"], ["good.hpp"]),
        ("--sack with -S and patch", ["--sack", "-S", "good.xml", "--patch", "p.patch"] + P3 + ["good.hpp"], ["good.hpp"]),
        ("--sack on a prophy text", ["--sack"] + P3 + ["good.prophy"], ["good.prophy"]),
        ("--sack on an xml file", ["--sack"] + P3 + ["good.xml"], ["good.xml"]),
        ("--sack with -I", ["--sack", "-I", "inc", "-I", "a"] + P3 + ["good.hpp"], ["good.hpp"]),
        ("isar file without --isar", P3 + ["good.xml"], ["good.xml"]),
        ("prophy text with --isar", ["--isar"] + P3 + ["good.prophy"], ["good.prophy"]),
        ("hpp file without --sack", P3 + ["good.hpp"], ["good.hpp"]),
        ("the same input twice", P3 + ["good.prophy", "good.prophy"], ["good.prophy"]),
        ("the same input under two spellings", P3 + ["good.prophy", "./good.prophy", "a/../good.prophy"], ["good.prophy"]),
        ("input and the file it includes", P3 + ["other.prophy", "good.prophy"], ["other.prophy", "good.prophy"]),
        ("included file first", P3 + ["good.prophy", "other.prophy"], ["other.prophy", "good.prophy"]),
        ("two inputs with the same base name", P3 + ["a/same.prophy", "b/same.prophy"], ["a/same.prophy"]),
        ("mixed prophy and xml inputs", P3 + ["good.prophy", "good.xml"], ["good.prophy", "good.xml"]),
        ("mixed xml and prophy inputs with --isar", ["--isar"] + P3 + ["good.xml", "good.prophy"], ["good.xml", "good.prophy"]),
        ("input without extension", P3 + ["noext"], ["noext"]),
        ("input named .prophy", P3 + [".prophy"], [".prophy"]),
        ("input name with a space", P3 + ["--prophy_out", "out", "with space.prophy"], ["with space.prophy"]),
        ("input name with non-ascii letters", P3 + ["--prophy_out", "out", "zażółć.prophy"], ["zażółć.prophy"]),
        ("input name starting with a dash", P3 + ["-dash.prophy"], ["-dash.prophy"], []),
        ("input name starting with a dash after --", P3 + ["--", "-dash.prophy"], ["-dash.prophy"]),
        ("input name starting with a digit", P3 + ["1digit.prophy"], ["1digit.prophy"]),
        ("input name with two dots", P3 + ["two.dots.prophy"], ["two.dots.prophy"]),
        ("input named like a keyword", P3 + ["class.prophy"], ["class.prophy"]),
        ("absolute-looking missing paths", ["-I", "/no/such/dir", "--python_out", "/no/such/out", "/no/such/file.prophy"], [], []),
        ("options after the input", ["good.prophy"] + P3 + ["--quiet"], ["good.prophy"]),
        ("options between inputs", ["good.prophy", "--python_out", "out", "other.prophy"], ["good.prophy", "other.prophy"]),
        ("response-file syntax", ["@good.prophy"] + P3, [], []),
    ]
    files = option_files()
    for item in L:
        desc, args, inputs = item[:3]
        expect = item[3] if len(item) > 3 else None
        yield mk_case("option combination", "options", desc, files, args, inputs, OPTION_DIRS, expect)


def random_option_cases(rng, n):
    files = option_files()
    for _ in range(n):
        args = []
        mode = rng.choice(["", "", "--isar", "--isar", "--sack"])
        if mode:
            args.append(mode)
        if rng.random() < 0.08:
            args.append(rng.choice(["--isar", "--sack"]))
        good = {"": ["good.prophy", "other.prophy", "uses_lib.prophy", "a/same.prophy"], "--isar": ["good.xml"],
                "--sack": ["good.hpp"]}[mode]
        inputs = []
        for _ in range(rng.choice([0, 1, 1, 1, 2, 3])):
            inputs.append(rng.choice(good + good + ["missing.prophy", "inc", "good.xml", "good.prophy", "noext"]))
        for o in ALL_OUTS:
            for _ in range(rng.choice([0, 1, 1, 2]) if rng.random() < 0.6 else 0):
                args += [o, rng.choice(["out", "out", "out", "out2", ".", "nodir", "afile"])]
        if rng.random() < 0.3:
            args += [rng.choice(["-p", "--patch"]), rng.choice(["p.patch", "p.patch", "missing.patch", "inc", "good.xml"])]
        for _ in range(rng.choice([0, 0, 1, 2])):
            args += ["-I", rng.choice(["inc", "inc", "a", "emptydir", "nodir", "afile"])]
        if rng.random() < 0.15:
            args += ["-S", rng.choice(["good.xml", "missing.xml", "good.prophy"])]
        for flag, p in (("--quiet", 0.3), ("--void_out", 0.15), ("--version", 0.05)):
            if rng.random() < p:
                args.append(flag)
        rng.shuffle(inputs)
        pos = rng.randint(0, len(args)) if rng.random() < 0.2 else len(args)
        # keep option/value pairs together: inputs go in front of or after all options
        full = (inputs + args) if pos == 0 else (args + inputs)
        yield mk_case("option combination", "options", "random options: %s" % " ".join(full), files, full, inputs, OPTION_DIRS)


def corpus_cases():
    d = os.path.join(common.VERIF, "corpus", "C13")
    if not os.path.isdir(d):
        return
    for fn in sorted(os.listdir(d)):
        if fn.endswith(".json"):
            with open(os.path.join(d, fn)) as f:
                j = json.load(f)
            c = mk_case(j.get("kind", "corpus"), j.get("front_end", "prophy"), "corpus/%s: %s" % (fn, j.get("mutation", "")),
                        j["files"], j["args"], j.get("inputs", []), j.get("dirs", []), j.get("expect"))
            yield c


# ------------------------------------------------------------------------------- main

def public(case, label, dotted, res, missing):
    out = {k: case[k] for k in ("kind", "front_end", "mutation", "files", "args", "dirs", "inputs", "expect")}
    out["exception"] = label
    out["exception_qualified"] = dotted
    out["message"] = ("missing: %s" % ", ".join(missing))[:300] if label == "missing-output" else message_of(res)
    out["where"] = where_of(res["stderr"])
    out["rc"] = res["rc"]
    out["stderr_tail"] = res["stderr"][-1500:]
    return out


def replay(chk):
    with open(chk.replay_mode) as f:
        j = json.load(f)
    case = mk_case(j.get("kind", "replay"), j.get("front_end", "prophy"), j.get("mutation", ""), j["files"], j["args"],
                   j.get("inputs", []), j.get("dirs", []), j.get("expect"))
    root = common.scratch("c13")
    res, missing = run_case(root, 0, case)
    label, dotted = judge(res, missing)
    chk.count()
    if label:
        chk.violation("replay", public(case, label, dotted, res, missing))
    print("REPLAY property=C13 still-violates=%s outcome=%s %s" % ("yes" if label else "no", F.classify(res),
                                                                     message_of(res)[:200]))
    return chk.finish(level="exploration")


def main():
    chk = Check("C13")
    if chk.replay_mode:
        return replay(chk)
    chk.build()
    rng = random.Random(chk.seed)
    m = 1 if chk.tier == "quick" else 10
    schemas = base_schemas(rng, 24 * (1 if m == 1 else 4))
    cases = list(corpus_cases())
    cases += list(text_cases(rng, schemas, 250 * m))
    cases += list(xml_cases(rng, isar_bases(rng, schemas), 250 * m))
    cases += list(random_cases(rng, 40 * m, 30 * m))
    cases += list(fileset_cases(rng, 60 * m))
    cases += list(patch_cases(rng, schemas, 60 * m))
    cases += list(option_cases())
    cases += list(random_option_cases(rng, 60 * m))

    root = common.scratch("c13")
    results = F.pmap(lambda a: run_case(root, a[0], a[1]), list(enumerate(cases)))
    shutil.rmtree(root, ignore_errors=True)

    outcomes = {}
    per_kind = {}
    classes = {}
    abnormal = 0
    skipped = 0
    samples = {}
    for i, (case, (res, missing)) in enumerate(zip(cases, results)):
        if res["rc"] == -1 and res["stderr"].startswith("harness:"):
            skipped += 1   # the operating system refused to start the process (e.g. NUL in an argument)
            continue
        chk.count()
        fe = case["front_end"]
        oc = F.classify(res)
        outcomes.setdefault(fe, {})
        outcomes[fe][oc] = outcomes[fe].get(oc, 0) + 1
        per_kind[case["kind"]] = per_kind.get(case["kind"], 0) + 1
        chk.seen_class((fe, oc, mutation_kind(case["mutation"])))
        if res["rc"] < 0 and not res["timeout"]:
            abnormal += 1
        samples.setdefault((fe, oc), {"front_end": fe, "mutation": case["mutation"], "args": case["args"],
                                      "outcome": oc, "message": message_of(res)[:200],
                                      "files": {k: v[:400] for k, v in list(case["files"].items())[:2]}
                                      if fe != "options" else "(option_files)"})
        label, dotted = judge(res, missing)
        if not label:
            continue
        pub = public(case, label, dotted, res, missing)
        key = "%s | %s | %s | %s" % (fe, label, normalise(pub["message"]), pub["where"])
        name = re.sub(r"[^A-Za-z0-9_.-]+", "_", "%s-%s-%05d" % (fe, label, i))
        if chk.match_known(pub) is not None:
            chk.violation(name, pub)          # counted as a known finding, never printed
            classes.setdefault("known | " + key, 0)
            classes["known | " + key] += 1
            continue
        if key not in classes:
            if chk.violation(name, pub, note="%s %s: %s" % (fe, label, pub["message"][:120])) and chk.violations > 5:
                common.write_replay("C13", name, pub)   # checklib keeps only the first five: keep one per class
        classes[key] = classes.get(key, 0) + 1

    chk.coverage["outcomes"] = outcomes
    chk.coverage["cases_per_kind"] = per_kind
    chk.coverage["violating_cases_per_class"] = classes
    chk.coverage["signal_exits"] = abnormal
    chk.coverage["skipped_not_startable"] = skipped
    chk.coverage["rule"] = (
        "every case runs prophyc.main(args) in a fresh process and directory (timeout %ds). Inputs, all from random.Random(seed): "
        "(a) valid schemas (exhaustive-small sample, random-structured, one hand-written rich schema) as prophy text and as isar "
        "xml (+patch, all to_isar styles), corrupted once or twice by frontends.mutate_text / mutate_xml (token level: delete, "
        "duplicate, swap, keyword, undefined name, odd numbers, unbalanced brackets, truncation, random bytes; structure level: "
        "self and mutual recursion, typedef/constant/enum cycles, duplicates, dangling types and sizers, greedy in the middle, "
        "includes of missing files / of itself, malformed xml) and, for multi-file inputs (split_files, isar xi:include), by "
        "mutate_fileset (missing, self, mutual, ring, twice, directory, escaping, upper-case includes); (b) random text: empty, "
        "whitespace, printable noise, raw bytes, grammar token soup, deep nesting, long identifiers/lines/literals, long dependency "
        "chains, BOM, CR LF, NUL, non-ascii; (c) patch files with unknown nodes/actions, wrong parameter counts, non-numeric sizes "
        "and indices, rules that cannot apply, raw noise; (d) %d hand-written option combinations plus random ones (missing and "
        "conflicting options, missing files and directories, several outputs, -I, -S, --patch, --sack, odd file names). Oracle: "
        "violation iff timeout, or an escaping exception that is a builtin/stdlib subclass of ValueError, KeyError, "
        "AttributeError, TypeError, IndexError, AssertionError, RecursionError, or exit status 0 with a requested output file "
        "missing. One replay per (front end, exception, normalised message, raising function) class; violating_cases_per_class counts all. "
        "distinct_nontrivial = distinct (front end, outcome, mutation kind)." % (TIMEOUT, len(list(option_cases()))))
    picked = [v for k, v in sorted(samples.items()) if k[1] == "error-message"][:2] + \
             [v for k, v in sorted(samples.items()) if k[1].startswith("rc0")][:1]
    for s in picked:
        chk.sample(s)
    chk.assumptions += ["a hang is observed as 'no answer within %d s' on this machine" % TIMEOUT,
                        "the set of inputs is generated, not exhaustive: absence of a violation is not a proof"]
    # the part of the property that is logic: the dependency sort terminates on every definition graph
    # (theorem C13_sort_total about the Coq model; the model is tied to model.topological_sort here)
    import sortcorr
    sortcorr.run(chk, 300 if chk.tier == 'quick' else 5000, 3)
    import filecorr
    filecorr.run(chk, 200 if chk.tier == 'quick' else 3000)
    chk.assumptions += ['PLY, ElementTree, argparse and libclang are not modelled: the theorem covers the dependency sort of the middle end; everything else is decided by the robustness run']
    return chk.finish(level="proof")


if __name__ == "__main__":
    sys.exit(main())
