#!/venv/bin/python
"""C12 — whatever prophyc accepts, every back-end can realise; rule breakers are rejected."""
import copy
import os
import random
import re
import sys

sys.path.insert(0, os.path.dirname(os.path.abspath(__file__)))
sys.path.insert(0, os.path.join(os.path.dirname(os.path.abspath(__file__)), "..", "tools"))
import codec  # noqa: E402
import common  # noqa: E402
import cppcommon as C  # noqa: E402
import cpprun  # noqa: E402
import frontends as F  # noqa: E402
import impl  # noqa: E402
import schema as S  # noqa: E402
from checklib import Check  # noqa: E402

sc = S.scalar


# ------------------------------------------------------------------ rule-breaking edits on schema tuples

def replace_root_fields(t, fields):
    return ('struct', t[1], tuple(fields))


def breakers(rng, nm):
    """(rule, schema tuple) pairs, each breaking exactly one documented composability rule"""
    D = S.mk_struct(nm('D'), [('x', 'dyn', sc('u8'))])
    W = S.mk_struct(nm('W'), [('h', 'plain', sc('u8')), ('t', 'greedy', sc('u32'))])
    F_ = S.mk_struct(nm('F'), [('a', 'plain', sc('u16'))])
    out = []

    def st(members):
        return S.mk_struct(nm('B'), members)

    tail = [('q', 'plain', sc('u8'))]
    out.append(("greedy array not last", st([('g', 'greedy', sc('u8'))] + tail)))
    out.append(("unlimited struct not last", st([('w', 'plain', W)] + tail)))
    out.append(("unlimited struct in a dynamic array", st([('w', 'dyn', W)])))
    out.append(("unlimited struct in a greedy array", st([('w', 'greedy', W)])))
    out.append(("unlimited struct in a fixed array", st([('w', ('fixed', 2), W)])))
    out.append(("dynamic struct in a fixed array", st([('d', ('fixed', 2), D)])))
    out.append(("dynamic struct in a limited array", st([('d', ('limited', 2), D)])))
    out.append(("unlimited struct in a limited array", st([('w', ('limited', 2), W)])))
    out.append(("optional dynamic struct", st([('d', 'opt', D)])))
    out.append(("optional unlimited struct", st([('w', 'opt', W)])))
    out.append(("dynamic struct as union arm", S.mk_struct(nm('B'), [('u', 'plain', S.mk_union(nm('U'), [(1, 'a', sc('u8')), (2, 'b', D)]))])))
    out.append(("unlimited struct as union arm", S.mk_struct(nm('B'), [('u', 'plain', S.mk_union(nm('U'), [(1, 'a', W)]))])))
    # counters
    fs = (('x', ('bound', 1), sc('u8')), ('n', S.PLAIN, sc('u8')))
    out.append(("sizer after its array", ('struct', nm('B'), fs)))
    out.append(("optional sizer", ('struct', nm('B'), (('n', S.OPT, sc('u8')), ('x', ('bound', 0), sc('u8'))))))
    out.append(("float sizer", ('struct', nm('B'), (('n', S.PLAIN, sc('r32')), ('x', ('bound', 0), sc('u8'))))))
    out.append(("struct sizer", ('struct', nm('B'), (('n', S.PLAIN, F_), ('x', ('bound', 0), sc('u8'))))))
    out.append(("array as sizer", ('struct', nm('B'), (('n', ('fixed', 2), sc('u8')), ('x', ('bound', 0), sc('u8'))))))
    # sizes and values
    out.append(("array size zero", st([('a', ('fixed', 0), sc('u8'))])))
    out.append(("limited array size zero", st([('a', ('limited', 0), sc('u8'))])))
    out.append(("enumerator 2^32", st([('e', 'plain', S.mk_enum(nm('En'), [(nm('EV'), 1), (nm('EV'), 2 ** 32)]))])))
    out.append(("discriminator 2^32", st([('u', 'plain', S.mk_union(nm('U'), [(1, 'a', sc('u8')), (2 ** 32, 'b', sc('u8'))]))])))
    out.append(("duplicate discriminator", st([('u', 'plain', S.mk_union(nm('U'), [(1, 'a', sc('u8')), (1, 'b', sc('u16'))]))])))
    return out


def text_breakers(nm):
    """rule breakers that only exist as text"""
    n = nm('T')
    return [
        ("duplicate field name", "struct %s\n{\n    u8 a;\n    u16 a;\n};\n" % n, n),
        ("duplicate arm name", "union %s\n{\n    1: u8 a;\n    2: u16 a;\n};\n" % n, n),
        ("duplicate type name", "struct %s\n{\n    u8 a;\n};\nstruct %s\n{\n    u8 b;\n};\n" % (n, n), n),
        ("type named like a constant", "const %s = 3;\nstruct %s\n{\n    u8 a;\n};\n" % (n, n), n),
        ("sizer missing", "struct %s\n{\n    u8 x<@nosuch>;\n};\n" % n, n),
        ("negative array size", "struct %s\n{\n    u8 x[-1];\n};\n" % n, n),
        ("negative limited size", "struct %s\n{\n    u8 x<0 - 2>;\n};\n" % n, n),
        ("negative enumerator", "enum E%s\n{\n    E%s_A = -1\n};\nstruct %s\n{\n    E%s e;\n};\n" % (n, n, n, n), n),
        ("negative discriminator", "union U%s\n{\n    -1: u8 a;\n};\nstruct %s\n{\n    U%s u;\n};\n" % (n, n, n), n),
        ("undeclared type", "struct %s\n{\n    NoSuchType a;\n};\n" % n, n),
        ("enumerator redefined", "enum E%s\n{\n    E%s_A = 1,\n    E%s_A = 2\n};\n" % (n, n, n), n),
    ]


def embed(rng, rule, bt, nm):
    """the rule-breaking struct on its own and nested in an otherwise valid message"""
    yield rule, bt
    if S.stiffness(bt) < 2 or True:
        outer = S.mk_struct(nm('O'), [('p', 'plain', sc('u16')), ('b', 'plain', bt)])
        yield rule + " (nested last member)", outer


def usable(job_res):
    if "compile_error" in job_res:
        return None
    if "import_error" in job_res or "worker_error" in job_res:
        return False
    return True


def main():
    chk = Check("C12")
    chk.build()
    rng = random.Random(chk.seed)
    quick = chk.tier == "quick"
    nm = S.Namer("L")

    # ---------- (1) what prophyc accepts must be realisable by every back-end
    cases = codec.gen_schemas(chk.tier, chk.seed, want_random=70 if quick else 600, k=2)
    if quick:
        cases = [c for i, c in enumerate(cases) if c[0] != "exhaustive" or i % 14 == 0]
    extra = [("corpus", f, t) for pid in ("C12", "C04", "C03") for f, t, vs, j in codec.load_corpus(pid)]
    # value-level specials that are legal by the documented rules but stress the back-ends
    E2 = S.mk_enum(nm('En'), [(nm('EV'), 1), (nm('EV'), 1)])
    extra.append(("special", "duplicate enumerator values", S.mk_struct(nm('S'), [('e', 'plain', E2)])))
    extra.append(("special", "enumerator 2^32-1 and 0", S.mk_struct(nm('S'), [('e', 'plain', S.mk_enum(nm('En'), [(nm('EV'), 0), (nm('EV'), 2 ** 32 - 1)]))])))
    cases = extra + cases
    jobs = codec.make_jobs(cases, rng, 1, ["encode"])
    pyres = impl.run_py_jobs(jobs)
    cj = [{"id": j["id"], "schema": j["schema"], "text": j["text"], "root": j["root"], "ops": []} for j in jobs]
    full = cpprun.run_full(cj, timeout=300)
    raw = cpprun.run_raw(cj, timeout=300)
    # the Coq spec's verdict on legality
    work = common.scratch("c12")
    ents = list(range(len(cases)))

    def ex(i, names):
        return "(%d, 0, accept_flags %s)" % (i, S.to_coq(cases[i][2], names))

    files = codec.write_case_files(work, "legal", ents, ex, chunk=300)
    flags = {i: r for i, _, r in codec.eval_case_files(files)}
    legal = {i: r[0] == 1 for i, r in flags.items()}
    model_accepts = {i: r[1] == 1 for i, r in flags.items()}
    chk.coverage["front_end_model_compared"] = 0
    acc = 0
    for i, (stream, label, t) in enumerate(cases):
        chk.count()
        chk.seen_class(("valid", tuple(k[0] for _, k, _ in t[2])), len(t[2]) > 1)
        r = pyres.get(i, {})
        pu = usable(r)
        case = {"label": label, "schema_text": S.to_prophy(t), "schema": t, "spec_legal": legal.get(i)}
        # the tie of props/C12.v: the verdict of the real front-end against the model's (pc_accepts, evaluated in Coq)
        chk.coverage["front_end_model_compared"] += 1
        if (pu is not None) != model_accepts.get(i):
            chk.violation("model-%d" % i, dict(case, kind="broken correspondence: prophyc %s the schema, model/PcValidate.v pc_accepts says %s"
                                               % ("accepts" if pu is not None else "rejects", model_accepts.get(i)),
                                               detail=r.get("compile_error", "")[:300]),
                          "" if (pu is not None) != legal.get(i) else "no-failing-input-found", match=False)
        if pu is None:
            # prophyc refused the schema: fine for C12 unless the documented rules (Coq `legal`) allow it
            if legal.get(i):
                chk.violation("refused-%d" % i, dict(case, kind="prophyc rejects a schema that breaks no documented rule",
                                                     detail=r.get("compile_error", "")[:300]))
            continue
        acc += 1
        if pu is False:
            chk.violation("python-%d" % i, dict(case, kind="prophyc succeeded but the generated Python module cannot be imported",
                                                detail=r.get("import_error") or r.get("worker_error")))
        fr = full.get(i, {})
        if "compile_error" in fr:
            chk.violation("cppfull-%d" % i, dict(case, kind="prophyc succeeded but the generated C++ full codec does not compile",
                                                 detail=fr["compile_error"][:400]))
        elif "prophyc_error" in fr and not re.search(r"Multiple arrays bounded by the same member|byte size unknown", fr["prophyc_error"]):
            chk.violation("cppfullgen-%d" % i, dict(case, kind="--cpp_full_out fails on a schema --python_out accepts, without its documented diagnostic",
                                                    detail=fr["prophyc_error"][:400]))
        rr = raw.get(i, {})
        if "compile_error" in rr:
            chk.violation("cppraw-%d" % i, dict(case, kind="prophyc succeeded but the generated raw C++ does not compile",
                                                detail=rr["compile_error"][:400]))
        elif "prophyc_error" in rr:
            chk.violation("cpprawgen-%d" % i, dict(case, kind="--cpp_out fails on a schema --python_out accepts",
                                                   detail=rr["prophyc_error"][:400]))
    chk.coverage["accepted_schemas_checked_in_three_back_ends"] = acc

    # ---------- (2) rule breakers must be rejected with a diagnostic
    bcases = []
    for rule, bt in breakers(rng, nm):
        for r2, t2 in embed(rng, rule, bt, nm):
            bcases.append((r2, t2))
    # rule-breaking edits of generated valid structs: append a member after a greedy tail, wrap dynamic ones in fixed arrays ...
    for stream, label, t in cases[:200 if quick else 800]:
        s_ = S.stiffness(t)
        if s_ == 2:
            bcases.append(("member after an unlimited member [%s]" % label, S.mk_struct(nm('X'), [('m', 'plain', t), ('z', 'plain', sc('u8'))])))
            bcases.append(("unlimited struct in a dynamic array [%s]" % label, S.mk_struct(nm('X'), [('m', 'dyn', t)])))
        if s_ >= 1:
            bcases.append(("dynamic/unlimited struct in a fixed array [%s]" % label, S.mk_struct(nm('X'), [('m', ('fixed', 2), t)])))
            bcases.append(("optional dynamic/unlimited struct [%s]" % label, S.mk_struct(nm('X'), [('m', 'opt', t)])))
            bcases.append(("dynamic/unlimited struct as union arm [%s]" % label,
                           S.mk_struct(nm('X'), [('u', 'plain', S.mk_union(nm('U'), [(0, 'a', sc('u8')), (1, 'b', t)]))])))

    def bex(i, names):
        return "(%d, 0, accept_flags %s)" % (i, S.to_coq(bcases[i][1], names))

    files = codec.write_case_files(work, "illegal", list(range(len(bcases))), bex, chunk=300)
    bflags = {i: r for i, _, r in codec.eval_case_files(files)}
    blegal = {i: r[0] == 1 for i, r in bflags.items()}
    bmodel = {i: r[1] == 1 for i, r in bflags.items()}
    texts = []
    model_of_text = {}
    for i, (rule, t) in enumerate(bcases):
        try:
            model_of_text[S.to_prophy(t)] = bmodel.get(i)
            texts.append((rule, S.to_prophy(t), t[1], blegal.get(i), t))
            if "[" not in rule:
                # the documented rules do not depend on typedef indirection: the same breaker with every member
                # type (counters included) behind a two-level typedef chain
                texts.append((rule + " (through typedefs)", S.to_prophy_aliased(t), t[1], blegal.get(i), t))
        except ValueError:
            continue
    for rule, text, root in text_breakers(nm):
        texts.append((rule, text, root, False, None))

    def run_b(item):
        rule, text, root, isl, t = item
        d = common.scratch("c12b")
        with open(os.path.join(d, "b.prophy"), "w") as f:
            f.write(text)
        out = os.path.join(d, "out")
        os.makedirs(out)
        r = F.compile_files(["b.prophy"], ["--python_out", "out"], cwd=d, entry="main")
        imp = None
        if r["rc"] == 0 and not r["timeout"]:
            import subprocess
            p = subprocess.run([common.PY, "-c", "import sys; sys.path.insert(0, %r); import b" % out], capture_output=True, text=True,
                               env=common.impl_env(), timeout=60)
            imp = "imports" if p.returncode == 0 else (p.stderr.strip().split("\n")[-1][:200] or "import failed")
        return rule, text, isl, r, imp, t

    for rule, text, isl, r, imp, t in F.pmap(run_b, texts):
        chk.count()
        chk.seen_class(("breaker", re.sub(r" \[.*", "", rule)), True)
        if text in model_of_text and not r["timeout"]:
            chk.coverage["front_end_model_compared"] += 1
            if (r["rc"] == 0) != model_of_text[text]:
                chk.violation("model-b-%s" % re.sub(r"[^a-z0-9]+", "-", rule.lower())[:50],
                              {"kind": "broken correspondence: prophyc %s the schema, model/PcValidate.v pc_accepts says %s"
                                       % ("accepts" if r["rc"] == 0 else "rejects", model_of_text[text]),
                               "rule_instance": rule, "schema_text": text, "schema": t, "stderr": r["stderr"][-300:]},
                              "" if (r["rc"] == 0) != bool(isl) else "no-failing-input-found", match=False)
        if isl:
            continue        # the edit did not break a documented rule after all (spec says legal)
        if r["rc"] == 0 and not r["timeout"]:
            hist = chk.coverage.setdefault("accepted_rule_breakers", {})
            hist[re.sub(r" \[.*", "", rule)] = hist.get(re.sub(r" \[.*", "", rule), 0) + 1
            chk.violation("accepted-%s" % re.sub(r"[^a-z0-9]+", "-", rule.lower())[:60],
                          {"kind": "prophyc accepts a schema that breaks a documented composability rule", "rule": re.sub(r" \[.*", "", rule),
                           "rule_instance": rule, "schema_text": text, "schema": t, "generated_python": imp,
                           "stderr": r["stderr"][-300:]})
    chk.coverage["rule_breakers"] = len(texts)
    chk.coverage["rule"] = ("(1) schemas from the C01 streams plus value-level specials: when prophyc --python_out succeeds the module must "
                            "import, --cpp_full_out/--cpp_out must succeed (the documented 'multiple arrays bounded by the same member' "
                            "refusal excepted) and both generated C++ translation units must compile with g++ against the shipped headers; a "
                            "schema the Coq spec `legal` accepts must not be refused. (2) rule breakers — one documented composability rule "
                            "broken per schema (hand-built matrix, edits of generated schemas, text-only cases such as duplicate names) and "
                            "confirmed illegal by the Coq spec — must be rejected by prophyc with a diagnostic. Every verdict of the real front-end is also "
                            "compared with the model pc_accepts (model/PcValidate.v) evaluated inside Coq: the tie of the theorems of props/C12.v.")
    chk.sample({"rule": texts[0][0], "schema": texts[0][1]})
    chk.sample({"rule": texts[-1][0], "schema": texts[-1][1]})
    chk.assumptions += ["that g++ accepts the generated text is observed, never proved"]
    return chk.finish(level="proof")


if __name__ == "__main__":
    sys.exit(main())
