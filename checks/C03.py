#!/venv/bin/python
"""C03 — Python and generated C++ full codec are wire-compatible for every message."""
import os
import random
import sys

sys.path.insert(0, os.path.dirname(os.path.abspath(__file__)))
sys.path.insert(0, os.path.join(os.path.dirname(os.path.abspath(__file__)), "..", "tools"))
import cppcommon as C  # noqa: E402
import schema as S  # noqa: E402
from checklib import Check  # noqa: E402


def main():
    chk = Check("C03")
    chk.build()
    rng = random.Random(chk.seed)
    quick = chk.tier == "quick"
    cases, jobs, pyres, records, tail_ok, errors = C.canonical_ops(
        chk, 150 if quick else 2500, 6 if quick else 1, 3 if quick else 4, rng, k=2)
    C.report_build_errors(chk, cases, errors)
    for i, vi, e, h, o in records:
        chk.count()
        t = cases[i][2]
        v = S.value_from_json(jobs[i]["values"][max(vi, 0)])
        chk.seen_class((S.shape_class(t, v), e), S.nontrivial(t, v))
        if vi < 0 or not tail_ok.get((i, vi)):
            continue          # documented exception: greedy tail not ending aligned
        bad = None
        if "crash" in o or "exception" in o:
            bad = "C++ decode of the canonical bytes crashed: %s" % (o.get("crash") or o.get("exception"))
        elif not o.get("ok"):
            bad = "C++ decode<%s> rejects the canonical bytes" % e
        elif o.get("reenc") != h:
            bad = "C++ encode<%s> of the decoded object differs from the canonical bytes" % e
        elif e == "little" and o.get("enc_native") != o.get("enc_little"):
            bad = "native encoding differs from the host (little-endian) order"
        if bad:
            chk.violation("cpp-%d-%d-%s" % (i, vi, e), C.case_of(cases, jobs, i, vi, {
                "kind": bad, "endianness": e, "canonical": h,
                "cpp": {k: o.get(k) for k in ("ok", "reenc", "size", "crash", "exception")}}))
    chk.coverage["rule"] = ("schemas the C++ full generator supports (exhaustive-small sampled + random), values as in C01; canonical "
                            "bytes = the Python encoder's output (C01 checks these against the Coq spec); the compiled generated C++ "
                            "decodes them with decode<little>/<big> on an exact-size heap buffer and re-encodes with encode<E>(); "
                            "oracle: ok and identical bytes, native = little on this host. Values whose greedy tail does not end "
                            "aligned (computed by the Coq spec) are excluded as documented.")
    if records:
        i, vi, e, h, o = records[len(records) // 2]
        chk.sample({"schema": S.to_prophy(cases[i][2]), "endianness": e, "canonical": h, "cpp_ok": o.get("ok")})
    chk.assumptions += ["g++ 12 -O1, x86-64; template dispatch and the compiler are trusted",
                        "host is little-endian (observed: enc_native == enc_little)"]
    return chk.finish(level="exploration")


if __name__ == "__main__":
    sys.exit(main())
