#!/venv/bin/python
"""C03 — Python and generated C++ full codec are wire-compatible for every message."""
import os
import random
import sys

sys.path.insert(0, os.path.dirname(os.path.abspath(__file__)))
sys.path.insert(0, os.path.join(os.path.dirname(os.path.abspath(__file__)), "..", "tools"))
import codec  # noqa: E402
import common  # noqa: E402
import cppcommon as C  # noqa: E402
import schema as S  # noqa: E402
from checklib import Check  # noqa: E402


def main():
    chk = Check("C03")
    chk.build()
    rng = random.Random(chk.seed)
    quick = chk.tier == "quick"
    cases, jobs, pyres, records, tail_ok, errors = C.canonical_ops(
        chk, 150 if quick else 600, 6 if quick else 2, 3 if quick else 4, rng, k=2)
    C.report_build_errors(chk, cases, errors)
    for i, vi, e, h, o in records:
        chk.count()
        t = cases[i][2]
        v = S.value_from_json(jobs[i]["values"][max(vi, 0)])
        chk.seen_class((S.shape_class(t, v), e), S.nontrivial(t, v))
        if vi < 0 or not tail_ok.get((i, vi)):
            continue          # documented exception: greedy tail not ending aligned
        bad = None
        if "crash" in o or "exception" in o:
            bad = "C++ decode of the canonical bytes crashed: %s" % (o.get("crash") or o.get("exception"))
        elif not o.get("ok"):
            bad = "C++ decode<%s> rejects the canonical bytes" % e
        elif o.get("reenc") != h:
            bad = "C++ encode<%s> of the decoded object differs from the canonical bytes" % e
        elif e == "little" and o.get("enc_native") != o.get("enc_little"):
            bad = "native encoding differs from the host (little-endian) order"
        if bad:
            chk.violation("cpp-%d-%d-%s" % (i, vi, e), C.case_of(cases, jobs, i, vi, {
                "kind": bad, "endianness": e, "canonical": h,
                "cpp": {k: o.get(k) for k in ("ok", "reenc", "size", "crash", "exception")}}))
    # the tie of the C03 theorem: the bytes the compiled encoder wrote = the generator/run-time model cpp_encode = wire,
    # evaluated inside Coq
    entries = []
    for i, vi, e, h, o in records:
        if vi >= 0 and tail_ok.get((i, vi)) and o.get("ok") and o.get("reenc") and e in ("little", "big"):
            entries.append((i, vi, e, o["reenc"]))

    def ex(en, names):
        i, vi, e, hx = en
        return "(%d, %d, cpp_enc_case %s %s %s %s)" % (i, vi, "LE" if e == "little" else "BE", S.to_coq(cases[i][2], names),
                                                       S.value_coq(S.value_from_json(jobs[i]["values"][vi])), S.bytes_coq(bytes.fromhex(hx)))

    files = codec.write_case_files(common.scratch("c03"), "enc", entries, ex, chunk=200)
    for i, vi, r in codec.eval_case_files(files):
        if r[:1] == [92]:
            chk.violation("corr-%d-%d" % (i, vi), C.case_of(cases, jobs, i, vi, {
                "kind": "correspondence broken: CppFull.cpp_encode (theorem C03_cpp_encode_canonical) no longer describes the generated "
                        "encoder, whose output is still canonical", "result": r}), note="no-failing-input-found")
        else:
            chk.violation("wire-%d-%d" % (i, vi), C.case_of(cases, jobs, i, vi, {
                "kind": "the C++ encoding of the decoded object is not the canonical encoding of the Coq spec (result = [93; canonical length])",
                "result": r}))
    chk.coverage["coq_encode_cases"] = len(entries)
    chk.coverage["rule"] = ("schemas the C++ full generator supports (exhaustive-small sampled + random), values as in C01; canonical "
                            "bytes = the Python encoder's output (C01 checks these against the Coq spec); the compiled generated C++ "
                            "decodes them with decode<little>/<big> on an exact-size heap buffer and re-encodes with encode<E>(); "
                            "oracle: ok and identical bytes, native = little on this host. Values whose greedy tail does not end "
                            "aligned (computed by the Coq spec) are excluded as documented. Every C++ encoding is also compared inside Coq with the "
                            "generator/run-time model cpp_encode and with wire.")
    if records:
        i, vi, e, h, o = records[len(records) // 2]
        chk.sample({"schema": S.to_prophy(cases[i][2]), "endianness": e, "canonical": h, "cpp_ok": o.get("ok")})
    chk.assumptions += ["g++ 12 -O1, x86-64; template dispatch and the compiler are trusted",
                        "host is little-endian (observed: enc_native == enc_little)"]
    return chk.finish(level="proof")


if __name__ == "__main__":
    sys.exit(main())
