#!/venv/bin/python
"""C05 — C++ full codec: get_byte_size equals bytes written; encode stays in bounds."""
import os
import random
import sys

sys.path.insert(0, os.path.dirname(os.path.abspath(__file__)))
sys.path.insert(0, os.path.join(os.path.dirname(os.path.abspath(__file__)), "..", "tools"))
import codec  # noqa: E402
import common  # noqa: E402
import cppcommon as C  # noqa: E402
import schema as S  # noqa: E402
from checklib import Check  # noqa: E402


def main():
    chk = Check("C05")
    chk.build()
    rng = random.Random(chk.seed)
    quick = chk.tier == "quick"
    cases, jobs, pyres, records, tail_ok, errors = C.canonical_ops(
        chk, 150 if quick else 500, 6 if quick else 2, 3 if quick else 4, rng, overfill=True,
        sanitize=not quick, k=2, fresh=True)
    C.report_build_errors(chk, cases, errors)
    for i, vi, e, h, o in records:
        chk.count()
        t = cases[i][2]
        v = S.value_from_json(jobs[i]["values"][max(vi, 0)])
        chk.seen_class((S.shape_class(t, v), e), S.nontrivial(t, v))
        if not o.get("ok"):
            continue       # whether canonical bytes decode is C03's question; C05 is about objects that exist
        bad = None
        size = o.get("size")
        if "crash" in o:
            bad = "crash while sizing/encoding: %s" % o["crash"]
        elif o.get("exceptions"):
            bad = "exception while sizing/encoding: %s" % o["exceptions"]
        elif size != o.get("ptr_written"):
            bad = "get_byte_size() = %s but the pointer encode wrote %s bytes" % (size, o.get("ptr_written"))
        elif o.get("reenc") is None or size != len(o["reenc"]) // 2:
            bad = "get_byte_size() = %s but encode() returned %s bytes" % (size, len(o.get("reenc") or "") // 2)
        elif o.get("heap_overrun"):
            bad = "encode wrote past a buffer of get_byte_size() bytes (%d guard blocks damaged)" % o["heap_overrun"]
        elif e not in ("overfill", "fresh") and S.stiffness(t) == 0 and size != len(h) // 2:
            bad = "fixed type: get_byte_size() = %s, wire size %d" % (size, len(h) // 2)
        if bad:
            chk.violation("size-%d-%d-%s" % (i, vi, e), C.case_of(cases, jobs, i, vi, {
                "kind": bad, "op": e, "input": h,
                "cpp": {k: o.get(k) for k in ("size", "ptr_written", "reenc", "heap_overrun", "crash", "exceptions", "overfilled")}}))
    # the tie of the C05 theorem: get_byte_size() of the compiled code = the generator model cpp_size = len (wire),
    # evaluated inside Coq for every object obtained from canonical bytes (not the over-filled ones: they are
    # outside wt; their size is compared with what the encoder writes above)
    seen = set()
    entries = []
    for i, vi, e, h, o in records:
        if o.get("ok") and e not in ("overfill", "fresh") and vi >= 0 and o.get("size") is not None and tail_ok.get((i, vi), True) and (i, vi) not in seen:
            seen.add((i, vi))
            entries.append((i, vi, o["size"]))

    def ex(en, names):
        i, vi, size = en
        return "(%d, %d, cpp_size_case %s %s %s)" % (i, vi, S.to_coq(cases[i][2], names),
                                                      S.value_coq(S.value_from_json(jobs[i]["values"][vi])), S.zlit(size))

    files = codec.write_case_files(common.scratch("c05"), "size", entries, ex, chunk=300)
    for i, vi, r in codec.eval_case_files(files):
        if r[:1] == [90]:
            chk.violation("corr-%d-%d" % (i, vi), C.case_of(cases, jobs, i, vi, {
                "kind": "correspondence broken: CppFull.cpp_size (theorem C05_get_byte_size_is_wire_length) no longer describes the "
                        "generated get_byte_size(), which still returns the length of the canonical encoding", "result": r}),
                note="no-failing-input-found")
        else:
            chk.violation("wire-%d-%d" % (i, vi), C.case_of(cases, jobs, i, vi, {
                "kind": "get_byte_size() of the object decoded from the canonical bytes is not the length of the canonical encoding "
                        "(result = [91; canonical length])", "result": r}))
    chk.coverage["coq_size_cases"] = len(entries)
    chk.coverage["rule"] = ("schemas/values as in C03; C++ objects are obtained by decoding canonical bytes, and additionally by "
                            "appending 2 extra elements to every limited array/bytes at any depth (over-full limited vectors), and without the "
                            "decoder at all: default-constructed objects whose vectors got 0 / 1 / 2 default elements (op fresh). For "
                            "each object: get_byte_size(), bytes written by encode<E>(void*) into an exact-size heap block, length "
                            "of encode<E>(); guard bytes after every heap block (quick) or ASan+UBSan (thorough) detect writes "
                            "outside the buffer; fixed types must report their wire size. Every get_byte_size() of a decoded object is also compared "
                            "inside Coq with the generator model cpp_size and with len (wire).")
    if records:
        i, vi, e, h, o = records[len(records) // 3]
        chk.sample({"schema": S.to_prophy(cases[i][2]), "op": e, "input": h, "size": o.get("size"), "ptr_written": o.get("ptr_written")})
    chk.assumptions += ["g++ 12, x86-64; sanitizers / guard bytes detect overflow, they do not prove its absence"]
    return chk.finish(level="proof")


if __name__ == "__main__":
    sys.exit(main())
