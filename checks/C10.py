#!/venv/bin/python
"""C10 — Python message API keeps every reachable message state valid."""
import os
import random
import sys

sys.path.insert(0, os.path.dirname(os.path.abspath(__file__)))
sys.path.insert(0, os.path.join(os.path.dirname(os.path.abspath(__file__)), "..", "tools"))
import apihist as A  # noqa: E402
import schema as S  # noqa: E402
from checklib import Check  # noqa: E402

CODE_NAME = {0: "no exception", 1: "ProphyError", 5: "IndexError", 6: "ValueError", 7: "(not an API operation: harness bug)"}


def shared_sizer_lengths_differ(t, v):
    """the one documented encode-time refusal: arrays sharing a counter have different lengths (anywhere in the tree)"""
    if t[0] == "struct":
        by = {}
        for (fname, k, ft), x in zip(t[2], v[1]):
            if k[0] in ("bound", "limited"):
                by.setdefault(k[-1], set()).add(len(x[1]))
            if ft[0] in ("struct", "union"):
                if k[0] == "plain" and shared_sizer_lengths_differ(ft, x):
                    return True
                if k[0] == "opt" and x is not None and shared_sizer_lengths_differ(ft, x[1]):
                    return True
                if k[0] in ("fixed", "bound", "limited", "greedy") and any(shared_sizer_lengths_differ(ft, e) for e in x[1]):
                    return True
        return any(len(s) > 1 for s in by.values())
    if t[0] == "union":
        at = t[2][v[1]][2]
        return at[0] in ("struct", "union") and shared_sizer_lengths_differ(at, v[2])
    return False


def report(chk, cases, bad, prefix=""):
    for i, h, r, ops, hr in bad:
        step = r[0]
        st = hr["steps"][step] if step < len(hr["steps"]) else {}
        case = {"schema_text": S.to_prophy(cases[i][2]), "schema": cases[i][2], "root": cases[i][2][1],
                "history": ops[:step + 1], "failing_step": step, "failing_op": ops[step],
                "observed_exception": st.get("exc"), "reference_outcome": CODE_NAME.get(r[1], r[1]),
                "state_a_equal": bool(r[2]), "state_b_equal": bool(r[3]),
                "observed_state_a": st.get("a"), "observed_state_b": st.get("b")}
        exc = st.get("exc")
        if exc not in (None, "ProphyError", "IndexError", "ValueError"):
            case["kind"] = "an API operation raised %s" % exc
        elif r[1] == 7:
            case["kind"] = "harness sent an operation the reference model does not define"
            chk.violation("%sharness-%d-%d" % (prefix, i, h), case, "no-failing-input-found")
            continue
        elif A.EXC_CODE.get(exc, 9) != r[1]:
            case["kind"] = "operation outcome differs from the reference model (observed %s, reference %s)" % (exc or "no exception", CODE_NAME.get(r[1]))
        else:
            case["kind"] = "observable state differs from the reference model after the operation"
        chk.violation("%sapi-%d-%d" % (prefix, i, h), case)


def main():
    chk = Check("C10")
    chk.build()
    rng = random.Random(chk.seed)
    quick = chk.tier == "quick"
    if chk.replay_mode:
        import json
        with open(chk.replay_mode) as f:
            j = json.load(f)
        t = S.from_json(j["schema"])
        cases = [("replay", "replay", t)]
        hist = {0: [j["history"]]}
        results = A.execute(cases, hist)
        entries, bad = A.compare_in_coq(chk, cases, hist, results, "c10r")
        report(chk, cases, bad)
        return chk.finish()
    cases = A.api_schemas(chk, 60 if quick else 600)
    hist, results = A.grow_histories(chk, cases, rng, 4 if quick else 6, 12 if quick else 24)
    entries, bad = A.compare_in_coq(chk, cases, hist, results, "c10")
    report(chk, cases, bad)
    nops = 0
    kinds = {}
    for i, h, ops, hr in entries:
        nops += len(ops)
        for op, st in zip(ops, hr["steps"]):
            key = (op["op"], st.get("exc") or "ok")
            kinds[key] = kinds.get(key, 0) + 1
            chk.seen_class((cases[i][1].split("@")[0], op["op"], st.get("exc") or "ok"), True)
        # every reachable message can be encoded (unequal lengths of arrays sharing a counter excepted)
        fin = hr.get("final_encode", {})
        last = hr["steps"][-1] if hr["steps"] else {}
        for name in "ab":
            e = fin.get(name, "")
            if e.startswith("EXC:"):
                ok = (e == "EXC:ProphyError" and name in last and shared_sizer_lengths_differ(cases[i][2], last[name]))
                if not ok:
                    chk.violation("encode-%d-%d" % (i, h), {"kind": "a reachable message cannot be encoded: %s" % e[4:], "exception": e[4:],
                                                           "schema_text": S.to_prophy(cases[i][2]), "schema": cases[i][2],
                                                           "history": ops, "state": last.get(name)})
    chk.coverage["evaluations"] = nops
    chk.coverage["operation_outcomes"] = {"%s/%s" % k: v for k, v in sorted(kinds.items())}
    chk.coverage["rule"] = ("schemas as in C01 (all field kinds); histories of public API operations (scalar/enum/bytes assignment, optional "
                            "set/clear, discriminator switch, append/insert/extend/item and slice assignment/deletion/remove/add) with valid, "
                            "out-of-range and wrongly typed arguments (ints, bools, floats, strings, bytes, None, lists, one-shot iterators), "
                            "generated against the implementation's own observed state so that paths and indices are meaningful. After every "
                            "operation the exception class and the full observable state are compared inside Coq with the reference model "
                            "spec/ApiSpec.v; finally every reached message must encode. distinct_nontrivial = distinct (schema shape, "
                            "operation, outcome).")
    if entries:
        i, h, ops, hr = entries[len(entries) // 2]
        chk.sample({"schema": S.to_prophy(cases[i][2]), "history": ops[:4], "observed": [s.get("exc") for s in hr["steps"][:4]]})
    return chk.finish(level="proof")


if __name__ == "__main__":
    sys.exit(main())
