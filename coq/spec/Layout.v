(* spec/Layout.v — alignment and size as docs/encoding.rst defines them. Definitions only. *)
From Coq Require Import ZArith List Bool.
From Prophy Require Import Bytes Schema.
Import ListNotations.
Local Open Scope Z_scope.

(* "Composite alignment is the greatest alignment of its fields. Optional flag, union
   discriminator, array delimiter all contribute to struct alignment." *)
Section Al.
  Variable alT : ty -> Z.
  Definition falign (f : field) : Z :=
    match fst f with FOpt => Z.max 4 (alT (snd f)) | _ => alT (snd f) end.
  Definition salign (fs : list field) : Z := fold_right (fun f acc => Z.max (falign f) acc) 1 fs.
  Definition ualign (arms : list (Z * ty)) : Z :=
    fold_right (fun a acc => Z.max (alT (snd a)) acc) 4 arms.
End Al.

Fixpoint align (t : ty) : Z :=
  match t with
  | TScalar k => sk_size k
  | TByte => 1
  | TEnum _ => 4
  | TStruct fs => salign align fs
  | TUnion arms => ualign align arms
  end.

(* "first field of such block has the greatest alignment of all block fields":
   alignment of the block that starts with the first member of [fs] *)
Fixpoint blockal (fs : list field) : Z :=
  match fs with
  | [] => 1
  | f :: r => if ends_block f then falign align f else Z.max (falign align f) (blockal r)
  end.

(* size on the wire; for dynamic types the size with every dynamic part empty *)
Section Sz.
  Variable szT : ty -> Z.
  Definition fsize (f : field) : Z :=
    match fst f with
    | FPlain => szT (snd f)
    | FOpt => falign align f + szT (snd f)
    | FFixed n => n * szT (snd f)
    | FLimited n _ => n * szT (snd f)
    | FBound _ | FGreedy => 0
    end.
  Fixpoint sz_fields (fs : list field) (after_dyn : bool) (o : Z) : Z :=
    match fs with
    | [] => o
    | f :: r =>
        let a := if after_dyn then blockal (f :: r) else falign align f in
        sz_fields r (ends_block f) (o + pad a o + fsize f)
    end.
  Definition usize (arms : list (Z * ty)) : Z :=
    fold_right (fun a acc => Z.max (szT (snd a)) acc) 0 arms.
End Sz.

Fixpoint size (t : ty) : Z :=
  match t with
  | TScalar k => sk_size k
  | TByte => 1
  | TEnum _ => 4
  | TStruct fs => let e := sz_fields size fs false 0 in e + pad (salign align fs) e
  | TUnion arms =>
      let a := ualign align arms in
      let e := a + usize size arms in e + pad a e
  end.
