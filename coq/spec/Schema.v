(* spec/Schema.v — the schema AST shared by the specification and all models,
   message values, the documented composability rules ([legal]) and value typing ([wt]).
   Definitions only. *)
From Coq Require Import ZArith List Bool.
From Prophy Require Import Bytes.
Import ListNotations.
Local Open Scope Z_scope.

Inductive sk := U8 | U16 | U32 | U64 | I8 | I16 | I32 | I64 | R32 | R64.

Definition sk_size (k : sk) : Z :=
  match k with
  | U8 | I8 => 1 | U16 | I16 => 2 | U32 | I32 | R32 => 4 | U64 | I64 | R64 => 8
  end.

Definition sk_signed (k : sk) : bool :=
  match k with I8 | I16 | I32 | I64 => true | _ => false end.

Definition sk_is_int (k : sk) : bool :=
  match k with R32 | R64 => false | _ => true end.

(* value range of a scalar; floats are carried as their unsigned bit pattern *)
Definition sk_min (k : sk) : Z := if sk_signed k then - 2 ^ (8 * sk_size k - 1) else 0.
Definition sk_max (k : sk) : Z :=
  if sk_signed k then 2 ^ (8 * sk_size k - 1) - 1 else 2 ^ (8 * sk_size k) - 1.

(* how a struct member uses its type *)
Inductive fkind :=
| FPlain                          (* T x;       (also the counter fields, see [wt]) *)
| FOpt                            (* T* x;      *)
| FFixed (n : Z)                  (* T x[n];    *)
| FBound (s : nat)                (* T x<@s>;   counted by member number s; T x<> is u32 + FBound *)
| FLimited (n : Z) (s : nat)      (* T x<n>;    counted by member number s, n slots on the wire *)
| FGreedy.                        (* T x<...>;  *)

Inductive ty :=
| TScalar (k : sk)
| TByte                            (* element of a bytes field *)
| TEnum (vals : list Z)
| TStruct (fs : list (fkind * ty))
| TUnion (arms : list (Z * ty)).   (* discriminator, arm *)

Definition field := (fkind * ty)%type.

Inductive value :=
| VInt (z : Z)
| VNone
| VSome (v : value)
| VList (vs : list value)
| VStruct (vs : list value)
| VUnion (i : nat) (v : value).    (* index of the discriminated arm, its value *)

(* ---------- nested induction principle ---------- *)
Section ty_ind.
  Variable P : ty -> Prop.
  Hypothesis Hsc : forall k, P (TScalar k).
  Hypothesis Hby : P TByte.
  Hypothesis Hen : forall vals, P (TEnum vals).
  Hypothesis Hst : forall fs, Forall (fun f => P (snd f)) fs -> P (TStruct fs).
  Hypothesis Hun : forall arms, Forall (fun a => P (snd a)) arms -> P (TUnion arms).
  Fixpoint ty_ind' (t : ty) : P t :=
    match t with
    | TScalar k => Hsc k
    | TByte => Hby
    | TEnum vals => Hen vals
    | TStruct fs => Hst fs ((fix go (l : list field) : Forall (fun f => P (snd f)) l :=
        match l with [] => Forall_nil _ | f :: r => Forall_cons f (ty_ind' (snd f)) (go r) end) fs)
    | TUnion arms => Hun arms ((fix go (l : list (Z * ty)) : Forall (fun a => P (snd a)) l :=
        match l with [] => Forall_nil _ | a :: r => Forall_cons a (ty_ind' (snd a)) (go r) end) arms)
    end.
End ty_ind.

(* ---------- field kind helpers ---------- *)
Definition is_array (k : fkind) : bool :=
  match k with FFixed _ | FBound _ | FLimited _ _ | FGreedy => true | _ => false end.

Definition sizer_of (k : fkind) : option nat :=
  match k with FBound s | FLimited _ s => Some s | _ => None end.

(* does member [f] name member number [i] as its counter? *)
Definition bound_to (i : nat) (f : field) : bool :=
  match sizer_of (fst f) with Some s => Nat.eqb s i | None => false end.

Definition is_sizer (fs : list field) (i : nat) : bool := existsb (bound_to i) fs.

(* ---------- stiffness (docs/encoding.rst: fixed, dynamic, unlimited) ---------- *)
Inductive stiff := Fixed | Dynamic | Unlimited.

Definition stiff_max (a b : stiff) : stiff :=
  match a, b with
  | Unlimited, _ | _, Unlimited => Unlimited
  | Dynamic, _ | _, Dynamic => Dynamic
  | _, _ => Fixed
  end.

Definition stiff_eqb (a b : stiff) : bool :=
  match a, b with Fixed, Fixed | Dynamic, Dynamic | Unlimited, Unlimited => true | _, _ => false end.

Section Stiff.
  Variable stT : ty -> stiff.
  Definition fstiff (f : field) : stiff :=
    match fst f with
    | FPlain => stT (snd f)
    | FOpt | FFixed _ | FLimited _ _ => Fixed
    | FBound _ => Dynamic
    | FGreedy => Unlimited
    end.
  Definition stiff_fields (fs : list field) : stiff :=
    fold_right (fun f acc => stiff_max (fstiff f) acc) Fixed fs.
End Stiff.

Fixpoint stiffness (t : ty) : stiff :=
  match t with
  | TStruct fs => stiff_fields stiffness fs
  | _ => Fixed
  end.

Definition is_fixed (t : ty) : bool := stiff_eqb (stiffness t) Fixed.

(* a member after which the block-alignment rule applies *)
Definition ends_block (f : field) : bool := negb (stiff_eqb (fstiff stiffness f) Fixed).

(* ---------- legality: the composability rules of docs/encoding.rst and docs/schema.rst ---------- *)
Definition int_scalar (t : ty) : bool :=
  match t with TScalar k => sk_is_int k | _ => false end.

Fixpoint nodupZ (l : list Z) : bool :=
  match l with [] => true | x :: r => negb (existsb (Z.eqb x) r) && nodupZ r end.

Definition u32_ok (z : Z) : bool := (0 <=? z) && (z <? 2 ^ 32).

Definition not_byte (t : ty) : bool := match t with TByte => false | _ => true end.

Section Legal.
  Variable legalT : ty -> bool.
  (* [pre]: members before this one (for the counter rule); [last]: is this the last member *)
  Definition legal_field (pre : list field) (last : bool) (f : field) : bool :=
    let t := snd f in
    legalT t &&
    match fst f with
    | FPlain => not_byte t && (last || negb (stiff_eqb (stiffness t) Unlimited))
    | FOpt => not_byte t && is_fixed t
    | FFixed n => (0 <? n) && is_fixed t
    | FBound s =>
        negb (stiff_eqb (stiffness t) Unlimited) &&
        match nth_error pre s with
        | Some (FPlain, ts) => int_scalar ts
        | _ => false
        end
    | FLimited n s =>
        (0 <? n) && is_fixed t &&
        match nth_error pre s with
        | Some (FPlain, ts) => int_scalar ts
        | _ => false
        end
    | FGreedy => last && negb (stiff_eqb (stiffness t) Unlimited)
    end.
  Fixpoint legal_fields (pre : list field) (fs : list field) : bool :=
    match fs with
    | [] => true
    | f :: r => legal_field pre (match r with [] => true | _ => false end) f
                && legal_fields (pre ++ [f]) r
    end.
  Definition legal_arm (a : Z * ty) : bool :=
    u32_ok (fst a) && legalT (snd a) && not_byte (snd a) && is_fixed (snd a).
End Legal.

Fixpoint legal (t : ty) : bool :=
  match t with
  | TScalar _ => true
  | TByte => true
  | TEnum vals => match vals with [] => false | _ => forallb u32_ok vals end
  | TStruct fs => match fs with [] => false | _ => legal_fields legal [] fs end
  | TUnion arms =>
      match arms with [] => false | _ => forallb (legal_arm legal) arms && nodupZ (map fst arms) end
  end.

(* ---------- typing of values ---------- *)
Definition in_range (k : sk) (z : Z) : bool :=
  if sk_is_int k then (sk_min k <=? z) && (z <=? sk_max k)
  else (0 <=? z) && (z <? 2 ^ (8 * sk_size k)).      (* float: any bit pattern *)

Definition list_of (v : value) : option (list value) :=
  match v with VList xs => Some xs | _ => None end.

Section Wt.
  Variable wtT : ty -> value -> bool.
  Definition wt_field (f : field) (v : value) : bool :=
    match fst f, v with
    | FPlain, _ => wtT (snd f) v
    | FOpt, VNone => true
    | FOpt, VSome x => wtT (snd f) x
    | FFixed n, VList xs => (len xs =? n) && forallb (wtT (snd f)) xs
    | FBound _, VList xs => forallb (wtT (snd f)) xs
    | FLimited n _, VList xs => (len xs <=? n) && forallb (wtT (snd f)) xs
    | FGreedy, VList xs => forallb (wtT (snd f)) xs
    | _, _ => false
    end.
  Fixpoint wt_fields (fs : list field) (vs : list value) : bool :=
    match fs, vs with
    | [], [] => true
    | f :: r, v :: vr => wt_field f v && wt_fields r vr
    | _, _ => false
    end.
  Fixpoint wt_arms (arms : list (Z * ty)) (i : nat) (x : value) : bool :=
    match arms, i with
    | a :: _, O => wtT (snd a) x
    | _ :: r, S j => wt_arms r j x
    | _, _ => false
    end.
End Wt.

(* every counted array holds as many elements as its counter says *)
Fixpoint counts_ok (all : list value) (fs : list field) (vs : list value) : bool :=
  match fs, vs with
  | f :: r, v :: vr =>
      match sizer_of (fst f) with
      | Some s =>
          match nth_error all s, v with
          | Some (VInt n), VList xs => (n =? len xs)
          | _, _ => false
          end
      | None => true
      end && counts_ok all r vr
  | _, _ => true
  end.

Fixpoint wt (t : ty) (v : value) {struct t} : bool :=
  match t, v with
  | TScalar k, VInt z => in_range k z
  | TByte, VInt z => is_byte z
  | TEnum vals, VInt z => existsb (Z.eqb z) vals
  | TStruct fs, VStruct vs => wt_fields wt fs vs && counts_ok vs fs vs
  | TUnion arms, VUnion i x => wt_arms wt arms i x
  | _, _ => false
  end.
