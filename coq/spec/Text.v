(* spec/Text.v — the text rendering of a message as the property C18 states it: a list of lines,
   each with an indentation level, rendered as two spaces per level + content + newline.
   Names are not part of [ty]; they travel in a parallel tree [names]. Definitions only. *)
From Coq Require Import ZArith List Bool Decimal.
From Prophy Require Import Bytes Schema.
Import ListNotations.
Local Open Scope Z_scope.

(* names of a type's parts: enumerator (value, name) pairs in declaration order; member / arm names
   with the names of their types *)
Inductive names :=
| NLeaf
| NEnum (es : list (Z * bytes))
| NStruct (ms : list (bytes * names))
| NUnion (ms : list (bytes * names)).

Definition line := (nat * bytes)%type.

Definition bump (l : line) : line := (S (fst l), snd l).

Fixpoint spaces (n : nat) : bytes := match n with O => [] | S m => 32 :: 32 :: spaces m end.

Definition render_line (l : line) : bytes := spaces (fst l) ++ snd l ++ [10].
Definition render_lines (ls : list line) : bytes := flat_map render_line ls.

(* ---- decimal rendering of an integer ---- *)
Fixpoint uint_digits (u : Decimal.uint) : bytes :=
  match u with
  | Nil => []
  | D0 r => 48 :: uint_digits r | D1 r => 49 :: uint_digits r | D2 r => 50 :: uint_digits r
  | D3 r => 51 :: uint_digits r | D4 r => 52 :: uint_digits r | D5 r => 53 :: uint_digits r
  | D6 r => 54 :: uint_digits r | D7 r => 55 :: uint_digits r | D8 r => 56 :: uint_digits r
  | D9 r => 57 :: uint_digits r
  end.

Definition dec (z : Z) : bytes :=
  match Z.to_int z with
  | Decimal.Pos u => uint_digits u
  | Decimal.Neg u => 45 :: uint_digits u
  end.

(* ---- a bytes value as a quoted escaped string ---- *)
Definition hexdigit (d : Z) : Z := if d <? 10 then 48 + d else 87 + d.
Definition esc_byte (c : Z) : bytes :=
  if c =? 9 then [92; 116] else if c =? 10 then [92; 110] else if c =? 13 then [92; 114]
  else if c =? 39 then [92; 39] else if c =? 92 then [92; 92]
  else if (32 <=? c) && (c <=? 126) then [c]
  else [92; 120; hexdigit (c / 16); hexdigit (c mod 16)].
Definition quoted (bs : bytes) : bytes := 39 :: flat_map esc_byte bs ++ [39].

Definition byte_of (v : value) : Z := match v with VInt z => z | _ => 0 end.

(* name of an enumerator value: the first declared enumerator with that value *)
Fixpoint enum_name (es : list (Z * bytes)) (z : Z) : option bytes :=
  match es with
  | [] => None
  | (v, n) :: r => if v =? z then Some n else enum_name r z
  end.

Definition colon : bytes := [58; 32].          (* ": " *)
Definition open_brace : bytes := [32; 123].    (* " {" *)
Definition close_brace : bytes := [125].       (* "}" *)

Section Lines.
  (* lines of the body of a composite *)
  Variable bodyT : ty -> names -> value -> list line.

  (* one element of type [t] shown under [name] *)
  Definition elem_lines (name : bytes) (t : ty) (n : names) (v : value) : list line :=
    match t, n, v with
    | TScalar _, _, VInt z => [(O, name ++ colon ++ dec z)]
    | TByte, _, VInt z => [(O, name ++ colon ++ dec z)]
    | TEnum _, NEnum es, VInt z =>
        [(O, name ++ colon ++ match enum_name es z with Some s => s | None => dec z end)]
    | TStruct _, _, _ | TUnion _, _, _ =>
        (O, name ++ open_brace) :: map bump (bodyT t n v) ++ [(O, close_brace)]
    | _, _, _ => []
    end.

  Definition field_lines (counter : bool) (name : bytes) (f : field) (n : names) (v : value) : list line :=
    match fst f, v with
    | FPlain, _ => if counter then [] else elem_lines name (snd f) n v
    | FOpt, VSome x => elem_lines name (snd f) n x
    | FOpt, _ => []
    | _, VList xs =>
        match snd f with
        | TByte => [(O, name ++ colon ++ quoted (map byte_of xs))]
        | _ => flat_map (elem_lines name (snd f) n) xs
        end
    | _, _ => []
    end.

  Fixpoint fields_lines (all : list field) (i : nat) (fs : list field) (ms : list (bytes * names))
           (vs : list value) : list line :=
    match fs, ms, vs with
    | f :: fr, m :: mr, v :: vr =>
        field_lines (is_sizer all i) (fst m) f (snd m) v ++ fields_lines all (S i) fr mr vr
    | _, _, _ => []
    end.

  Fixpoint arm_lines (arms : list (Z * ty)) (ms : list (bytes * names)) (i : nat) (x : value) : list line :=
    match arms, ms, i with
    | a :: _, m :: _, O => elem_lines (fst m) (snd a) (snd m) x
    | _ :: ar, _ :: mr, S j => arm_lines ar mr j x
    | _, _, _ => []
    end.
End Lines.

Fixpoint body_lines (t : ty) (n : names) (v : value) {struct t} : list line :=
  match t, n, v with
  | TStruct fs, NStruct ms, VStruct vs => fields_lines body_lines fs O fs ms vs
  | TUnion arms, NUnion ms, VUnion i x => arm_lines body_lines arms ms i x
  | _, _, _ => []
  end.

(* the text of a message *)
Definition text_of (t : ty) (n : names) (v : value) : bytes := render_lines (body_lines t n v).

(* ---- side conditions ---- *)
Definition no_nl (s : bytes) : bool := forallb (fun c => negb (c =? 10)) s.

Section NamesOk.
  Variable okT : ty -> names -> bool.
  Fixpoint members_ok {A} (ts : list (A * ty)) (ms : list (bytes * names)) : bool :=
    match ts, ms with
    | [], [] => true
    | t :: tr, m :: mr => no_nl (fst m) && okT (snd t) (snd m) && members_ok tr mr
    | _, _ => false
    end.
End NamesOk.

(* names fit the type: one name per member / arm / enumerator, no newline inside a name, enumerators
   listed with the type's values, no two enumerators of one value (the C++ to_literal switch does not
   compile otherwise, and Python's name table keeps the last one: KF-O) *)
Fixpoint names_ok (t : ty) (n : names) {struct t} : bool :=
  match t, n with
  | TScalar _, NLeaf | TByte, NLeaf => true
  | TEnum vals, NEnum es =>
      forallb (fun e => no_nl (snd e)) es && forallb (fun z => existsb (fun e => fst e =? z) es) vals
      && nodupZ (map fst es)
  | TStruct fs, NStruct ms => members_ok names_ok fs ms
  | TUnion arms, NUnion ms => members_ok names_ok arms ms
  | _, _ => false
  end.

(* no floating point member anywhere (their text is produced by repr() / iostreams; not modelled) *)
Fixpoint no_float (t : ty) : bool :=
  match t with
  | TScalar R32 | TScalar R64 => false
  | TStruct fs => forallb (fun f => no_float (snd f)) fs
  | TUnion arms => forallb (fun a => no_float (snd a)) arms
  | _ => true
  end.
