(* spec/Wire.v — the wire format of docs/encoding.rst, written once, declaratively:
   a message is a list of typed segments laid out from an absolute offset; rendering a
   segment list to bytes is the only place where byte order matters. Definitions only. *)
From Coq Require Import ZArith List Bool.
From Prophy Require Import Bytes Schema Layout.
Import ListNotations.
Local Open Scope Z_scope.

Inductive seg :=
| SInt (w : Z) (v : Z)      (* a w-byte scalar holding v (two's complement) *)
| SPad (n : Z).             (* n padding bytes *)

Definition seglen (s : seg) : Z := match s with SInt w _ => w | SPad n => n end.
Definition segslen (l : list seg) : Z := fold_right (fun s acc => seglen s + acc) 0 l.

Section Lay.
  Variable layT : ty -> value -> Z -> list seg.

  Definition lay_elems (t : ty) : list value -> Z -> list seg :=
    fix go (xs : list value) (o : Z) : list seg :=
      match xs with
      | [] => []
      | x :: xr => let b := layT t x o in b ++ go xr (o + segslen b)
      end.

  (* a member's own bytes, starting at the (already aligned) offset o *)
  Definition lay_body (f : field) (v : value) (o : Z) : list seg :=
    match fst f, v with
    | FPlain, _ => layT (snd f) v o
    | FOpt, VSome x =>
        SInt 4 1 :: SPad (falign align f - 4) :: layT (snd f) x (o + falign align f)
    | FOpt, _ =>
        [SInt 4 0; SPad (falign align f - 4); SPad (size (snd f))]
    | FFixed _, VList xs => lay_elems (snd f) xs o
    | FBound _, VList xs => lay_elems (snd f) xs o
    | FGreedy, VList xs => lay_elems (snd f) xs o
    | FLimited n _, VList xs =>
        let b := lay_elems (snd f) xs o in b ++ [SPad (n * size (snd f) - segslen b)]
    | _, _ => []
    end.

  (* members in declaration order; [after_dyn]: the previous member ended a block *)
  Fixpoint lay_fields (sa : Z) (fs : list field) (vs : list value) (after_dyn : bool) (o : Z)
    : list seg :=
    match fs, vs with
    | f :: r, v :: vr =>
        let a := if after_dyn then blockal (f :: r) else falign align f in
        let p := pad a o in
        let body := lay_body f v (o + p) in
        SPad p :: body ++ lay_fields sa r vr (ends_block f) (o + p + segslen body)
    | _, _ => [SPad (pad sa o)]
    end.

  Fixpoint lay_arm (arms : list (Z * ty)) (i : nat) (x : value) (o : Z) : option (Z * list seg) :=
    match arms, i with
    | a :: _, O => Some (fst a, layT (snd a) x o)
    | _ :: r, S j => lay_arm r j x o
    | _, _ => None
    end.
End Lay.

Fixpoint layout (t : ty) (v : value) (o : Z) {struct t} : list seg :=
  match t, v with
  | TScalar k, VInt z => [SInt (sk_size k) z]
  | TByte, VInt z => [SInt 1 z]
  | TEnum _, VInt z => [SInt 4 z]
  | TStruct fs, VStruct vs => lay_fields layout (salign align fs) fs vs false o
  | TUnion arms, VUnion i x =>
      let a := ualign align arms in
      match lay_arm layout arms i x (o + a) with
      | Some (d, b) =>
          SInt 4 d :: SPad (a - 4) :: b ++ [SPad (size (TUnion arms) - a - segslen b)]
      | None => []
      end
  | _, _ => []
  end.

Definition render_seg (e : endian) (s : seg) : bytes :=
  match s with SInt w v => enc_int e w v | SPad n => zeros n end.

Definition render (e : endian) (l : list seg) : bytes := concat (map (render_seg e) l).

(* the canonical encoding of a message *)
Definition wire (e : endian) (t : ty) (v : value) : bytes := render e (layout t v 0).

(* ---- the documented exception of C02: greedy tails ---- *)
(* number of nested unlimited levels at the end of t (0 when t is not unlimited) *)
Section Unl.
  Variable dT : ty -> nat.
  Fixpoint unl_fields (fs : list field) : nat :=
    match fs with
    | [] => O
    | f :: r =>
        match r with
        | [] =>
            match fst f with
            | FGreedy => 1%nat
            | FPlain => if stiff_eqb (stiffness (snd f)) Unlimited then S (dT (snd f)) else O
            | _ => O
            end
        | _ => unl_fields r
        end
    end.
End Unl.

Fixpoint unl_depth (t : ty) : nat :=
  match t with TStruct fs => unl_fields unl_depth fs | _ => O end.

(* bytes of padding that follow the last greedy element: the final paddings of the enclosing
   structs, which are the last [unl_depth t] segments of the layout *)
Definition tail_pad (t : ty) (v : value) : Z :=
  segslen (firstn (unl_depth t) (rev (layout t v 0))).

(* "a greedy array whose tail ends on the enclosing message's alignment boundary" (or no greedy array) *)
Definition greedy_tail_aligned (t : ty) (v : value) : bool := tail_pad t v =? 0.

(* ---- member offsets relative to the start of their block (C08) ---- *)
(* A struct is split into blocks ("parts") that end with a dynamic member; every block starts
   at an offset divisible by the greatest alignment of its members, so offsets inside a block
   are fixed numbers. Per member: (block index from 0, offset of the member — of the flag for an
   optional —, offset of an optional's value or -1). *)
Fixpoint member_offsets (fs : list field) (part : Z) (o : Z) : list (Z * Z * Z) :=
  match fs with
  | [] => []
  | f :: r =>
      let o1 := o + pad (falign align f) o in
      let entry := (part, o1, match fst f with FOpt => o1 + falign align f | _ => -1 end) in
      if ends_block f then entry :: member_offsets r (part + 1) 0
      else entry :: member_offsets r part (o1 + fsize size f)
  end.

(* ---- the wire offset of the last member of a struct (C09: the unlimited member of a message with a
   greedy tail, which the raw swap leaves alone and whose address it returns) ---- *)
Fixpoint last_member_offset (fs : list field) (vs : list value) (after_dyn : bool) (o : Z) : Z :=
  match fs, vs with
  | f :: r, v :: vr =>
      let a := if after_dyn then blockal (f :: r) else falign align f in
      let p := pad a o in
      match r with
      | [] => o + p
      | _ => last_member_offset r vr (ends_block f) (o + p + segslen (lay_body layout f v (o + p)))
      end
  | _, _ => o
  end.
