(* spec/ApiSpec.v — the plain reference model of the Python message API (C10, C11):
   a message is an immutable value tree; every public operation is a function from trees to
   trees that either performs the operation with Python list semantics or rejects it with
   ProphyError / IndexError / ValueError and returns the tree unchanged. Definitions only. *)
From Coq Require Import ZArith List Bool.
From Prophy Require Import Bytes Schema.
Import ListNotations.
Local Open Scope Z_scope.

(* arguments a caller may pass *)
Inductive pyval :=
| PInt (z : Z)
| PBool (b : bool)
| PFloat (w : Z) (bits : Z)       (* a float exactly representable in w bytes, given by its pattern *)
| PFloatHuge (bits : Z)           (* a finite binary64 value whose magnitude exceeds the binary32 range *)
| PStr (k : Z)                    (* k >= 0: the name of the k-th enumerator of the target enum; else some other string *)
| PBytes (bs : list Z)
| PNone
| PList (l : list pyval)
| PIter (l : list pyval).         (* a one-shot iterator / generator object *)

Inductive aexn := EProphy | EIndex | EValue.

Inductive ares :=
| ADone (v : value)               (* operation performed: new state *)
| ARaise (e : aexn)               (* rejected: state unchanged *)
| AStuck.                         (* not an operation of the API on this object (harness never sends it) *)

(* ---- defaults: a fresh message ---- *)
Section Default.
  Variable defT : ty -> value.
  Definition default_field (f : field) : value :=
    match fst f with
    | FPlain => defT (snd f)
    | FOpt => VNone
    | FFixed n => VList (repeat (defT (snd f)) (Z.to_nat n))
    | FBound _ | FLimited _ _ | FGreedy => VList []
    end.
  Definition default_arm (arms : list (Z * ty)) : value :=
    match arms with a :: _ => VUnion 0 (defT (snd a)) | [] => VNone end.
End Default.

Fixpoint default (t : ty) : value :=
  match t with
  | TScalar _ => VInt 0
  | TByte => VInt 0
  | TEnum vals => VInt (hd 0 vals)
  | TStruct fs => VStruct (map (default_field default) fs)
  | TUnion arms => default_arm default arms
  end.

(* ---- scalar checks (type_._check) ---- *)
Definition int_of (x : pyval) : option Z :=
  match x with PInt z => Some z | PBool b => Some (if b then 1 else 0) | _ => None end.

Definition check_scalar (t : ty) (x : pyval) : option value :=
  match t with
  | TScalar k =>
      if sk_is_int k then
        match int_of x with
        | Some z => if in_range k z then Some (VInt z) else None
        | None => None
        end
      else
        match x with
        | PFloat w bits => if (w =? sk_size k) && in_range k bits then Some (VInt bits) else None
        | PFloatHuge bits => if (sk_size k =? 8) && in_range k bits then Some (VInt bits) else None
        | _ => None
        end
  | TEnum vals =>
      match x with
      | PStr k => if k <? 0 then None else match nth_error vals (Z.to_nat k) with Some z => Some (VInt z) | None => None end
      | _ => match int_of x with
             | Some z => if existsb (Z.eqb z) vals then Some (VInt z) else None
             | None => None
             end
      end
  | _ => None
  end.

Fixpoint check_all (t : ty) (xs : list pyval) : option (list value) :=
  match xs with
  | [] => Some []
  | x :: r => match check_scalar t x, check_all t r with
              | Some v, Some vs => Some (v :: vs)
              | _, _ => None
              end
  end.

Definition is_comp (t : ty) : bool := match t with TStruct _ | TUnion _ => true | _ => false end.

(* ---- Python list index arithmetic ---- *)
Definition norm_index (n idx : Z) : option Z :=
  let i := if idx <? 0 then idx + n else idx in
  if (0 <=? i) && (i <? n) then Some i else None.

Definition clamp (n i : Z) : Z := if i <? 0 then 0 else if n <? i then n else i.

(* slice.indices for step 1 *)
Definition slice_bounds (n : Z) (a b : option Z) : Z * Z :=
  let lo := match a with None => 0 | Some x => clamp n (if x <? 0 then x + n else x) end in
  let hi := match b with None => n | Some x => clamp n (if x <? 0 then x + n else x) end in
  (lo, if hi <? lo then lo else hi).

Definition take {A} (n : Z) (l : list A) : list A := firstn (Z.to_nat n) l.
Definition drop {A} (n : Z) (l : list A) : list A := skipn (Z.to_nat n) l.

Fixpoint remove_first (v : value) (eqb : value -> value -> bool) (l : list value) : option (list value) :=
  match l with
  | [] => None
  | x :: r => if eqb x v then Some r else match remove_first v eqb r with Some r' => Some (x :: r') | None => None end
  end.

Definition vint_eqb (a b : value) : bool :=
  match a, b with VInt x, VInt y => x =? y | _, _ => false end.

(* limit of a bound array: _max_len (0 = unlimited) *)
Definition max_len (k : fkind) : Z := match k with FLimited n _ => n | _ => 0 end.
Definition over_limit (k : fkind) (n : Z) : bool := (0 <? max_len k) && (max_len k <? n).

Definition seq_items (x : pyval) : option (list pyval) :=
  match x with PList l | PIter l => Some l | _ => None end.

(* operations on one object *)
Inductive aop :=
| ASet (i : nat) (x : pyval)
| ADisc (x : pyval)
| AAppend (i : nat) (x : pyval)
| AInsert (i : nat) (idx : Z) (x : pyval)
| AExtend (i : nat) (x : pyval)
| ASetItem (i : nat) (idx : Z) (x : pyval)
| ASetSlice (i : nat) (a b step : option Z) (x : pyval)
| ADelItem (i : nat) (idx : Z)
| ADelSlice (i : nat) (a b : option Z)
| ARemove (i : nat) (x : pyval)
| AAdd (i : nat)
| AExtendVals (i : nat) (vs : list value).   (* extend() of a composite array with copies of the given elements *)

Inductive sel :=
| SField (i : nat)                (* nested composite member, set optional composite, or discriminated arm i *)
| SElem (i : nat) (idx : Z).      (* element idx of the composite array member i *)

(* the counters of a struct are the lengths of the arrays they count *)
Fixpoint first_bound_len (i : nat) (fs : list field) (vs : list value) : option Z :=
  match fs, vs with
  | f :: r, v :: vr =>
      if bound_to i f then match v with VList xs => Some (len xs) | _ => None end
      else first_bound_len i r vr
  | _, _ => None
  end.

Fixpoint derive_counts (all_fs : list field) (all_vs : list value) (i : nat) (vs : list value) : list value :=
  match vs with
  | [] => []
  | v :: vr =>
      (if is_sizer all_fs i
       then match first_bound_len i all_fs all_vs with Some n => VInt n | None => v end
       else v) :: derive_counts all_fs all_vs (S i) vr
  end.

Definition rebuild (fs : list field) (vs : list value) : value := VStruct (derive_counts fs vs 0 vs).

Fixpoint set_nth {A} (l : list A) (i : nat) (x : A) : list A :=
  match l, i with
  | _ :: r, O => x :: r
  | a :: r, S j => a :: set_nth r j x
  | [], _ => []
  end.


(* ---- validity of a message state: [wt] except that a counter member is not range-checked
   against its type (its value is derived, possibly beyond what the type can hold: KF-F) but
   must hold the length of the first array it counts ---- *)
Section Valid.
  Variable vT : ty -> value -> bool.
  Definition valid_member (is_sz : bool) (cnt : option Z) (f : field) (v : value) : bool :=
    if is_sz then match v, cnt with VInt z, Some n => z =? n | _, _ => false end else wt_field vT f v.
  Fixpoint valid_fields (all_fs : list field) (all_vs : list value) (i : nat) (fs : list field) (vs : list value) : bool :=
    match fs, vs with
    | [], [] => true
    | f :: r, v :: vr =>
        valid_member (is_sizer all_fs i) (first_bound_len i all_fs all_vs) f v && valid_fields all_fs all_vs (S i) r vr
    | _, _ => false
    end.
  Fixpoint valid_arms (arms : list (Z * ty)) (i : nat) (x : value) : bool :=
    match arms, i with
    | a :: _, O => vT (snd a) x
    | _ :: r, S j => valid_arms r j x
    | _, _ => false
    end.
End Valid.

Fixpoint valid (t : ty) (v : value) {struct t} : bool :=
  match t, v with
  | TScalar k, VInt z => in_range k z
  | TByte, VInt z => is_byte z
  | TEnum vals, VInt z => existsb (Z.eqb z) vals
  | TStruct fs, VStruct vs => valid_fields valid fs vs 0 fs vs
  | TUnion arms, VUnion i x => valid_arms valid arms i x
  | _, _ => false
  end.

(* ---- an array member ---- *)
Definition array_op (f : field) (xs : list value) (o : aop) : ares :=
  let k := fst f in let t := snd f in let n := len xs in
  let fixed := match k with FFixed _ => true | _ => false end in
  let comp := is_comp t in
  let bytes_ := match t with TByte => true | _ => false end in
  if bytes_ then AStuck else
  match o with
  | AAppend _ x =>
      if fixed || comp then AStuck else
      match check_scalar t x with
      | None => ARaise EProphy
      | Some v => if over_limit k (n + 1) then ARaise EProphy else ADone (VList (xs ++ [v]))
      end
  | AInsert _ idx x =>
      if fixed || comp then AStuck else
      match check_scalar t x with
      | None => ARaise EProphy
      | Some v =>
          if over_limit k (n + 1) then ARaise EProphy
          else let i := clamp n (if idx <? 0 then idx + n else idx) in
               ADone (VList (take i xs ++ v :: drop i xs))
      end
  | AExtend _ x =>
      if fixed || comp then AStuck else
      match seq_items x with
      | None =>
          (* `if not values: return`: a falsy argument is an empty extension *)
          match x with
          | PNone | PInt 0 | PBool false | PBytes [] => ADone (VList xs)
          | _ => ARaise EProphy
          end
      | Some items =>
          if over_limit k (n + len items) then ARaise EProphy
          else match check_all t items with
               | None => ARaise EProphy
               | Some vs => ADone (VList (xs ++ vs))
               end
      end
  | ASetItem _ idx x =>
      if comp then AStuck else
      match check_scalar t x with
      | None => ARaise EProphy
      | Some v =>
          match norm_index n idx with
          | None => ARaise EIndex
          | Some i => ADone (VList (take i xs ++ v :: drop (i + 1) xs))
          end
      end
  | ASetSlice _ a b step x =>
      if comp then AStuck else
      match step with
      | Some s => if s =? 1 then AStuck else ARaise EProphy      (* extended slices are refused *)
      | None =>
          match seq_items x with
          | None => ARaise EProphy
          | Some items =>
              let '(lo, hi) := slice_bounds n a b in
              if fixed then
                if negb (hi - lo =? len items) then ARaise EProphy
                else match check_all t items with
                     | None => ARaise EProphy
                     | Some vs => ADone (VList (take lo xs ++ vs ++ drop hi xs))
                     end
              else
                if over_limit k (n + len items - (hi - lo)) then ARaise EProphy
                else match check_all t items with
                     | None => ARaise EProphy
                     | Some vs => ADone (VList (take lo xs ++ vs ++ drop hi xs))
                     end
          end
      end
  | ADelItem _ idx =>
      if fixed then AStuck else
      match norm_index n idx with
      | None => ARaise EIndex
      | Some i => ADone (VList (take i xs ++ drop (i + 1) xs))
      end
  | ADelSlice _ a b =>
      if fixed then AStuck else
      let '(lo, hi) := slice_bounds n a b in ADone (VList (take lo xs ++ drop hi xs))
  | ARemove _ x =>
      (* list.remove compares with ==: an enumerator NAME is not equal to the stored enumerator number, so for remove
         (unlike append/insert/extend/assignment, which normalise their argument) a name is simply a missing element *)
      if fixed || comp then AStuck else
      if (match x, t with PStr _, TEnum _ => true | _, _ => false end) then ARaise EValue else
      match check_scalar t x with
      | Some v => match remove_first v vint_eqb xs with Some r => ADone (VList r) | None => ARaise EValue end
      | None => ARaise EValue
      end
  | AAdd _ =>
      if fixed || negb comp then AStuck
      else if over_limit k (n + 1) then ARaise EProphy else ADone (VList (xs ++ [default t]))
  | AExtendVals _ vs =>
      (* the copied elements come out of another message of the same element type *)
      if fixed || negb comp || negb (forallb (valid t) vs) then AStuck
      else if over_limit k (n + len vs) then ARaise EProphy else ADone (VList (xs ++ vs))
  | _ => AStuck
  end.

(* ---- a bytes member ---- *)
Definition bytes_set (k : fkind) (x : pyval) : ares :=
  match x with
  | PBytes bs =>
      if negb (forallb is_byte bs) then AStuck else
      match k with
      | FFixed n => if n <? len bs then ARaise EProphy else ADone (VList (map VInt (ljust bs n)))
      | FLimited n _ => if n <? len bs then ARaise EProphy else ADone (VList (map VInt bs))
      | _ => ADone (VList (map VInt bs))
      end
  | _ => ARaise EProphy
  end.

(* ---- setattr on a struct member ---- *)
Definition field_set (f : field) (old : value) (x : pyval) : ares :=
  let t := snd f in
  match fst f with
  | FPlain =>
      if is_comp t then ARaise EProphy                                 (* assignment to composite field *)
      else match check_scalar t x with Some v => ADone v | None => ARaise EProphy end
  | FOpt =>
      if is_comp t then
        match x with
        | PBool true => ADone (VSome (default t))
        | PNone => ADone VNone
        | _ => ARaise EProphy
        end
      else match x with
           | PNone => ADone VNone
           | _ => match check_scalar t x with Some v => ADone (VSome v) | None => ARaise EProphy end
           end
  | k => match t with
         | TByte => bytes_set k x
         | _ => ARaise EProphy                                         (* assignment to array field *)
         end
  end.

Definition is_array_kind (k : fkind) : bool :=
  match k with FPlain | FOpt => false | _ => true end.

Definition op_index (o : aop) : option nat :=
  match o with
  | ASet i _ | AAppend i _ | AInsert i _ _ | AExtend i _ | ASetItem i _ _ | ASetSlice i _ _ _ _
  | ADelItem i _ | ADelSlice i _ _ | ARemove i _ | AAdd i | AExtendVals i _ => Some i
  | ADisc _ => None
  end.

(* the arm a discriminator value (number, or arm name interned by position) selects *)
Definition disc_matches (d : pyval) (j : nat) (a : Z * ty) : bool :=
  match d with
  | PStr k => Z.of_nat j =? k
  | _ => match int_of d with Some z => z =? fst a | None => false end
  end.
Fixpoint find_arm (d : pyval) (j : nat) (l : list (Z * ty)) : option (nat * ty) :=
  match l with
  | [] => None
  | a :: r => if disc_matches d j a then Some (j, snd a) else find_arm d (S j) r
  end.

(* an operation applied to the object (t, v) itself *)
Definition object_op (t : ty) (v : value) (o : aop) : ares :=
  match t, v with
  | TStruct fs, VStruct vs =>
      match op_index o with
      | None => AStuck
      | Some i =>
          match nth_error fs i, nth_error vs i with
          | Some f, Some old =>
              if is_sizer fs i then AStuck          (* counters are not attributes of the message *)
              else
              let r := match o with
                       | ASet _ x => field_set f old x
                       | _ => if is_array_kind (fst f)
                              then match old with VList xs => array_op f xs o | _ => AStuck end
                              else AStuck
                       end in
              match r with
              | ADone nv => ADone (rebuild fs (set_nth vs i nv))
              | other => other
              end
          | _, _ => AStuck
          end
      end
  | TUnion arms, VUnion cur x =>
      match o with
      | ADisc d =>
          match find_arm d O arms with
          | Some (j, ta) => if Nat.eqb j cur then ADone v else ADone (VUnion j (default ta))
          | None => ARaise EProphy
          end
      | ASet i y =>
          match nth_error arms i with
          | Some a =>
              if negb (Nat.eqb i cur) then ARaise EProphy       (* not the discriminated arm *)
              else if is_comp (snd a) then ARaise EProphy
              else match check_scalar (snd a) y with
                   | Some nv => ADone (VUnion cur nv)
                   | None => ARaise EProphy
                   end
          | None => AStuck
          end
      | _ => AStuck
      end
  | _, _ => AStuck
  end.

(* navigation to the object an operation addresses *)
Fixpoint apply_at (fuel : nat) (t : ty) (v : value) (path : list sel) (o : aop) : ares :=
  match fuel with
  | O => AStuck
  | S fu =>
      match path with
      | [] => object_op t v o
      | s :: rest =>
          match t, v, s with
          | TStruct fs, VStruct vs, SField i =>
              match nth_error fs i, nth_error vs i with
              | Some f, Some fv =>
                  match fst f, fv with
                  | FPlain, _ =>
                      match apply_at fu (snd f) fv rest o with
                      | ADone nv => ADone (rebuild fs (set_nth vs i nv))
                      | other => other
                      end
                  | FOpt, VSome x =>
                      match apply_at fu (snd f) x rest o with
                      | ADone nv => ADone (rebuild fs (set_nth vs i (VSome nv)))
                      | other => other
                      end
                  | _, _ => AStuck
                  end
              | _, _ => AStuck
              end
          | TStruct fs, VStruct vs, SElem i idx =>
              match nth_error fs i, nth_error vs i with
              | Some f, Some (VList xs) =>
                  if is_array_kind (fst f) && is_comp (snd f) then
                    match norm_index (len xs) idx with
                    | None => ARaise EIndex
                    | Some j =>
                        match nth_error xs (Z.to_nat j) with
                        | Some x =>
                            match apply_at fu (snd f) x rest o with
                            | ADone nv => ADone (rebuild fs (set_nth vs i (VList (set_nth xs (Z.to_nat j) nv))))
                            | other => other
                            end
                        | None => AStuck
                        end
                    end
                  else AStuck
              | _, _ => AStuck
              end
          | TUnion arms, VUnion cur x, SField i =>
              match nth_error arms i with
              | Some a =>
                  if negb (Nat.eqb i cur) then ARaise EProphy
                  else match apply_at fu (snd a) x rest o with
                       | ADone nv => ADone (VUnion cur nv)
                       | other => other
                       end
              | None => AStuck
              end
          | _, _, _ => AStuck
          end
      end
  end.

Definition api_step (t : ty) (v : value) (op : list sel * aop) : value * ares :=
  match apply_at (S (length (fst op))) t v (fst op) (snd op) with
  | ADone nv => (nv, ADone nv)
  | r => (v, r)
  end.

(* C11: b.copy_from(a) in the reference model is assignment of the (immutable) tree *)
Definition api_copy_from (a : value) : value := a.

(* reading the object a path addresses (for extend() from another message's array) *)
Fixpoint get_at (fuel : nat) (t : ty) (v : value) (path : list sel) : option (ty * value) :=
  match fuel with
  | O => None
  | S fu =>
      match path with
      | [] => Some (t, v)
      | s :: rest =>
          match t, v, s with
          | TStruct fs, VStruct vs, SField i =>
              match nth_error fs i, nth_error vs i with
              | Some f, Some fv =>
                  match fst f, fv with
                  | FPlain, _ => get_at fu (snd f) fv rest
                  | FOpt, VSome x => get_at fu (snd f) x rest
                  | _, _ => None
                  end
              | _, _ => None
              end
          | TStruct fs, VStruct vs, SElem i idx =>
              match nth_error fs i, nth_error vs i with
              | Some f, Some (VList xs) =>
                  match norm_index (len xs) idx with
                  | Some j => match nth_error xs (Z.to_nat j) with Some x => get_at fu (snd f) x rest | None => None end
                  | None => None
                  end
              | _, _ => None
              end
          | TUnion arms, VUnion cur x, SField i =>
              match nth_error arms i with
              | Some a => if Nat.eqb i cur then get_at fu (snd a) x rest else None
              | None => None
              end
          | _, _, _ => None
          end
      end
  end.

(* histories over two messages a and b of one type *)
Inductive hop :=
| HOp (on_b : bool) (path : list sel) (o : aop)
| HCopy (dst_b : bool)                                   (* dst.copy_from(the other one) *)
| HExtendFrom (dst_b : bool) (dpath : list sel) (i : nat) (src_b : bool) (spath : list sel) (si : nat).

Definition hstep (t : ty) (st : value * value) (h : hop) : (value * value) * ares :=
  let '(a, b) := st in
  match h with
  | HOp on_b path o =>
      let '(nv, r) := api_step t (if on_b then b else a) (path, o) in
      ((if on_b then (a, nv) else (nv, b)), r)
  | HCopy dst_b => if dst_b then ((a, api_copy_from a), ADone a) else ((api_copy_from b, b), ADone b)
  | HExtendFrom dst_b dpath i src_b spath si =>
      match get_at (S (length spath)) t (if src_b then b else a) spath with
      | Some (TStruct fs, VStruct vs) =>
          match nth_error vs si with
          | Some (VList elems) =>
              let '(nv, r) := api_step t (if dst_b then b else a) (dpath, AExtendVals i elems) in
              ((if dst_b then (a, nv) else (nv, b)), r)
          | _ => (st, AStuck)
          end
      | _ => (st, AStuck)
      end
  end.

(* an item of a history: one operation, or arr.add(name=value, ...) — a fresh default element is appended and its
   attributes are assigned one by one (path ++ [SElem i (-1)] addresses the new element); as ONE API operation it
   is all-or-nothing: a rejected attribute leaves both messages as they were *)
Inductive hitem :=
| HI (h : hop)
| HAddWith (on_b : bool) (path : list sel) (i : nat) (attrs : list aop).

Fixpoint add_attrs (t : ty) (b : bool) (path : list sel) (st0 : value * value) (s : value * value) (r : ares)
         (ks : list aop) : (value * value) * ares :=
  match ks with
  | [] => (s, r)
  | k :: kr =>
      let '(s2, r2) := hstep t s (HOp b path k) in
      match r2 with ADone _ => add_attrs t b path st0 s2 r2 kr | _ => (st0, r2) end
  end.

Definition hitem_step (t : ty) (st : value * value) (it : hitem) : (value * value) * ares :=
  match it with
  | HI h => hstep t st h
  | HAddWith b path i attrs =>
      let '(st1, r1) := hstep t st (HOp b path (AAdd i)) in
      match r1 with
      | ADone _ => add_attrs t b (path ++ [SElem i (-1)]) st st1 r1 attrs
      | _ => (st, r1)
      end
  end.

Definition run_items (t : ty) (hs : list hitem) (st : value * value) : value * value :=
  fold_left (fun s h => fst (hitem_step t s h)) hs st.
