(* spec/SwapSpec.v — which part of a message the raw swap converts (C09): everything, unless the last
   member of the (outermost) struct is unlimited — a greedy array or a struct that ends with one —, in
   which case the conversion stops in front of that member. Definitions only. *)
From Coq Require Import ZArith List Bool.
From Prophy Require Import Bytes Schema Layout Wire.
Import ListNotations.
Local Open Scope Z_scope.

(* x rounded up to a multiple of a *)
Definition cpp_align_up (a x : Z) : Z := x + pad a x.

Definition unl_field (f : field) : bool := stiff_eqb (fstiff stiffness f) Unlimited.

(* the segments of [lay_fields] that are converted: all of them, or those in front of an unlimited last member *)
Fixpoint conv_fields (sa : Z) (fs : list field) (vs : list value) (after_dyn : bool) (o : Z) : list seg :=
  match fs, vs with
  | f :: r, v :: vr =>
      let a := if after_dyn then blockal (f :: r) else falign align f in
      let p := pad a o in
      let body := lay_body layout f v (o + p) in
      match r with
      | [] => if unl_field f then [SPad p] else SPad p :: body ++ [SPad (pad sa (o + p + segslen body))]
      | _ => SPad p :: body ++ conv_fields sa r vr (ends_block f) (o + p + segslen body)
      end
  | _, _ => [SPad (pad sa o)]
  end.

(* the segments left as they are: the unlimited last member and the struct's final padding *)
Fixpoint kept_fields (sa : Z) (fs : list field) (vs : list value) (after_dyn : bool) (o : Z) : list seg :=
  match fs, vs with
  | f :: r, v :: vr =>
      let a := if after_dyn then blockal (f :: r) else falign align f in
      let p := pad a o in
      let body := lay_body layout f v (o + p) in
      match r with
      | [] => if unl_field f then body ++ [SPad (pad sa (o + p + segslen body))] else []
      | _ => kept_fields sa r vr (ends_block f) (o + p + segslen body)
      end
  | _, _ => []
  end.

Definition conv_segs (t : ty) (v : value) (o : Z) : list seg :=
  match t, v with
  | TStruct fs, VStruct vs => conv_fields (salign align fs) fs vs false o
  | _, _ => layout t v o
  end.

Definition kept_segs (t : ty) (v : value) (o : Z) : list seg :=
  match t, v with
  | TStruct fs, VStruct vs => kept_fields (salign align fs) fs vs false o
  | _, _ => []
  end.

(* what the swap returns: the aligned end of the message, or the (struct-aligned) address of the unlimited member *)
Fixpoint swap_ret (sa : Z) (fs : list field) (vs : list value) (after_dyn : bool) (o : Z) : Z :=
  match fs, vs with
  | f :: r, v :: vr =>
      let a := if after_dyn then blockal (f :: r) else falign align f in
      let p := pad a o in
      let body := lay_body layout f v (o + p) in
      match r with
      | [] => if unl_field f then cpp_align_up sa (o + p)
              else o + p + segslen body + pad sa (o + p + segslen body)
      | _ => swap_ret sa r vr (ends_block f) (o + p + segslen body)
      end
  | _, _ => o + pad sa o
  end.
