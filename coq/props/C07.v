(* props/C07.v — the generated C++ decoder is memory-safe and exact on arbitrary bytes (model level).
   [cpp_dec]/[cpp_decode] (model/CppFull.v) follow generate_struct_decode / generate_union_decode and the
   helpers of detail/decoder.hpp statement by statement. Tests (`size_t(end - pos) < n`) and loads are kept
   apart: a load outside [data, data + size) is the outcome CCrash, `size_t(end - pos)` is the pointer
   difference reinterpreted as unsigned (so a cursor past `end` would make every later test pass), and the
   `while (true)` of the greedy decoder runs on fuel whose exhaustion is CCrash too.
   Proved for every legal schema and EVERY byte string below 2^64 bytes: CCrash is unreachable — no load
   outside the buffer, termination of the greedy loop —, the cursor only moves forward and never past `end`,
   every array is resized to at most the number of bytes left, and decode() is true only if exactly the whole
   input was consumed. Not covered by a theorem: undefined behaviour of the compiled artefact other than
   out-of-bounds loads (known finding KF-B: enum loads), that the decoded object re-encodes to the same number
   of bytes, and the agreement of the real headers with this model — checks/C07.py runs the compiled decoder
   under ASan/UBSan or guard bytes with an allocation counter on every truncation and corruption and compares
   its verdict with the model's inside Coq. Model assumption: n * sizeof(T) does not overflow size_t. *)
From Coq Require Import ZArith List Bool Lia.
From Prophy Require Import Bytes Schema Layout Wire Src PyDecode PcModel CppFull Arith Views PcFacts CppDecFacts.
Import ListNotations.
Local Open Scope Z_scope.

Theorem C07_no_out_of_bounds_no_hang :
  forall e fs data, len data < 2 ^ 64 -> legal (TStruct fs) = true ->
    cpp_decode e (TStruct fs) data <> CCrash.
Proof. exact cpp_decode_safe. Qed.
Print Assumptions C07_no_out_of_bounds_no_hang.

(* at every nesting level and every start position inside the buffer: the cursor moves forward (by at least
   one byte unless the type is unlimited) and stays inside the buffer *)
Theorem C07_cursor_stays_inside :
  forall e data fuel t pos, len data < 2 ^ 64 -> Z.of_nat fuel > len data ->
    legal t = true -> PyDecode.is_comp t = true -> 0 <= pos <= len data ->
    match cpp_dec e data fuel t pos with
    | CTrue (_, p) => pos + (if stiff_eqb (stiffness t) Unlimited then 0 else 1) <= p <= len data
    | CFalse => True
    | CCrash => False
    end.
Proof. intros e data fuel t pos Hs Hf Hl Hc Hp. exact (cpp_dec_safe e data fuel Hs Hf t Hl Hc pos Hp). Qed.
Print Assumptions C07_cursor_stays_inside.

Theorem C07_true_only_if_all_consumed :
  forall e t data v, cpp_decode e t data = CTrue v ->
    exists p, cpp_dec e data (S (length data)) t 0 = CTrue (v, p) /\ p = len data.
Proof. exact cpp_decode_exact. Qed.
Print Assumptions C07_true_only_if_all_consumed.

(* non-vacuity: a message with an optional u64, a nested dynamic struct, a union and a limited array decodes
   from its canonical bytes, and every proper prefix of them is refused *)
Definition ex_D := TStruct [(FPlain, TScalar U32); (FBound 0%nat, TScalar U8)].
Definition ex_t := TStruct [(FPlain, TScalar U8); (FOpt, TScalar U64); (FPlain, ex_D); (FPlain, TScalar U16);
                            (FPlain, TUnion [(3, TScalar U8); (9, TScalar U64)]); (FPlain, TScalar U32); (FLimited 3 5%nat, TScalar I16)].
Definition ex_v := VStruct [VInt 1; VSome (VInt 2); VStruct [VInt 3; VList [VInt 7; VInt 8; VInt 9]]; VInt 5; VUnion 1 (VInt 77);
                            VInt 2; VList [VInt (-2); VInt 4]].
Example C07_example :
  legal ex_t = true /\ cpp_decode BE ex_t (wire BE ex_t ex_v) = CTrue ex_v /\
  forallb (fun n => match cpp_decode BE ex_t (firstn n (wire BE ex_t ex_v)) with CFalse => true | _ => false end)
          (seq 0 (length (wire BE ex_t ex_v))) = true.
Proof. vm_compute. repeat split; reflexivity. Qed.
