(* props/C17.v — front-ends agree: isar (+patch) and prophy text give the same wire layout.
   Every front-end hands the model pass a list of member records (model.StructMember: name, type, bound, size,
   greedy, optional) per struct; layout, kinds and generated codecs are functions of those records (C04, C08,
   C01, C03). model/PcPatch.v follows prophyc/patch.py on such records. Proved: each re-shaping rule (dynamic,
   greedy, static, limited) turns the addressed member into exactly the record the prophy text front-end builds
   for the corresponding declaration (T x<@n>, T x<...>, T x[N], T x<N> counted by n), whatever the member was
   before (plain, fixed array, optional), and leaves every other member and the member count alone; type / insert
   / remove do what they say; a rule whose member or counter is absent, and limited on a field without a size,
   fail the compilation; a rule naming an absent message changes nothing. So a patched isar struct and the
   prophy-text struct with the same declarations reach the model pass as equal record lists. Not modelled: the
   XML reading of isar.py (the dimension attributes) and the rename / struct rules; that both routes produce equal
   layouts and bytes end to end is decided by checks/C17.py (differential, Coq spec as oracle). One hypothesis the
   proofs forced: dynamic / static / limited do not clear a greedy flag set by an earlier greedy rule
   (m_greedy m = false is required for the text-form equality; see C17_greedy_then_dynamic). *)
From Coq Require Import ZArith List Bool.
From Prophy Require Import PcPatch PcPatchFacts.
Import ListNotations.

Theorem C17_dynamic_is_text_form : forall ms x s i m,
  find_member ms x O = Some (i, m) -> sizer_before ms i s = true -> m_greedy m = false ->
  apply_action ms (ADynamic x s) = POk (set_nth ms i (text_member (DBound (m_type m) x s))).
Proof. exact patch_dynamic. Qed.
Print Assumptions C17_dynamic_is_text_form.

Theorem C17_greedy_is_text_form : forall ms x i m,
  find_member ms x O = Some (i, m) ->
  apply_action ms (AGreedy x) = POk (set_nth ms i (text_member (DGreedy (m_type m) x))).
Proof. exact patch_greedy. Qed.
Print Assumptions C17_greedy_is_text_form.

Theorem C17_static_is_text_form : forall ms x n i m,
  find_member ms x O = Some (i, m) -> m_greedy m = false ->
  apply_action ms (AStatic x n) = POk (set_nth ms i (text_member (DFixed (m_type m) x n))).
Proof. exact patch_static. Qed.
Print Assumptions C17_static_is_text_form.

Theorem C17_limited_is_text_form : forall ms x s n i m,
  find_member ms x O = Some (i, m) -> sizer_before ms i s = true -> m_size m = Some n -> m_greedy m = false ->
  apply_action ms (ALimited x s) = POk (set_nth ms i (text_member (DLimitedBy (m_type m) x n s))).
Proof. exact patch_limited. Qed.
Print Assumptions C17_limited_is_text_form.

Theorem C17_unappliable_rule_fails : forall ms x,
  find_member ms x O = None ->
  forall s n t, apply_action ms (ADynamic x s) = PErr /\ apply_action ms (AGreedy x) = PErr /\
                apply_action ms (AStatic x n) = PErr /\ apply_action ms (ALimited x s) = PErr /\
                apply_action ms (AType x t) = PErr /\ apply_action ms (ARemove x) = PErr.
Proof. exact patch_member_absent. Qed.
Print Assumptions C17_unappliable_rule_fails.

Theorem C17_counter_must_precede : forall ms x s i m,
  find_member ms x O = Some (i, m) -> sizer_before ms i s = false ->
  apply_action ms (ADynamic x s) = PErr /\ apply_action ms (ALimited x s) = PErr.
Proof. exact patch_sizer_absent. Qed.
Print Assumptions C17_counter_must_precede.

Theorem C17_absent_message_ignored : forall node ms patches,
  Forall (fun p => fst p <> node) patches -> patch_node node ms patches = POk ms.
Proof. exact patch_absent_message. Qed.
Print Assumptions C17_absent_message_ignored.

(* non-vacuity: struct { u32 n; T a[4]; T* b; } with "dynamic a n", "limited ..." etc. *)
Example C17_example :
  let ms := [plain_mem 1 100; text_member (DFixed 7 2 4); text_member (DOpt 7 3)] in
  apply_action ms (ADynamic 2 1) = POk [plain_mem 1 100; text_member (DBound 7 2 1); text_member (DOpt 7 3)] /\
  apply_action ms (ALimited 2 1) = POk [plain_mem 1 100; text_member (DLimitedBy 7 2 4 1); text_member (DOpt 7 3)] /\
  apply_action ms (AGreedy 3) = POk [plain_mem 1 100; text_member (DFixed 7 2 4); text_member (DGreedy 7 3)] /\
  apply_action ms (AStatic 3 2) = POk [plain_mem 1 100; text_member (DFixed 7 2 4); text_member (DFixed 7 3 2)] /\
  apply_action ms (ADynamic 2 3) = PErr /\ apply_action ms (ALimited 3 1) = PErr /\ apply_action ms (ARemove 9) = PErr.
Proof. vm_compute. repeat split; reflexivity. Qed.

(* what the hypothesis m_greedy m = false excludes: "greedy a" followed by "dynamic a n" leaves a record that is
   both greedy and bound — no declaration of the text language denotes it *)
Example C17_greedy_then_dynamic :
  apply_actions [plain_mem 1 100; plain_mem 2 7] [AGreedy 2; ADynamic 2 1]
  = POk [plain_mem 1 100; {| m_name := 2; m_type := 7; m_bound := Some 1; m_size := None; m_greedy := true; m_opt := false |}].
Proof. vm_compute. reflexivity. Qed.

(* isar: the member records built from a <member> element's optional flag and <dimension> attributes
   (model/PcIsar.v, following parsers/isar.py make_struct_members; tied by checks/patchcorr.py run_isar) are the
   text front-end's records of the corresponding declarations *)
From Prophy Require Import PcIsar.
Theorem C17_isar_members_are_text_forms :
  forall (has_name numof_name len_name : nat -> nat) (u32 : nat),
  let members := isar_members has_name numof_name len_name u32 in
  (forall n t, members n t false None false = [text_member (DPlain t n)]) /\
  (forall n t, members n t true None false = [text_member (DOpt t n)]) /\
  (forall n t a b dyn,
     members n t false (Some {| d_size := Some a; d_size2 := Some b; d_this_is_variable := false; d_var_name := None;
                                d_is_variable := false; d_var_type := None |}) dyn = [text_member (DFixed t n (a * b))]) /\
  (forall n t s sz sz2 tiv iv vt dyn,
     members n t false (Some {| d_size := sz; d_size2 := sz2; d_this_is_variable := tiv; d_var_name := Some (true, s);
                                d_is_variable := iv; d_var_type := vt |}) dyn = [text_member (DBound t n s)]) /\
  (forall n t a ob vt,
     members n t false (Some {| d_size := Some a; d_size2 := ob; d_this_is_variable := false; d_var_name := None;
                                d_is_variable := true; d_var_type := vt |}) false
     = [text_member (DPlain (match vt with Some c => c | None => u32 end) (len_name n));
        text_member (DLimitedBy t n (match ob with Some b => (a * b)%Z | None => a end) (len_name n))]).
Proof.
  intros has_name numof_name len_name u32 members. split; [reflexivity|]. split; [reflexivity|].
  split; [intros; apply isar_fixed_2d|]. split; [intros; apply isar_bound|].
  intros n t a ob vt. apply (isar_limited has_name numof_name len_name u32 n t a ob None vt). intros s H. discriminate.
Qed.
Print Assumptions C17_isar_members_are_text_forms.

(* rename (after fix 8cfbd78): the renamed member carries the new name, every array counted by the old name is
   counted by the new one, and nothing else changes *)
Theorem C17_rename_keeps_counters_attached : forall ms old new i m,
  find_member ms old O = Some (i, m) ->
  exists ms', apply_action ms (ARename old new) = POk ms' /\ length ms' = length ms /\
    (forall j mj', nth_error ms' j = Some mj' ->
       exists mj, nth_error ms j = Some mj /\
         m_name mj' = (if Nat.eqb j i then new else m_name mj) /\
         m_bound mj' = (match m_bound mj with Some b => Some (if Nat.eqb b old then new else b) | None => None end) /\
         m_type mj' = m_type mj /\ m_size mj' = m_size mj /\ m_greedy mj' = m_greedy mj /\ m_opt mj' = m_opt mj).
Proof. exact patch_rename. Qed.
Print Assumptions C17_rename_keeps_counters_attached.

Example C17_rename_example :
  apply_actions [plain_mem 1 100; text_member (DBound 7 2 1)] [ARename 1 9; AStatic 2 3; ALimited 2 9]
  = POk [plain_mem 9 100; text_member (DLimitedBy 7 2 3 9)].
Proof. vm_compute. reflexivity. Qed.
