(* props/C18.v — text rendering is the same in Python and C++ and is not order-sensitive.
   spec/Text.v states the text of a message as the property describes it (a list of indented lines:
   'name: value' per scalar, enumerators by name, bytes quoted and escaped, array elements repeated under
   the member's name, absent optionals and counters omitted, the discriminated arm only, nested composites
   as 'name {' ... '}' blocks one level deeper). model/Print.v follows the two implementations: Python's
   field_to_string / __str__ (nested text re-indented afterwards by split / join at newlines, bytes through
   CPython's repr with its choice of the quote and six.repr_bytes) and the generated C++ print() over
   detail/printer.hpp (indentation passed down, print_byte changing and restoring the stream's base and
   fill). Proved: both produce exactly the specified text for every type, every fitting name tree and every
   well-typed value — hence the same text —, the C++ stream leaves every print in its initial formatting
   state, and the text of a struct is the concatenation of texts that each depend on one member alone.
   Not modelled: floating point members (repr() and iostream formatting), carried as hypothesis
   [no_float]. *)
From Coq Require Import ZArith List Bool.
From Prophy Require Import Bytes Schema Text Print PrintFacts.
Import ListNotations.
Local Open Scope Z_scope.

Theorem C18_python_text_is_specified :
  forall t n v, no_float t = true -> names_ok t n = true -> wt t v = true -> py_str t n v = text_of t n v.
Proof. intros t n v _ Hn Hw. exact (py_text_spec t n v Hn Hw). Qed.
Print Assumptions C18_python_text_is_specified.

Theorem C18_cpp_text_is_specified :
  forall t n v, no_float t = true -> names_ok t n = true -> wt t v = true -> cpp_text t n v = text_of t n v.
Proof. intros t n v _ Hn Hw. exact (cpp_text_spec t n v Hn Hw). Qed.
Print Assumptions C18_cpp_text_is_specified.

Theorem C18_python_cpp_same_text :
  forall t n v, no_float t = true -> names_ok t n = true -> wt t v = true -> py_str t n v = cpp_text t n v.
Proof. intros t n v _ Hn Hw. rewrite (py_text_spec t n v Hn Hw), (cpp_text_spec t n v Hn Hw). reflexivity. Qed.
Print Assumptions C18_python_cpp_same_text.

(* rendering never leaves the C++ stream in another formatting state (base, fill) than it found it:
   whatever is printed next starts from the initial state, at any nesting depth, after any prefix *)
Theorem C18_cpp_stream_state_restored :
  forall t n v ind s, names_ok t n = true -> wt t v = true -> snd (cpp_print t n v ind (s, fmt0)) = fmt0.
Proof. intros t n v ind s Hn Hw. rewrite (cpp_print_spec t n v ind s Hn Hw). reflexivity. Qed.
Print Assumptions C18_cpp_stream_state_restored.

(* member by member: the text of a struct is the concatenation, in declaration order, of texts that are
   each a function of one member only (name, type, value, whether it is a counter) *)
Theorem C18_struct_text_memberwise :
  forall fs ms vs, names_ok (TStruct fs) (NStruct ms) = true -> wt (TStruct fs) (VStruct vs) = true ->
    py_str (TStruct fs) (NStruct ms) (VStruct vs) = fields_text fs O fs ms vs
    /\ cpp_text (TStruct fs) (NStruct ms) (VStruct vs) = fields_text fs O fs ms vs.
Proof.
  intros fs ms vs Hn Hw. rewrite (py_text_spec _ _ _ Hn Hw), (cpp_text_spec _ _ _ Hn Hw).
  unfold text_of. cbn [body_lines]. rewrite fields_text_eq. split; reflexivity.
Qed.
Print Assumptions C18_struct_text_memberwise.

(* bytes holding an apostrophe and no double quote (here: it + apostrophe + s): CPython's repr switches to
   double quotes; six.repr_bytes (fix 3ae01ee) and the C++ printer both write the single-quoted form with the
   apostrophe escaped *)
Example C18_quote_witness :
  py_repr_tail [105; 116; 39; 115] = [34; 105; 116; 39; 115; 34] /\
  py_repr_bytes [105; 116; 39; 115] = [39; 105; 116; 92; 39; 115; 39] /\
  fst (cpp_put_bytes [105; 116; 39; 115] ([], fmt0)) = [39; 105; 116; 92; 39; 115; 39].
Proof. vm_compute. repeat split; reflexivity. Qed.

(* non-vacuity: counter omitted, escaped bytes (hex escape followed by numbers), present optional struct,
   enum array, nested struct *)
Example C18_example :
  let tF := TStruct [(FPlain, TScalar U32); (FPlain, TScalar I8)] in
  let nF := NStruct [([97], NLeaf); ([98], NLeaf)] in
  let t := TStruct [(FPlain, TScalar U32); (FBound 0%nat, TByte); (FOpt, tF); (FFixed 2, TEnum [1; 2]); (FPlain, tF)] in
  let n := NStruct [([110], NLeaf); ([120], NLeaf); ([111], nF); ([101], NEnum [(1, [65]); (2, [66])]); ([102], nF)] in
  let v := VStruct [VInt 3; VList [VInt 39; VInt 200; VInt 10]; VSome (VStruct [VInt 5; VInt (-3)]);
                    VList [VInt 2; VInt 1]; VStruct [VInt 7; VInt 8]] in
  no_float t = true /\ names_ok t n = true /\ wt t v = true /\ legal t = true /\
  len (py_str t n v) = 65 /\ py_str t n v = cpp_text t n v.
Proof. vm_compute. repeat split; reflexivity. Qed.
