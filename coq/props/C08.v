(* props/C08.v — the raw C++ struct layout coincides with the wire layout (model level).
   What is proved: the member offsets that follow from prophyc's member sizes and the paddings
   evaluate_struct_size assigns — which is all the raw generator (generators/cpp.py
   translate_struct over model.partition) uses to lay a struct out: members in order, a manual
   padding member for every positive padding, a new PROPHY_STRUCT part after every member
   partition splits at, an optional as flag + padding up to the value's alignment + value —
   are exactly the offsets docs/encoding.rst assigns (spec member_offsets), for every legal
   struct, and the byte size / alignment prophyc publishes are the wire size / alignment.
   What is checked, not proved: that the C++ compiler lays the emitted packed declarations out
   as [pc_raw_offsets] says (checks/C08.py compiles the header and compares offsetof/sizeof
   with both the spec and this model on every generated schema). *)
From Coq Require Import ZArith List Bool Lia.
From Prophy Require Import Bytes Schema Layout Wire Src PcModel Arith Views PcFacts PcRawFacts.
Import ListNotations.
Local Open Scope Z_scope.

Theorem C08_raw_member_offsets :
  forall fs, legal (TStruct fs) = true -> pc_raw_layout fs = member_offsets fs 0 0.
Proof. exact pc_raw_layout_eq. Qed.
Print Assumptions C08_raw_member_offsets.

Theorem C08_sizeof :
  forall t, legal t = true -> pc_size t = size t /\ pc_align t = align t.
Proof. intros t Hl. destruct (pc_layout_eq t Hl) as [Ha Hs]. split; assumption. Qed.
Print Assumptions C08_sizeof.

(* non-vacuity: a struct with an optional u64 after a u8, a dynamic array and a second part *)
Example C08_example :
  let fs := [(FPlain, TScalar U8); (FOpt, TScalar U64); (FPlain, TScalar U32); (FBound 2%nat, TScalar U16);
             (FPlain, TScalar U8); (FPlain, TScalar U64)] in
  legal (TStruct fs) = true /\
  pc_raw_layout fs = [(0, 0, -1); (0, 8, 16); (0, 24, -1); (0, 28, -1); (1, 0, -1); (1, 8, -1)].
Proof. vm_compute. split; reflexivity. Qed.
