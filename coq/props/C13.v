(* props/C13.v — prophyc always terminates with outputs or a designed diagnostic
   (the part that is logic: the dependency sort of the middle end). *)
From Coq Require Import List Bool Arith Lia Permutation.
From Prophy Require Import PcSort PcSortFacts.
Import ListNotations.

(* For EVERY list of definitions — cyclic, self-referential, with duplicated names or dangling
   references — the model of topological_sort terminates (never exhausts the fuel len+1 of its
   inner loop, never indexes out of range) with a sorted list or the cycle diagnostic. *)
Theorem C13_sort_total :
  forall builtins l,
    match topological_sort builtins l with
    | Sorted _ | Cycle _ => True
    | SortOutOfFuel | SortBad => False
    end.
Proof. intros builtins l. pose proof (topological_sort_total builtins l) as H. destruct (topological_sort builtins l); exact H. Qed.
Print Assumptions C13_sort_total.

Example C13_cycle_reported :
  topological_sort [] [mk_node 0 1 [2]; mk_node 1 2 [1]] = Cycle 1 /\
  topological_sort [] [mk_node 0 1 [1]] = Cycle 1.
Proof. vm_compute. split; reflexivity. Qed.
