(* props/C13.v — prophyc always terminates with outputs or a designed diagnostic
   (the part that is logic: the dependency sort of the middle end). *)
From Coq Require Import List Bool Arith Lia Permutation.
From Prophy Require Import PcSort PcSortFacts.
Import ListNotations.

(* For EVERY list of definitions — cyclic, self-referential, with duplicated names or dangling
   references — the model of topological_sort terminates (never exhausts the fuel len+1 of its
   inner loop, never indexes out of range) with a sorted list or the cycle diagnostic. *)
Theorem C13_sort_total :
  forall builtins l,
    match topological_sort builtins l with
    | Sorted _ | Cycle _ => True
    | SortOutOfFuel | SortBad => False
    end.
Proof. intros builtins l. pose proof (topological_sort_total builtins l) as H. destruct (topological_sort builtins l); exact H. Qed.
Print Assumptions C13_sort_total.

Example C13_cycle_reported :
  topological_sort [] [mk_node 0 1 [2]; mk_node 1 2 [1]] = Cycle 1 /\
  topological_sort [] [mk_node 0 1 [1]] = Cycle 1.
Proof. vm_compute. split; reflexivity. Qed.

(* includes: the file processor's recursion (model/PcFiles.v, tied to prophyc/file_processor.py by
   checks/filecorr.py, which C13's check runs too) never exhausts a fuel greater than the number of existing
   files — cyclic, self- and mutually including files end in the cyclic-include diagnostic, missing ones in the
   missing-file diagnostic. *)
From Prophy Require Import PcFiles PcFilesFacts.
Theorem C13_include_recursion_terminates :
  forall fs univ fuel ps st' rs,
    (forall p, fs p <> None -> In p univ) -> length univ < fuel ->
    proc_mains fs fuel st0 ps = (st', rs) -> ~ In (FErr EFuel) rs.
Proof.
  intros fs univ fuel ps st' rs Hu Hb H.
  exact (proc_mains_fuel_enough fs univ Hu fuel Hb ps st0 st' rs LogInv_st0 H).
Qed.
Print Assumptions C13_include_recursion_terminates.

Example C13_include_cycle_reported :
  let fs := fun p => match p with 0 => Some [IInc 1] | 1 => Some [IInc 2] | 2 => Some [IInc 0] | 3 => Some [IInc 3] | _ => None end in
  snd (proc_mains fs 5 st0 [0]) = [FErr (ECyclic 0)] /\ snd (proc_mains fs 5 st0 [3]) = [FErr (ECyclic 3)].
Proof. vm_compute. split; reflexivity. Qed.
