(* props/C05.v — C++ full codec: get_byte_size() equals the length of the encoding (model level).
   [cpp_size] (model/CppFull.v) evaluates the expression generate_struct_get_byte_size assembles
   from prophyc's member byte sizes, kinds and signed paddings — constant bytes, x.size() * N,
   std::accumulate over dynamic elements, nested get_byte_size(), nearest<N>( ... ) at every
   negative padding — on an object. Proved: for every legal type and every well-typed object it
   is the length of the canonical encoding in either byte order, and for fixed types the constant
   prophyc publishes as encoded_byte_size. That the pointer encoder writes exactly these bytes is
   C03's matter (no theorem yet); checks/C05.py measures it on the compiled code with guard bytes. *)
From Coq Require Import ZArith List Bool Lia.
From Prophy Require Import Bytes Schema Layout Wire Src PcModel CppFull Arith Views SpecLen PcFacts CppSizeFacts.
Import ListNotations.
Local Open Scope Z_scope.

Theorem C05_get_byte_size_is_wire_length :
  forall e t v, legal t = true -> wt t v = true -> cpp_size t v = len (wire e t v).
Proof.
  intros e t v Hl Hw. rewrite (cpp_size_eq t v Hl Hw). unfold wire.
  destruct (layout_lengths t v Hl Hw) as [H1 _]. rewrite len_render by exact H1. reflexivity.
Qed.
Print Assumptions C05_get_byte_size_is_wire_length.

Theorem C05_fixed_is_encoded_byte_size :
  forall t v, legal t = true -> wt t v = true -> is_fixed t = true -> cpp_size t v = pc_size t.
Proof.
  intros t v Hl Hw Hf. rewrite (cpp_size_eq t v Hl Hw).
  destruct (layout_lengths t v Hl Hw) as [_ [_ H3]]. rewrite (H3 Hf).
  destruct (pc_layout_eq t Hl) as [_ Hs]. symmetry. exact Hs.
Qed.
Print Assumptions C05_fixed_is_encoded_byte_size.

(* non-vacuity: struct X { u32 x<>; u8 y; } — the shape of the repaired defect d8d2f12 — with 3 elements *)
Example C05_example :
  let t := TStruct [(FPlain, TScalar U32); (FBound 0%nat, TScalar U32); (FPlain, TScalar U8)] in
  let v := VStruct [VInt 3; VList [VInt 1; VInt 2; VInt 3]; VInt 7] in
  legal t = true /\ wt t v = true /\ cpp_size t v = 20 /\ len (wire LE t v) = 20.
Proof. vm_compute. repeat split; reflexivity. Qed.

(* the encoder (model, props/C03.v) leaves exactly get_byte_size() bytes *)
From Prophy Require Import SpecAlign CppEncFacts.
Theorem C05_encode_writes_get_byte_size :
  forall e fs v, legal (TStruct fs) = true -> wt (TStruct fs) v = true ->
    len (cpp_encode e (TStruct fs) v) = cpp_size (TStruct fs) v.
Proof.
  intros e fs v Hl Hw. unfold cpp_encode.
  destruct (cpp_lay_eq (TStruct fs) v 0 Hl Hw) as [H _]; [apply Z.mod_0_l; pose proof (align_ok (TStruct fs)) as Ha; apply okal_pos in Ha; lia|].
  rewrite H, (cpp_size_eq (TStruct fs) v Hl Hw).
  destruct (layout_lengths (TStruct fs) v Hl Hw) as [H1 _]. apply len_render. exact H1.
Qed.
Print Assumptions C05_encode_writes_get_byte_size.
