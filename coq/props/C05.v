(* props/C05.v — C++ full codec: get_byte_size() equals the length of the encoding (model level).
   [cpp_size] (model/CppFull.v) evaluates the expression generate_struct_get_byte_size assembles
   from prophyc's member byte sizes, kinds and signed paddings — constant bytes, x.size() * N,
   std::accumulate over dynamic elements, nested get_byte_size(), nearest<N>( ... ) at every
   negative padding — on an object. Proved: for every legal type and every well-typed object it
   is the length of the canonical encoding in either byte order, and for fixed types the constant
   prophyc publishes as encoded_byte_size. That the pointer encoder writes exactly these bytes is
   C03's matter (no theorem yet); checks/C05.py measures it on the compiled code with guard bytes. *)
From Coq Require Import ZArith List Bool Lia.
From Prophy Require Import Bytes Schema Layout Wire Src PcModel CppFull Arith Views SpecLen PcFacts CppSizeFacts.
Import ListNotations.
Local Open Scope Z_scope.

Theorem C05_get_byte_size_is_wire_length :
  forall e t v, legal t = true -> wt t v = true -> cpp_size t v = len (wire e t v).
Proof.
  intros e t v Hl Hw. rewrite (cpp_size_eq t v Hl Hw). unfold wire.
  destruct (layout_lengths t v Hl Hw) as [H1 _]. rewrite len_render by exact H1. reflexivity.
Qed.
Print Assumptions C05_get_byte_size_is_wire_length.

Theorem C05_fixed_is_encoded_byte_size :
  forall t v, legal t = true -> wt t v = true -> is_fixed t = true -> cpp_size t v = pc_size t.
Proof.
  intros t v Hl Hw Hf. rewrite (cpp_size_eq t v Hl Hw).
  destruct (layout_lengths t v Hl Hw) as [_ [_ H3]]. rewrite (H3 Hf).
  destruct (pc_layout_eq t Hl) as [_ Hs]. symmetry. exact Hs.
Qed.
Print Assumptions C05_fixed_is_encoded_byte_size.

(* non-vacuity: struct X { u32 x<>; u8 y; } — the shape of the repaired defect d8d2f12 — with 3 elements *)
Example C05_example :
  let t := TStruct [(FPlain, TScalar U32); (FBound 0%nat, TScalar U32); (FPlain, TScalar U8)] in
  let v := VStruct [VInt 3; VList [VInt 1; VInt 2; VInt 3]; VInt 7] in
  legal t = true /\ wt t v = true /\ cpp_size t v = 20 /\ len (wire LE t v) = 20.
Proof. vm_compute. repeat split; reflexivity. Qed.
