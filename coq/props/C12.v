(* props/C12.v — whatever prophyc accepts, every back-end can realise; rule breakers are rejected.
   model/PcValidate.v follows the legality checks of the prophy text front-end
   (_validate_struct_members with its three loops over the members, p_union_def, p_enum_member,
   p_union_member, p_positive_expression and what the grammar itself enforces) over prophyc's own kinds
   (pc_kind, the model of calc_wire_stiffness). Proved: it accepts exactly the schemas the documented
   composability rules allow ([legal]), at any nesting depth; hence every rule breaker expressible in the
   schema AST is rejected, and for every accepted message type the back-end models are total: prophyc's
   layout is the wire layout, the Python and the C++ encoder models produce the canonical bytes of every
   well-typed value. Not in the AST, hence not in the theorem: names (redefinitions, undeclared types) —
   and that the generated text imports / compiles, which checks/C12.py decides by running the artefacts. *)
From Coq Require Import ZArith List Bool Lia.
From Prophy Require Import Bytes Schema Layout Wire Src PyStatics PyEncode PcModel CppFull PcValidate
  Arith SpecAlign Views PcFacts PyEncodeFacts CppEncFacts PcValidateFacts.
Import ListNotations.
Local Open Scope Z_scope.

Theorem C12_frontend_accepts_exactly_the_legal_schemas : forall t, pc_accepts t = legal t.
Proof. exact pc_accepts_legal. Qed.
Print Assumptions C12_frontend_accepts_exactly_the_legal_schemas.

Theorem C12_rule_breakers_rejected : forall t, legal t = false -> pc_accepts t = false.
Proof. intros t H. rewrite pc_accepts_legal. exact H. Qed.
Print Assumptions C12_rule_breakers_rejected.

(* what is accepted is realisable (model level): one layout for prophyc, Python and C++ *)
Theorem C12_accepted_is_realisable :
  forall e fs v, pc_accepts (TStruct fs) = true -> wt (TStruct fs) v = true ->
    pc_size (TStruct fs) = size (TStruct fs) /\ pc_align (TStruct fs) = align (TStruct fs) /\
    py_enc e (TStruct fs) v = Ok (wire e (TStruct fs) v) /\
    cpp_encode e (TStruct fs) v = wire e (TStruct fs) v.
Proof.
  intros e fs v Ha Hw. rewrite pc_accepts_legal in Ha.
  destruct (pc_layout_eq (TStruct fs) Ha) as [Hs Hal].
  split; [exact Hal|]. split; [exact Hs|]. split.
  - apply py_enc_canonical; [reflexivity|exact Ha|exact Hw].
  - unfold cpp_encode, wire.
    destruct (cpp_lay_eq (TStruct fs) v 0 Ha Hw) as [H _]; [apply Z.mod_0_l; pose proof (align_ok (TStruct fs)) as Hk; apply okal_pos in Hk; lia|].
    apply H.
Qed.
Print Assumptions C12_accepted_is_realisable.

(* non-vacuity: one accepted schema and one rule breaker per rule family *)
Example C12_examples :
  let D := TStruct [(FPlain, TScalar U32); (FBound 0%nat, TScalar U8)] in          (* dynamic struct *)
  let G := TStruct [(FGreedy, TScalar U8)] in                                      (* unlimited struct *)
  pc_accepts (TStruct [(FPlain, TScalar U8); (FPlain, D); (FPlain, G)]) = true /\
  pc_accepts (TStruct [(FPlain, G); (FPlain, TScalar U8)]) = false /\              (* unlimited not last *)
  pc_accepts (TStruct [(FFixed 2, D)]) = false /\                                  (* dynamic in fixed array *)
  pc_accepts (TStruct [(FPlain, TScalar U32); (FBound 0%nat, G)]) = false /\       (* unlimited in array *)
  pc_accepts (TStruct [(FOpt, D)]) = false /\                                      (* dynamic optional *)
  pc_accepts (TUnion [(1, D)]) = false /\                                          (* dynamic arm *)
  pc_accepts (TStruct [(FBound 1%nat, TScalar U8); (FPlain, TScalar U32)]) = false /\   (* sizer after array *)
  pc_accepts (TStruct [(FOpt, TScalar U32); (FBound 0%nat, TScalar U8)]) = false /\     (* optional sizer *)
  pc_accepts (TStruct [(FPlain, TScalar R32); (FBound 0%nat, TScalar U8)]) = false /\   (* float sizer *)
  pc_accepts (TUnion [(1, TScalar U8); (1, TScalar U16)]) = false /\               (* duplicate discriminator *)
  pc_accepts (TStruct [(FFixed 0, TScalar U8)]) = false /\                         (* array size 0 *)
  pc_accepts (TEnum [1; 2 ^ 32]) = false /\ pc_accepts (TUnion [(2 ^ 32, TScalar U8)]) = false.
Proof. vm_compute. repeat split; reflexivity. Qed.
