(* props/C10.v — the Python message API keeps every reachable message state valid.
   The reference model (spec/ApiSpec.v) is what the Python implementation is compared with on
   generated API histories (checks/C10.py, CheckLib.api_history_case); these theorems are the
   "consequently" half of the property, proved of that reference model for every schema and
   every operation sequence. *)
From Coq Require Import ZArith List Bool Lia.
From Prophy Require Import Bytes Schema Layout Wire Src PyStatics PyEncode ApiSpec Views PyEncodeFacts ApiFacts.
Import ListNotations.
Local Open Scope Z_scope.

(* every state reachable from a fresh message by any sequence of API operations (performed or
   rejected, at any nesting depth) is valid: scalars in range, enums among their enumerators,
   bytes within 0..255, fixed arrays full, limited arrays within their limit, exactly the
   discriminated union arm present, every counter equal to the length of the first array it counts *)
Theorem C10_reachable_valid :
  forall t ops, legal t = true -> valid t (run_ops t ops (default t)) = true.
Proof. exact api_reachable_valid. Qed.
Print Assumptions C10_reachable_valid.

(* the same over histories that involve two messages, copy_from and extend() from one to the other *)
Theorem C10_histories_valid :
  forall t hs, legal t = true ->
    valid t (fst (run_hist t hs (default t, default t))) = true /\
    valid t (snd (run_hist t hs (default t, default t))) = true.
Proof. exact hist_reachable_valid. Qed.
Print Assumptions C10_histories_valid.

(* the same with arr.add(name=value, ...) among the operations (a fresh element plus attribute assignments as one
   all-or-nothing operation) *)
Theorem C10_items_valid :
  forall t hs, legal t = true ->
    valid t (fst (run_items t hs (default t, default t))) = true /\
    valid t (snd (run_items t hs (default t, default t))) = true.
Proof. exact items_reachable_valid. Qed.
Print Assumptions C10_items_valid.

Theorem C10_add_with_rejected_unchanged :
  forall t st b path i attrs,
    (forall nv, snd (hitem_step t st (HAddWith b path i attrs)) <> ADone nv) ->
    fst (hitem_step t st (HAddWith b path i attrs)) = st.
Proof. exact add_with_rejected_unchanged. Qed.
Print Assumptions C10_add_with_rejected_unchanged.

(* a rejected operation (ProphyError / IndexError / ValueError, or not an operation at all)
   leaves the message unchanged; a performed one yields exactly the reported state *)
Theorem C10_rejected_unchanged :
  forall t v op, (forall nv, snd (api_step t v op) <> ADone nv) -> fst (api_step t v op) = v.
Proof. exact api_rejected_unchanged. Qed.
Print Assumptions C10_rejected_unchanged.

Theorem C10_performed_reported :
  forall t v op nv, snd (api_step t v op) = ADone nv -> fst (api_step t v op) = nv.
Proof. exact api_performed_reported. Qed.
Print Assumptions C10_performed_reported.

(* "can be encoded": every reachable state is well-typed for the encoder, and the Python encoder
   model returns its canonical wire image, unless it meets one of the two encode-time refusals
   [enc_guard] spells out: arrays that share a counter differ in length (documented), or a count
   does not fit the type of its counter (known finding KF-F) *)
Theorem C10_reachable_encodable :
  forall e fs ops, legal (TStruct fs) = true ->
    let v := run_ops (TStruct fs) ops (default (TStruct fs)) in
    enc_guard (TStruct fs) v = true ->
    wt (TStruct fs) v = true /\ py_enc e (TStruct fs) v = Ok (wire e (TStruct fs) v).
Proof.
  intros e fs ops Hl v Hg.
  assert (Hw : wt (TStruct fs) v = true) by (apply valid_encodable; [exact Hl|apply api_reachable_valid; exact Hl|exact Hg]).
  split; [exact Hw|]. apply py_enc_canonical; [reflexivity|exact Hl|exact Hw].
Qed.
Print Assumptions C10_reachable_encodable.

(* non-vacuity: a legal schema with a limited array, an over-limit extend is rejected, an in-limit one performed *)
Example C10_example :
  let t := TStruct [(FPlain, TScalar U8); (FLimited 2 0, TScalar U16)] in
  legal t = true /\
  snd (api_step t (default t) ([], AExtend 1 (PList [PInt 1; PInt 2; PInt 3]))) = ARaise EProphy /\
  fst (api_step t (default t) ([], AExtend 1 (PList [PInt 1; PInt 2]))) = VStruct [VInt 2; VList [VInt 1; VInt 2]] /\
  enc_guard t (VStruct [VInt 2; VList [VInt 1; VInt 2]]) = true.
Proof. vm_compute. repeat split; reflexivity. Qed.
