(* props/C06.v — placeholder until the totality theorems are proved; keeps the build target. *)
From Prophy Require Import Bytes Schema Layout Wire PyDecode.
