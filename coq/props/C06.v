(* props/C06.v — Python decode is total: any bytes decode or raise ProphyError, nothing else. *)
From Coq Require Import ZArith List Bool Lia.
From Prophy Require Import Bytes Schema Layout Wire Src PyStatics PyEncode PyDecode
  Arith SpecAlign Views SpecLen PyStaticsFacts PyEncodeFacts PyDecodeFacts PyRoundtrip PyDecodeWt.
Import ListNotations.
Local Open Scope Z_scope.

(* For every legal message type, both byte orders and EVERY byte string, the model of
   message.decode either returns (with a non-negative consumed length) or raises ProphyError.
   The other outcomes of the model — StructError, Stuck (an impossible object state) and
   OutOfFuel (the greedy `while` loop running longer than len(data)+1 iterations, i.e.
   non-termination) — are unreachable. *)
Theorem C06_decode_total :
  forall (e : endian) (fs : list field) (data : bytes),
    legal (TStruct fs) = true ->
    match py_decode e (TStruct fs) data with
    | Ok (_, n) => 0 <= n
    | Err ProphyError => True
    | Err _ => False
    end.
Proof. exact py_decode_total. Qed.
Print Assumptions C06_decode_total.

(* the same for every nested composite at every position, with the progress fact that makes
   the greedy loop terminate: a composite that is not unlimited consumes at least one byte *)
Theorem C06_progress :
  forall e data fuel t pos terminal,
    Z.of_nat fuel > len data -> legal t = true -> is_comp t = true -> 0 <= pos ->
    match py_dec e data fuel t pos terminal with
    | Ok (_, n) => (if stiff_eqb (stiffness t) Unlimited then 0 else 1) <= n
    | Err ProphyError => True
    | Err _ => False
    end.
Proof.
  intros e data fuel t pos terminal Hf Hl Hc Hp.
  pose proof (py_dec_total e data fuel Hf t Hl Hc pos terminal Hp) as H.
  destruct (py_dec e data fuel t pos terminal) as [[v n]|[]]; cbn [good] in H; try contradiction; try exact I. exact H.
Qed.
Print Assumptions C06_progress.

(* Whatever the decoder returns is a well-typed value within its own array guard: every scalar in
   range, enums among their enumerators, array lengths consistent with the (derived) counters, limits
   kept, exactly the discriminated arm. [data] is any string of bytes (0..255); [unshared]: no counter
   is shared by two arrays (always so for x<> and x<N>; an explicit x<@n> may share, and then a limited
   bytes field that is cut short by the end of the input can leave arrays of different lengths — that
   corner is outside this theorem and is covered by the differential run only). *)
Theorem C06_decoded_well_typed :
  forall e fs data v n, forallb is_byte data = true -> legal (TStruct fs) = true -> unshared (TStruct fs) ->
    py_decode e (TStruct fs) data = Ok (v, n) ->
    wt (TStruct fs) v = true /\ within_guard (TStruct fs) v = true.
Proof.
  intros e fs data v n Hb Hl Hu H. unfold py_decode in H.
  destruct (py_dec_wt e data (S (length data)) Hb (TStruct fs) Hu Hl eq_refl 0 true v n ltac:(lia) H) as [[Hw Hg] _].
  split; assumption.
Qed.
Print Assumptions C06_decoded_well_typed.

(* the fixpoint statement of the property, for messages without a greedy tail: the decoded message
   encodes without error, and decoding that encoding gives the same value and consumes all of it
   (so re-encoding gives the same bytes) *)
Theorem C06_fixpoint :
  forall e fs data v n, forallb is_byte data = true -> legal (TStruct fs) = true -> unshared (TStruct fs) ->
    stiffness (TStruct fs) <> Unlimited ->
    py_decode e (TStruct fs) data = Ok (v, n) ->
    exists b, py_enc e (TStruct fs) v = Ok b /\ py_decode e (TStruct fs) b = Ok (v, len b).
Proof.
  intros e fs data v n Hb Hl Hu Hs H.
  destruct (C06_decoded_well_typed e fs data v n Hb Hl Hu H) as [Hw Hg].
  exists (wire e (TStruct fs) v). split.
  - apply py_enc_canonical; [reflexivity|exact Hl|exact Hw].
  - apply py_decode_roundtrip; assumption.
Qed.
Print Assumptions C06_fixpoint.

Example C06_example_truncated :
  py_decode LE (TStruct [(FPlain, TScalar U32); (FBound 0%nat, TScalar U16)]) [2; 0; 0; 0; 1; 0; 2] = Err ProphyError
  /\ py_decode LE (TStruct [(FPlain, TScalar U32); (FBound 0%nat, TScalar U16)]) [2; 0; 0; 0; 1; 0; 2; 0]
     = Ok (VStruct [VInt 2; VList [VInt 1; VInt 2]], 8).
Proof. vm_compute. split; reflexivity. Qed.

Example C06_unshared_inhabited :
  unshared (TStruct [(FPlain, TScalar U32); (FBound 0%nat, TScalar U16); (FPlain, TScalar U8); (FLimited 3 2%nat, TByte)]).
Proof.
  apply un_struct.
  - intros i. do 5 (destruct i as [|i]; [cbn; lia|]). cbn. lia.
  - repeat constructor.
Qed.
