(* props/C06.v — Python decode is total: any bytes decode or raise ProphyError, nothing else. *)
From Coq Require Import ZArith List Bool Lia.
From Prophy Require Import Bytes Schema Layout Wire Src PyStatics PyEncode PyDecode
  Arith SpecAlign Views SpecLen PyStaticsFacts PyEncodeFacts PyDecodeFacts.
Import ListNotations.
Local Open Scope Z_scope.

(* For every legal message type, both byte orders and EVERY byte string, the model of
   message.decode either returns (with a non-negative consumed length) or raises ProphyError.
   The other outcomes of the model — StructError, Stuck (an impossible object state) and
   OutOfFuel (the greedy `while` loop running longer than len(data)+1 iterations, i.e.
   non-termination) — are unreachable. *)
Theorem C06_decode_total :
  forall (e : endian) (fs : list field) (data : bytes),
    legal (TStruct fs) = true ->
    match py_decode e (TStruct fs) data with
    | Ok (_, n) => 0 <= n
    | Err ProphyError => True
    | Err _ => False
    end.
Proof. exact py_decode_total. Qed.
Print Assumptions C06_decode_total.

(* the same for every nested composite at every position, with the progress fact that makes
   the greedy loop terminate: a composite that is not unlimited consumes at least one byte *)
Theorem C06_progress :
  forall e data fuel t pos terminal,
    Z.of_nat fuel > len data -> legal t = true -> is_comp t = true -> 0 <= pos ->
    match py_dec e data fuel t pos terminal with
    | Ok (_, n) => (if stiff_eqb (stiffness t) Unlimited then 0 else 1) <= n
    | Err ProphyError => True
    | Err _ => False
    end.
Proof.
  intros e data fuel t pos terminal Hf Hl Hc Hp.
  pose proof (py_dec_total e data fuel Hf t Hl Hc pos terminal Hp) as H.
  destruct (py_dec e data fuel t pos terminal) as [[v n]|[]]; cbn [good] in H; try contradiction; try exact I. exact H.
Qed.
Print Assumptions C06_progress.

(* Not proved here (stated for the record, decided by the correspondence/oracle run only):
   C06_fixpoint : py_decode e t data = Ok (v, n) ->
     exists b, py_enc e t v = Ok b /\ (exists v', py_decode e t b = Ok (v', len b) /\ py_enc e t v' = Ok b
                                       /\ (greedy_tail_aligned t v = true -> v' = v)). *)

Example C06_example_truncated :
  py_decode LE (TStruct [(FPlain, TScalar U32); (FBound 0%nat, TScalar U16)]) [2; 0; 0; 0; 1; 0; 2] = Err ProphyError
  /\ py_decode LE (TStruct [(FPlain, TScalar U32); (FBound 0%nat, TScalar U16)]) [2; 0; 0; 0; 1; 0; 2; 0]
     = Ok (VStruct [VInt 2; VList [VInt 1; VInt 2]], 8).
Proof. vm_compute. split; reflexivity. Qed.
