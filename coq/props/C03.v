(* props/C03.v — Python and the generated C++ full codec are wire-compatible (model level, encode side).
   [cpp_lay]/[cpp_encode] (model/CppFull.v) follow generate_struct_encode / generate_union_encode and the
   run-time helpers of detail/encoder.hpp over prophyc's member records and signed paddings: do_encode of
   scalars, enums, fixed and dynamic composites, arrays, optionals (flag, padding to the value's alignment,
   value or skipped slot), limited arrays (elements, then pos + byte_size), `pos = pos + N` and
   `pos = align<N>(pos)` statements, union discriminator + discpad + arm + slot. Proved: for every legal
   type and every well-typed object the bytes the C++ encoder leaves in a zeroed buffer with an aligned start
   are the canonical encoding, in either byte order — hence byte-identical to what the Python encoder (C01)
   produces; and the C++ decoder model (CppFull.cpp_decode, see props/C07.v) reads the canonical encoding of
   every message without an unlimited part back exactly. Not covered by a theorem: decoding messages with a
   greedy tail, alignment<T>::value of classes holding a std::vector (known finding KF-A), over-full limited
   vectors; the compiled codec itself is exercised by checks/C03.py. *)
From Coq Require Import ZArith List Bool Lia.
From Prophy Require Import Bytes Schema Layout Wire Src PyStatics PyEncode PcModel CppFull
  Arith SpecAlign Views SpecLen PyEncodeFacts PcFacts CppSizeFacts CppEncFacts CppDecFacts CppDecRoundtrip.
Import ListNotations.
Local Open Scope Z_scope.

Theorem C03_cpp_encode_canonical :
  forall e fs v, legal (TStruct fs) = true -> wt (TStruct fs) v = true ->
    cpp_encode e (TStruct fs) v = wire e (TStruct fs) v.
Proof.
  intros e fs v Hl Hw. unfold cpp_encode, wire.
  destruct (cpp_lay_eq (TStruct fs) v 0 Hl Hw) as [H _]; [apply Z.mod_0_l; pose proof (align_ok (TStruct fs)) as Ha; apply okal_pos in Ha; lia|].
  apply H.
Qed.
Print Assumptions C03_cpp_encode_canonical.

Theorem C03_cpp_encode_union_canonical :
  forall e arms v, legal (TUnion arms) = true -> wt (TUnion arms) v = true ->
    cpp_encode e (TUnion arms) v = wire e (TUnion arms) v.
Proof.
  intros e arms v Hl Hw. unfold cpp_encode, wire.
  destruct (cpp_lay_eq (TUnion arms) v 0 Hl Hw) as [H _]; [apply Z.mod_0_l; pose proof (align_ok (TUnion arms)) as Ha; apply okal_pos in Ha; lia|].
  apply H.
Qed.
Print Assumptions C03_cpp_encode_union_canonical.

(* either language writes what the other writes *)
Theorem C03_python_cpp_same_bytes :
  forall e fs v, legal (TStruct fs) = true -> wt (TStruct fs) v = true ->
    py_enc e (TStruct fs) v = Ok (cpp_encode e (TStruct fs) v).
Proof.
  intros e fs v Hl Hw. rewrite (C03_cpp_encode_canonical e fs v Hl Hw).
  apply py_enc_canonical; [reflexivity|exact Hl|exact Hw].
Qed.
Print Assumptions C03_python_cpp_same_bytes.

(* C05's other half at model level: the encoder writes exactly get_byte_size() bytes *)
Theorem C03_bytes_written_is_get_byte_size :
  forall e fs v, legal (TStruct fs) = true -> wt (TStruct fs) v = true ->
    len (cpp_encode e (TStruct fs) v) = cpp_size (TStruct fs) v.
Proof.
  intros e fs v Hl Hw. rewrite (C03_cpp_encode_canonical e fs v Hl Hw).
  rewrite (cpp_size_eq (TStruct fs) v Hl Hw). unfold wire.
  destruct (layout_lengths (TStruct fs) v Hl Hw) as [H1 _]. apply len_render. exact H1.
Qed.
Print Assumptions C03_bytes_written_is_get_byte_size.

(* decode side: the generated C++ decoder (model, see props/C07.v) reads the canonical encoding of every
   well-typed value of a message type without an unlimited part back, and consumes exactly all of it; so
   C++ reads what Python wrote and what C++ itself wrote. (Messages with a greedy tail: differential run only.) *)
Theorem C03_cpp_decodes_canonical :
  forall e fs v, legal (TStruct fs) = true -> stiffness (TStruct fs) <> Unlimited -> wt (TStruct fs) v = true ->
    len (wire e (TStruct fs) v) < 2 ^ 64 ->
    cpp_decode e (TStruct fs) (wire e (TStruct fs) v) = CTrue v.
Proof. exact cpp_decode_roundtrip. Qed.
Print Assumptions C03_cpp_decodes_canonical.

Theorem C03_cpp_reads_python :
  forall e fs v b, legal (TStruct fs) = true -> stiffness (TStruct fs) <> Unlimited -> wt (TStruct fs) v = true ->
    py_enc e (TStruct fs) v = Ok b -> len b < 2 ^ 64 ->
    cpp_decode e (TStruct fs) b = CTrue v /\ cpp_encode e (TStruct fs) v = b.
Proof.
  intros e fs v b Hl Hu Hw Hb Hs.
  rewrite (py_enc_canonical (TStruct fs) e v eq_refl Hl Hw) in Hb. injection Hb as <-.
  split; [apply cpp_decode_roundtrip; assumption|apply C03_cpp_encode_canonical; assumption].
Qed.
Print Assumptions C03_cpp_reads_python.

Example C03_example :
  let D := TStruct [(FPlain, TScalar U32); (FBound 0%nat, TScalar U8)] in
  let t := TStruct [(FPlain, TScalar U8); (FOpt, TScalar U64); (FPlain, D); (FPlain, TScalar U16)] in
  let v := VStruct [VInt 1; VSome (VInt 2); VStruct [VInt 3; VList [VInt 7; VInt 8; VInt 9]]; VInt 5] in
  legal t = true /\ wt t v = true /\
  cpp_encode LE t v = [1;0;0;0;0;0;0;0; 1;0;0;0;0;0;0;0; 2;0;0;0;0;0;0;0; 3;0;0;0; 7;8;9;0; 5;0; 0;0;0;0;0;0].
Proof. vm_compute. repeat split; reflexivity. Qed.
