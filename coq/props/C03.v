(* props/C03.v — placeholder until the C++ op-semantics theorems are added. *)
From Prophy Require Import Bytes Schema Layout Wire PcModel.
