(* props/C16.v — multi-file schemas with includes equal their single-file concatenation.
   model/PcFiles.v follows prophyc/file_processor.py (process_main / process_leaf / _process_file with the table
   of processed files, None marking a file in progress) under a content processor that resolves every include as
   it is met and fails as a whole when an include fails (the prophy parser). Proved, for every file system,
   every sequence of main files and whatever was processed before: a successful result is the include tree of
   the file ([Flat]: every include directive is present with the full tree of the included file — nothing is
   dropped), its definitions are those of the text with every include expanded in place ([Inline]), and no file
   is handed to the content processor twice in one run. A missing file, and a file that is met again while it
   is being processed, give the failures EMissing / ECyclic (by definition of the model, tied by the
   correspondence run). Not modelled: directory search (-I, working directory) — files are identified by their
   resolved path —, the isar front-end's own include handling (KF-M) and the generators' treatment of Include
   nodes; those are compared end to end by checks/C16.py. Fuel: include depth; exhaustion is the outcome EFuel,
   never a result. *)
From Coq Require Import List Bool Arith.
From Prophy Require Import PcFiles PcFilesFacts.
Import ListNotations.

Theorem C16_result_is_the_include_tree :
  forall fs fuel ps st' rs i p ns,
    proc_mains fs fuel st0 ps = (st', rs) -> nth_error ps i = Some p -> nth_error rs i = Some (FOk ns) ->
    Flat fs p ns.
Proof. intros fs fuel ps st' rs i p ns H. intros P R. exact (proc_mains_sound fs fuel ps st0 st' rs (MemoOk_nil fs) H i p ns P R). Qed.
Print Assumptions C16_result_is_the_include_tree.

Theorem C16_definitions_of_the_concatenation :
  forall fs p ns, Flat fs p ns -> Inline fs p (defs_of ns).
Proof. exact Flat_inline. Qed.
Print Assumptions C16_definitions_of_the_concatenation.

Theorem C16_each_file_processed_once :
  forall fs fuel ps st' rs, proc_mains fs fuel st0 ps = (st', rs) -> NoDup (f_log st').
Proof. intros fs fuel ps st' rs H. exact (proc_mains_log fs fuel ps st0 st' rs LogInv_st0 H). Qed.
Print Assumptions C16_each_file_processed_once.

(* non-vacuity: a diamond (0 includes 1 and 2, both include 3), then file 3 alone; a cycle; a missing include *)
Example C16_example :
  let fs := fun p => match p with
                     | 0 => Some [IInc 1; IInc 2; IDef 10] | 1 => Some [IInc 3; IDef 11]
                     | 2 => Some [IDef 12; IInc 3] | 3 => Some [IDef 13]
                     | 4 => Some [IInc 5] | 5 => Some [IDef 1; IInc 4] | 6 => Some [IInc 9]
                     | _ => None end in
  (let '(st, rs) := proc_mains fs 8 st0 [0; 3] in
   rs = [FOk [NInc 1 [NInc 3 [NDef 13]; NDef 11]; NInc 2 [NDef 12; NInc 3 [NDef 13]]; NDef 10]; FOk [NDef 13]]
   /\ f_log st = [0; 1; 3; 2]) /\
  snd (proc_mains fs 8 st0 [4]) = [FErr (ECyclic 4)] /\ snd (proc_mains fs 8 st0 [6]) = [FErr (EMissing 9)].
Proof. vm_compute. repeat split; reflexivity. Qed.

(* the recursion over includes ends: with more fuel than there are files (univ lists every existing file) no run
   ever exhausts it — each nested call has marked one more file as in progress, and a marked file is never entered
   again (it yields its stored result or the cyclic-include failure). So cycles, self-includes and arbitrarily
   tangled include graphs end in a result or in EMissing / ECyclic, never in non-termination. *)
Theorem C16_include_recursion_terminates :
  forall fs univ fuel ps st' rs,
    (forall p, fs p <> None -> In p univ) -> length univ < fuel ->
    proc_mains fs fuel st0 ps = (st', rs) -> ~ In (FErr EFuel) rs.
Proof.
  intros fs univ fuel ps st' rs Hu Hb H.
  exact (proc_mains_fuel_enough fs univ Hu fuel Hb ps st0 st' rs LogInv_st0 H).
Qed.
Print Assumptions C16_include_recursion_terminates.
