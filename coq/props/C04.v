(* props/C04.v — placeholder; filled below in this session. *)
From Prophy Require Import Bytes Schema Layout Wire PcModel.
