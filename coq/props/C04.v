(* props/C04.v — prophyc's computed layout equals the wire rules and both runtimes' statics. *)
From Coq Require Import ZArith List Bool Lia.
From Prophy Require Import Bytes Schema Layout Wire Src PyStatics PyEncode PcModel
  Arith SpecAlign Views SpecLen PyStaticsFacts PyEncodeFacts PcFacts.
Import ListNotations.
Local Open Scope Z_scope.

(* prophyc (model of prophyc/model.py evaluate_sizes / calc_wire_stiffness): size, alignment and
   stiffness of every legal type are what the documented rules imply *)
Theorem C04_prophyc_layout :
  forall t, legal t = true ->
    pc_size t = size t /\ pc_align t = align t /\ pc_kind t = stiff_code (stiffness t).
Proof.
  intros t Hl. destruct (pc_layout_eq t Hl) as [Ha Hs]. repeat split; [exact Hs|exact Ha|apply pc_kind_eq; exact Hl].
Qed.
Print Assumptions C04_prophyc_layout.

(* the Python runtime (model of the metaclasses' attribute computation) derives the same *)
Theorem C04_python_statics :
  forall t,
    py_align t = align t /\
    py_dynamic t = negb (is_fixed t) /\
    py_unlimited t = stiff_eqb (stiffness t) Unlimited /\
    (legal t = true -> is_fixed t = true -> py_sizeof t = size t).
Proof.
  intros t. repeat split; [apply py_align_eq|apply py_dynamic_eq|apply py_unlimited_eq|apply py_sizeof_eq].
Qed.
Print Assumptions C04_python_statics.

(* hence prophyc and the generated Python class agree on every fixed type *)
Corollary C04_prophyc_python_agree :
  forall t, legal t = true -> is_fixed t = true ->
    pc_size t = py_sizeof t /\ pc_align t = py_align t.
Proof.
  intros t Hl Hf. destruct (pc_layout_eq t Hl) as [Ha Hs].
  rewrite Ha, Hs, py_align_eq, (py_sizeof_eq t Hl Hf). split; reflexivity.
Qed.
Print Assumptions C04_prophyc_python_agree.

(* every encoding of a fixed type has exactly that length *)
Theorem C04_fixed_length :
  forall e fs v, legal (TStruct fs) = true -> wt (TStruct fs) v = true -> is_fixed (TStruct fs) = true ->
    exists b, py_enc e (TStruct fs) v = Ok b /\ len b = pc_size (TStruct fs).
Proof.
  intros e fs v Hl Hw Hf. destruct (py_encode_length_fixed e (TStruct fs) v eq_refl Hl Hw Hf) as [b [E L]].
  exists b. split; [exact E|]. destruct (pc_layout_eq _ Hl) as [_ Hs]. rewrite Hs, <- (py_sizeof_eq _ Hl Hf). exact L.
Qed.
Print Assumptions C04_fixed_length.

(* no type containing a dynamic or greedy part is classified as a lesser stiffness *)
Section Has.
  Variable hasT : ty -> bool.
  Definition has_greedy_f (f : field) : bool :=
    match fst f with FGreedy => true | FPlain => hasT (snd f) | _ => false end.
  Definition has_dynamic_f (f : field) : bool :=
    match fst f with FGreedy | FBound _ => true | FPlain => hasT (snd f) | _ => false end.
End Has.
Fixpoint has_greedy (t : ty) : bool :=
  match t with TStruct fs => existsb (has_greedy_f has_greedy) fs | _ => false end.
Fixpoint has_dynamic (t : ty) : bool :=
  match t with TStruct fs => existsb (has_dynamic_f has_dynamic) fs | _ => false end.

Lemma has_greedy_unlimited t : has_greedy t = true -> stiffness t = Unlimited.
Proof.
  induction t as [k| |vals|fs IH|arms IH] using ty_ind'; try discriminate.
  cbn [has_greedy stiffness]. induction IH as [|f r Hf Hr IHr]; [discriminate|].
  cbn [existsb stiff_fields fold_right]. intros H. apply orb_prop in H. destruct H as [H|H].
  - unfold has_greedy_f in H. unfold fstiff. destruct (fst f); try discriminate.
    + rewrite (Hf H). reflexivity.
    + reflexivity.
  - specialize (IHr H). unfold stiff_fields in IHr. rewrite IHr. destruct (fstiff stiffness f); reflexivity.
Qed.

Lemma has_dynamic_not_fixed t : has_dynamic t = true -> stiffness t <> Fixed.
Proof.
  induction t as [k| |vals|fs IH|arms IH] using ty_ind'; try discriminate.
  cbn [has_dynamic stiffness]. induction IH as [|f r Hf Hr IHr]; [discriminate|].
  cbn [existsb stiff_fields fold_right]. intros H Hc. apply stiff_max_fixed in Hc. destruct Hc as [Hc1 Hc2].
  apply orb_prop in H. destruct H as [H|H].
  - unfold has_dynamic_f in H. unfold fstiff in Hc1. destruct (fst f); try discriminate.
    exact (Hf H Hc1).
  - exact (IHr H Hc2).
Qed.

Theorem C04_stiffness_never_lesser :
  forall t, legal t = true ->
    (has_greedy t = true -> pc_kind t = K_UNLIMITED) /\
    (has_dynamic t = true -> pc_kind t <> K_FIXED).
Proof.
  intros t Hl. rewrite (pc_kind_eq t Hl). split; intros H.
  - rewrite (has_greedy_unlimited t H). reflexivity.
  - pose proof (has_dynamic_not_fixed t H) as Hn. destruct (stiffness t); cbn; unfold K_FIXED; congruence.
Qed.
Print Assumptions C04_stiffness_never_lesser.

Definition ex_dyn_unl : ty :=
  TStruct [(FPlain, TScalar U32); (FBound 0%nat, TScalar U8);
           (FPlain, TStruct [(FPlain, TScalar U8); (FGreedy, TScalar U32)])].
Example C04_hypotheses_inhabited :
  legal ex_dyn_unl = true /\ has_greedy ex_dyn_unl = true /\ pc_kind ex_dyn_unl = 2 /\ pc_size ex_dyn_unl = 8.
Proof. vm_compute. repeat split; reflexivity. Qed.
