(* props/C11.v — copy_from yields an equal, fully independent message.
   In the reference model a message is an immutable value tree, so copies are independent by
   construction; the theorems state that explicitly, and the correspondence run (checks/C11.py)
   is what compares the Python objects, which can alias, with this alias-free model on
   histories that mutate both messages after copying at every nesting depth. *)
From Coq Require Import ZArith List Bool Lia.
From Prophy Require Import Bytes Schema Layout Wire ApiSpec Views ApiFacts.
Import ListNotations.
Local Open Scope Z_scope.

(* after dst.copy_from(src) both hold the same tree whatever dst held before, and src is unchanged *)
Theorem C11_copy_equal :
  forall t a b dst_b,
    let st' := fst (hstep t (a, b) (HCopy dst_b)) in
    fst st' = snd st' /\ (if dst_b then fst st' = a else snd st' = b).
Proof. exact copy_from_equal. Qed.
Print Assumptions C11_copy_equal.

(* equal trees have identical encodings (the encoding is a function of the tree) *)
Theorem C11_equal_encodings :
  forall e t a b dst_b,
    let st' := fst (hstep t (a, b) (HCopy dst_b)) in wire e t (fst st') = wire e t (snd st').
Proof. intros e t a b dst_b. cbn zeta. destruct (copy_from_equal t a b dst_b) as [H _]. cbn zeta in H. rewrite H. reflexivity. Qed.
Print Assumptions C11_equal_encodings.

(* any later operation on one message, performed or rejected, at any depth, leaves the other untouched *)
Theorem C11_independent :
  forall t a b on_b path o,
    let st' := fst (hstep t (a, b) (HOp on_b path o)) in if on_b then fst st' = a else snd st' = b.
Proof. exact op_leaves_other. Qed.
Print Assumptions C11_independent.

(* extend() of a composite array with another message's elements leaves the source untouched *)
Theorem C11_extend_source_unchanged :
  forall t a b dpath i spath si,
    snd (fst (hstep t (a, b) (HExtendFrom false dpath i true spath si))) = b /\
    fst (fst (hstep t (a, b) (HExtendFrom true dpath i false spath si))) = a.
Proof. exact extend_from_leaves_source. Qed.
Print Assumptions C11_extend_source_unchanged.

(* both messages stay valid through any such history *)
Theorem C11_histories_valid :
  forall t hs, legal t = true ->
    valid t (fst (run_hist t hs (default t, default t))) = true /\
    valid t (snd (run_hist t hs (default t, default t))) = true.
Proof. exact hist_reachable_valid. Qed.
Print Assumptions C11_histories_valid.
