(* props/C01.v — Python encode emits exactly the documented wire format.
   Only statements, each closed by [exact]/[apply] of a lemma proved elsewhere, and
   [Print Assumptions] beneath it. *)
From Coq Require Import ZArith List Bool Lia.
From Prophy Require Import Bytes Schema Layout Wire Src PyStatics PyEncode
  Arith SpecAlign Views SpecLen WireFacts PyEncodeFacts.
Import ListNotations.
Local Open Scope Z_scope.

(* The model of prophy's Python encoder returns the canonical bytes, for every legal message
   type, every well-typed value (counters equal to the element counts) and both byte orders. *)
Theorem C01_python_encode_canonical :
  forall (e : endian) (fs : list field) (v : value),
    legal (TStruct fs) = true -> wt (TStruct fs) v = true ->
    py_enc e (TStruct fs) v = Ok (wire e (TStruct fs) v).
Proof. intros e fs v Hl Hw. apply py_enc_canonical; [reflexivity|exact Hl|exact Hw]. Qed.
Print Assumptions C01_python_encode_canonical.

(* The canonical encoding has the shape the property quotes: *)
(* ... every scalar at an offset divisible by its size, *)
Theorem C01_scalars_aligned :
  forall t v, legal t = true -> wt t v = true ->
    Forall seg_aligned (place 0 (layout t v 0)).
Proof. intros t v Hl Hw. apply scalars_aligned; [exact Hl|exact Hw|apply Z.mod_0_l; pose proof (align_ok t) as H; apply okal_pos in H; lia]. Qed.
Print Assumptions C01_scalars_aligned.

(* ... a length that is a multiple of the struct alignment (zero padding up to it at the end), *)
Theorem C01_length_multiple_of_alignment :
  forall e t v, legal t = true -> wt t v = true -> len (wire e t v) mod align t = 0.
Proof. exact wire_length_aligned. Qed.
Print Assumptions C01_length_multiple_of_alignment.

(* ... optional / union / limited-array slots (all fixed types) of their full fixed size. *)
Theorem C01_fixed_slots_full_size :
  forall e t v, legal t = true -> wt t v = true -> is_fixed t = true -> len (wire e t v) = size t.
Proof. exact wire_length_fixed. Qed.
Print Assumptions C01_fixed_slots_full_size.

(* Non-vacuity: a composed schema and value meeting the hypotheses, and docs/encoding.rst
   "Fields following dynamic fields" as a transcription check of the specification. *)
Definition ex_X : ty := TStruct
  [(FPlain, TScalar U32); (FBound 0%nat, TScalar U8); (FPlain, TScalar U8); (FPlain, TScalar U32);
   (FPlain, TScalar U32); (FBound 4%nat, TScalar U8); (FPlain, TScalar U8); (FPlain, TScalar U64)].
Definition ex_x : value := VStruct
  [VInt 1; VList [VInt 1]; VInt 2; VInt 3; VInt 1; VList [VInt 4]; VInt 5; VInt 6].
Example C01_hypotheses_inhabited : legal ex_X = true /\ wt ex_X ex_x = true.
Proof. vm_compute. split; reflexivity. Qed.
Example C01_doc_example_block_alignment :
  wire LE ex_X ex_x =
  [1;0;0;0; 1;0;0;0;  2;0;0;0; 3;0;0;0;  1;0;0;0; 4;0;0;0;  5;0;0;0;0;0;0;0;  6;0;0;0;0;0;0;0].
Proof. vm_compute. reflexivity. Qed.
