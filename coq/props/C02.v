(* props/C02.v — placeholder until the round-trip theorems are proved; keeps the build target. *)
From Prophy Require Import Bytes Schema Layout Wire PyDecode.
