(* props/C02.v — Python decode inverts encode and consumes exactly the message. *)
From Coq Require Import ZArith List Bool Lia.
From Prophy Require Import Bytes Schema Layout Wire Src PyStatics PyEncode PyDecode
  Arith SpecAlign Views SpecLen PyEncodeFacts PyRoundtrip PyRoundtripGreedy TailFacts.
Import ListNotations.
Local Open Scope Z_scope.

(* For every legal message type WITHOUT a greedy tail, every well-typed value whose counted
   arrays stay within the decoder's guard (at most 65536 elements each) and both byte orders:
   encoding succeeds with the canonical bytes, decoding those bytes into a fresh message
   succeeds, consumes exactly the input and yields the same value — hence re-encoding gives
   the same bytes. *)
Theorem C02_roundtrip_no_greedy_tail :
  forall (e : endian) (fs : list field) (v : value),
    legal (TStruct fs) = true -> stiffness (TStruct fs) <> Unlimited ->
    wt (TStruct fs) v = true -> within_guard (TStruct fs) v = true ->
    exists b, py_enc e (TStruct fs) v = Ok b /\ py_decode e (TStruct fs) b = Ok (v, len b).
Proof.
  intros e fs v Hl Hu Hw Hg. exists (wire e (TStruct fs) v). split.
  - apply py_enc_canonical; [reflexivity|exact Hl|exact Hw].
  - apply py_decode_roundtrip; assumption.
Qed.
Print Assumptions C02_roundtrip_no_greedy_tail.

(* the same at any position inside a larger buffer, for every nested composite (the form the
   induction uses): what follows the message is not touched unless decoding is terminal *)
Theorem C02_roundtrip_nested :
  forall t, legal t = true -> is_comp t = true -> stiffness t <> Unlimited ->
  forall e fuel v data pre post terminal,
    data = pre ++ render e (layout t v (len pre)) ++ post ->
    wt t v = true -> within_guard t v = true ->
    len pre mod align t = 0 -> (terminal = true -> post = []) ->
    py_dec e data fuel t (len pre) terminal = Ok (v, segslen (layout t v (len pre))).
Proof. exact py_dec_roundtrip. Qed.
Print Assumptions C02_roundtrip_nested.

(* messages WITH a greedy tail, when the tail ends aligned — the case the property claims, the
   documented exception being tails that do not. [greedy_tail_aligned t v] is the spec's predicate
   (Wire.v): the last unl_depth segments of the layout — the final paddings of the structs on the
   way down to the greedy array — are empty, i.e. nothing follows the last element. The proof works
   with the recursive form [tail_clean]; TailFacts.greedy_tail_aligned_clean shows they are equal. *)
Theorem C02_roundtrip_greedy_tail_aligned :
  forall (e : endian) (fs : list field) (v : value),
    legal (TStruct fs) = true -> stiffness (TStruct fs) = Unlimited ->
    wt (TStruct fs) v = true -> within_guard (TStruct fs) v = true -> greedy_tail_aligned (TStruct fs) v = true ->
    exists b, py_enc e (TStruct fs) v = Ok b /\ py_decode e (TStruct fs) b = Ok (v, len b).
Proof.
  intros e fs v Hl Hu Hw Hg Ht. rewrite (greedy_tail_aligned_clean _ _ Hl Hw Hu) in Ht.
  exists (wire e (TStruct fs) v). split.
  - apply py_enc_canonical; [reflexivity|exact Hl|exact Hw].
  - apply py_decode_roundtrip_unl; assumption.
Qed.
Print Assumptions C02_roundtrip_greedy_tail_aligned.

Definition ex_g : ty := TStruct [(FPlain, TScalar U16); (FPlain, TStruct [(FPlain, TScalar U8); (FGreedy, TStruct [(FPlain, TScalar U32); (FBound 0%nat, TScalar U8)])])].
Definition ex_gv : value := VStruct [VInt 7; VStruct [VInt 1; VList [VStruct [VInt 2; VList [VInt 5; VInt 6]]; VStruct [VInt 4; VList [VInt 1; VInt 2; VInt 3; VInt 4]]]]].
Example C02_greedy_inhabited :
  legal ex_g = true /\ wt ex_g ex_gv = true /\ stiffness ex_g = Unlimited /\ tail_clean ex_g ex_gv = true /\
  greedy_tail_aligned ex_g ex_gv = true /\
  py_decode LE ex_g (wire LE ex_g ex_gv) = Ok (ex_gv, len (wire LE ex_g ex_gv)).
Proof. vm_compute. repeat split; reflexivity. Qed.

Definition ex_t : ty := TStruct
  [(FPlain, TScalar U8); (FOpt, TScalar U64); (FPlain, TScalar U32); (FBound 2%nat, TStruct [(FPlain, TScalar I16); (FPlain, TUnion [(7, TScalar U8); (9, TScalar U64)])]);
   (FPlain, TScalar U32); (FLimited 3 4%nat, TByte)].
Definition ex_v : value := VStruct
  [VInt 200; VSome (VInt 5); VInt 2; VList [VStruct [VInt (-2); VUnion 1 (VInt 77)]; VStruct [VInt 9; VUnion 0 (VInt 3)]]; VInt 2; VList [VInt 65; VInt 66]].
Example C02_hypotheses_inhabited :
  legal ex_t = true /\ wt ex_t ex_v = true /\ within_guard ex_t ex_v = true /\ stiffness ex_t = Dynamic /\
  py_decode BE ex_t (wire BE ex_t ex_v) = Ok (ex_v, len (wire BE ex_t ex_v)).
Proof. vm_compute. repeat split; reflexivity. Qed.
