(* props/C19.v — byte order changes only the bytes inside scalars; padding is always zero. *)
From Coq Require Import ZArith List Bool Lia.
From Prophy Require Import Bytes Schema Layout Wire Src PyStatics PyEncode
  Arith SpecAlign Views SpecLen WireFacts PyEncodeFacts.
Import ListNotations.
Local Open Scope Z_scope.

(* about the format: the other byte order is the same segment list with each scalar's bytes
   reversed in place, the same length, and zero padding *)
Theorem C19_wire_mirror :
  forall e t v, wire (flip e) t v = mirror e (layout t v 0).
Proof. intros. apply render_mirror. Qed.
Print Assumptions C19_wire_mirror.

Theorem C19_wire_same_length :
  forall e t v, len (wire (flip e) t v) = len (wire e t v).
Proof. intros. apply render_same_length. Qed.
Print Assumptions C19_wire_same_length.

Theorem C19_padding_zero :
  forall e n, Forall (fun b => b = 0) (render_seg e (SPad n)).
Proof. exact padding_zero. Qed.
Print Assumptions C19_padding_zero.

(* about the Python codec (model): its two outputs are related in exactly that way *)
Theorem C19_python :
  forall fs v, legal (TStruct fs) = true -> wt (TStruct fs) v = true ->
    exists l, py_enc LE (TStruct fs) v = Ok (render LE l) /\
              py_enc BE (TStruct fs) v = Ok (mirror LE l) /\
              len (render LE l) = len (mirror LE l).
Proof.
  intros fs v Hl Hw. exists (layout (TStruct fs) v 0). repeat split.
  - apply py_enc_canonical; [reflexivity|exact Hl|exact Hw].
  - rewrite <- (render_mirror LE). apply (py_enc_canonical (TStruct fs) BE v); [reflexivity|exact Hl|exact Hw].
  - rewrite <- (render_mirror LE). symmetry. apply (render_same_length LE).
Qed.
Print Assumptions C19_python.

Example C19_example :
  wire LE (TStruct [(FPlain, TScalar U8); (FPlain, TScalar U16)]) (VStruct [VInt 1; VInt 2]) = [1; 0; 2; 0] /\
  wire BE (TStruct [(FPlain, TScalar U8); (FPlain, TScalar U16)]) (VStruct [VInt 1; VInt 2]) = [1; 0; 0; 2].
Proof. vm_compute. split; reflexivity. Qed.
