(* props/C19.v — byte order changes only the bytes inside scalars; padding is always zero. *)
From Coq Require Import ZArith List Bool Lia.
From Prophy Require Import Bytes Schema Layout Wire Src PyStatics PyEncode PcModel CppFull
  Arith SpecAlign Views SpecLen WireFacts PyEncodeFacts PcFacts CppSizeFacts CppEncFacts.
Import ListNotations.
Local Open Scope Z_scope.

(* about the format: the other byte order is the same segment list with each scalar's bytes
   reversed in place, the same length, and zero padding *)
Theorem C19_wire_mirror :
  forall e t v, wire (flip e) t v = mirror e (layout t v 0).
Proof. intros. apply render_mirror. Qed.
Print Assumptions C19_wire_mirror.

Theorem C19_wire_same_length :
  forall e t v, len (wire (flip e) t v) = len (wire e t v).
Proof. intros. apply render_same_length. Qed.
Print Assumptions C19_wire_same_length.

Theorem C19_padding_zero :
  forall e n, Forall (fun b => b = 0) (render_seg e (SPad n)).
Proof. exact padding_zero. Qed.
Print Assumptions C19_padding_zero.

(* about the Python codec (model): its two outputs are related in exactly that way *)
Theorem C19_python :
  forall fs v, legal (TStruct fs) = true -> wt (TStruct fs) v = true ->
    exists l, py_enc LE (TStruct fs) v = Ok (render LE l) /\
              py_enc BE (TStruct fs) v = Ok (mirror LE l) /\
              len (render LE l) = len (mirror LE l).
Proof.
  intros fs v Hl Hw. exists (layout (TStruct fs) v 0). repeat split.
  - apply py_enc_canonical; [reflexivity|exact Hl|exact Hw].
  - rewrite <- (render_mirror LE). apply (py_enc_canonical (TStruct fs) BE v); [reflexivity|exact Hl|exact Hw].
  - rewrite <- (render_mirror LE). symmetry. apply (render_same_length LE).
Qed.
Print Assumptions C19_python.

(* about the C++ full codec's encoders (model CppFull.cpp_encode, tied to the compiled code by checks/C03.py and
   checks/C19.py): the two byte orders are related in exactly the same way; `native` is the host order by
   construction of the generated code (checked on the compiled code only) *)
Theorem C19_cpp :
  forall fs v, legal (TStruct fs) = true -> wt (TStruct fs) v = true ->
    exists l, cpp_encode LE (TStruct fs) v = render LE l /\
              cpp_encode BE (TStruct fs) v = mirror LE l /\
              len (render LE l) = len (mirror LE l).
Proof.
  intros fs v Hl Hw. exists (layout (TStruct fs) v 0).
  assert (H0 : 0 mod align (TStruct fs) = 0) by (apply Z.mod_0_l; pose proof (align_ok (TStruct fs)) as Ha; apply okal_pos in Ha; lia).
  destruct (cpp_lay_eq (TStruct fs) v 0 Hl Hw H0) as [H _]. unfold cpp_encode. repeat split.
  - apply H.
  - rewrite H. rewrite <- (render_mirror LE). reflexivity.
  - rewrite <- (render_mirror LE). symmetry. apply (render_same_length LE).
Qed.
Print Assumptions C19_cpp.

Example C19_example :
  wire LE (TStruct [(FPlain, TScalar U8); (FPlain, TScalar U16)]) (VStruct [VInt 1; VInt 2]) = [1; 0; 2; 0] /\
  wire BE (TStruct [(FPlain, TScalar U8); (FPlain, TScalar U16)]) (VStruct [VInt 1; VInt 2]) = [1; 0; 0; 2].
Proof. vm_compute. split; reflexivity. Qed.
