(* props/C09.v — the generated raw C++ swap converts a whole foreign-endian message to native in place (model level).
   What is proved, about the model CppSwap.cpp_swap of the generated `prophy::swap<T>` (tied to the compiled code by
   checks/C09.py, which runs the model inside Coq on every buffer it hands to the compiled swap and compares buffer,
   returned offset and guard bytes): for every legal struct or union type without an unlimited part that is outside
   the known finding KF-C ([kfc_free]), every well-typed value and every buffer holding the value's foreign-endian
   canonical encoding at an offset aligned for the type — with arbitrary bytes before and after —, the swap rewrites
   exactly the message into its native-endian canonical encoding, leaves all other bytes as they were and returns
   the offset one past the (aligned) end of the message.
   For a root struct with a greedy tail (C09_swap_greedy_tail): exactly the bytes in front of the unlimited last member
   (spec: SwapSpec.conv_segs, ending at Wire.last_member_offset) are converted, every later byte of the buffer —
   the unlimited member included — stays, and the returned offset is that member's offset rounded up to the struct's
   alignment; it is the member's address only when that offset is a multiple of the alignment, which is the known
   finding KF-G (C09_greedy_return_witness). [C09_kfc_witness] shows that the hypothesis [kfc_free] cannot be
   dropped: on the schema of KF-C the model — like the compiled code — returns a wrong end. *)
From Coq Require Import ZArith List Bool Lia.
From Prophy Require Import Bytes Schema Layout Wire SwapSpec Src PyDecode PcModel CppFull CppSwap
  Arith SpecAlign Views SpecLen WireFacts BytesFacts CppSwapFacts.
Import ListNotations.
Local Open Scope Z_scope.

Theorem C09_swap_whole_message :
  forall e t v pre post,
    legal t = true -> PyDecode.is_comp t = true -> stiffness t <> Unlimited -> kfc_free t = true ->
    wt t v = true -> len pre mod align t = 0 ->
    cpp_swap e t (pre ++ wire (flip e) t v ++ post) (len pre)
    = Some (pre ++ wire e t v ++ post, len pre + len (wire e t v)).
Proof.
  intros e t v pre post Hl Hc Hu Hk Hw Ha.
  pose proof (cpp_swap_roundtrip e t Hl Hc Hu Hk v pre post Hw Ha) as H.
  rewrite (layout_at_aligned t v (len pre) Ha) in H. unfold wire. rewrite H.
  destruct (layout_lengths t v Hl Hw) as [L1 _]. rewrite (len_render e _ L1). reflexivity.
Qed.
Print Assumptions C09_swap_whole_message.

(* the message alone in a buffer, at its start *)
Corollary C09_swap_message :
  forall e t v post,
    legal t = true -> PyDecode.is_comp t = true -> stiffness t <> Unlimited -> kfc_free t = true -> wt t v = true ->
    cpp_swap e t (wire (flip e) t v ++ post) 0 = Some (wire e t v ++ post, len (wire e t v)).
Proof.
  intros e t v post Hl Hc Hu Hk Hw.
  pose proof (C09_swap_whole_message e t v [] post Hl Hc Hu Hk Hw) as H. cbn [app] in H. change (len (@nil Z)) with 0 in H.
  rewrite H; [reflexivity|]. apply Z.mod_0_l. pose proof (align_ok t) as Hal. apply okal_pos in Hal. lia.
Qed.
Print Assumptions C09_swap_message.

(* any root struct, in particular one with a greedy tail: the first k bytes of the message — the segments in front
   of an unlimited last member, or the whole message when there is none — are converted, the rest of the buffer is
   left as it was *)
Theorem C09_swap_greedy_tail :
  forall e fs vs pre post,
    let t := TStruct fs in let v := VStruct vs in
    legal t = true -> kfc_free t = true -> wt t v = true -> len pre mod align t = 0 ->
    let k := segslen (conv_segs t v (len pre)) in
    cpp_swap e t (pre ++ wire (flip e) t v ++ post) (len pre)
    = Some (pre ++ firstn (Z.to_nat k) (wire e t v) ++ skipn (Z.to_nat k) (wire (flip e) t v) ++ post,
            swap_ret (align t) fs vs false (len pre)) /\
    (stiffness t = Unlimited ->
       k = last_member_offset fs vs false (len pre) - len pre /\
       swap_ret (align t) fs vs false (len pre) = cpp_align_up (align t) (last_member_offset fs vs false (len pre))).
Proof. exact cpp_swap_prefix. Qed.
Print Assumptions C09_swap_greedy_tail.

(* the hypothesis kfc_free is needed: the schema of the known finding KF-C, on which the model (as the compiled code)
   returns offset 32 for a 24-byte message *)
Definition kfc_schema : ty :=
  TStruct [(FPlain, TScalar U8); (FBound 0%nat, TScalar U8); (FPlain, TScalar U64);
           (FPlain, TScalar U8); (FBound 3%nat, TScalar U8); (FPlain, TScalar U8)].
Definition kfc_value : value :=
  VStruct [VInt 1; VList [VInt 1]; VInt 7; VInt 3; VList [VInt 3; VInt 4; VInt 5]; VInt 9].

Theorem C09_kfc_witness :
  legal kfc_schema = true /\ wt kfc_schema kfc_value = true /\ stiffness kfc_schema <> Unlimited /\
  kfc_free kfc_schema = false /\
  len (wire LE kfc_schema kfc_value) = 24 /\
  (exists d, cpp_swap LE kfc_schema (wire BE kfc_schema kfc_value ++ repeat 165 64%nat) 0 = Some (d, 32)).
Proof.
  repeat split; try (vm_compute; congruence).
  eexists. vm_compute. reflexivity.
Qed.
Print Assumptions C09_kfc_witness.

(* the known finding KF-G: the returned offset is the unlimited member's offset rounded up to the struct alignment;
   struct G { u64 a; u8 b; u8 g<...>; }: g is at offset 9, the model (as the compiled code) returns 16 *)
Theorem C09_greedy_return_witness :
  let t := TStruct [(FPlain, TScalar U64); (FPlain, TScalar U8); (FGreedy, TScalar U8)] in
  let vs := [VInt 1; VInt 2; VList [VInt 3; VInt 4; VInt 5]] in
  legal t = true /\ wt t (VStruct vs) = true /\ kfc_free t = true /\ stiffness t = Unlimited /\
  last_member_offset [(FPlain, TScalar U64); (FPlain, TScalar U8); (FGreedy, TScalar U8)] vs false 0 = 9 /\
  cpp_swap LE t (wire BE t (VStruct vs) ++ [165; 165]) 0
  = Some ([1; 0; 0; 0; 0; 0; 0; 0; 2; 3; 4; 5; 0; 0; 0; 0; 165; 165], 16).
Proof. repeat split; vm_compute; reflexivity. Qed.
Print Assumptions C09_greedy_return_witness.

(* non-vacuity: a struct with three parts, an optional and a union that meets every hypothesis *)
Example C09_example :
  let t := TStruct [(FPlain, TScalar U16); (FBound 0%nat, TScalar U32); (FOpt, TScalar U16);
                    (FPlain, TScalar U8); (FBound 3%nat, TScalar U16);
                    (FPlain, TUnion [(1, TScalar U16); (2, TScalar U64)])] in
  let v := VStruct [VInt 2; VList [VInt 1; VInt 258]; VSome (VInt 772); VInt 1; VList [VInt 515]; VUnion 1 (VInt 5)] in
  legal t = true /\ wt t v = true /\ stiffness t <> Unlimited /\ kfc_free t = true /\
  cpp_swap LE t (wire BE t v ++ [165; 165]) 0 = Some (wire LE t v ++ [165; 165], len (wire LE t v)).
Proof. repeat split; try (vm_compute; congruence). Qed.
