(* props/C09.v — the generated raw C++ swap converts a whole foreign-endian message to native in place (model level).
   What is proved, about the model CppSwap.cpp_swap of the generated `prophy::swap<T>` (tied to the compiled code by
   checks/C09.py, which runs the model inside Coq on every buffer it hands to the compiled swap and compares buffer,
   returned offset and guard bytes): for every legal struct or union type without an unlimited part that is outside
   the known finding KF-C ([kfc_free]), every well-typed value and every buffer holding the value's foreign-endian
   canonical encoding at an offset aligned for the type — with arbitrary bytes before and after —, the swap rewrites
   exactly the message into its native-endian canonical encoding, leaves all other bytes as they were and returns
   the offset one past the (aligned) end of the message.
   Not proved: the clause about messages with a greedy tail (only members before the unlimited member are swapped);
   the check leaves unlimited roots out as well. [C09_kfc_witness] shows that the hypothesis [kfc_free] cannot be
   dropped: on the schema of KF-C the model — like the compiled code — returns a wrong end. *)
From Coq Require Import ZArith List Bool Lia.
From Prophy Require Import Bytes Schema Layout Wire Src PyDecode PcModel CppFull CppSwap
  Arith SpecAlign Views SpecLen WireFacts CppSwapFacts.
Import ListNotations.
Local Open Scope Z_scope.

Theorem C09_swap_whole_message :
  forall e t v pre post,
    legal t = true -> PyDecode.is_comp t = true -> stiffness t <> Unlimited -> kfc_free t = true ->
    wt t v = true -> len pre mod align t = 0 ->
    cpp_swap e t (pre ++ wire (flip e) t v ++ post) (len pre)
    = Some (pre ++ wire e t v ++ post, len pre + len (wire e t v)).
Proof.
  intros e t v pre post Hl Hc Hu Hk Hw Ha.
  pose proof (cpp_swap_roundtrip e t Hl Hc Hu Hk v pre post Hw Ha) as H.
  rewrite (layout_at_aligned t v (len pre) Ha) in H. unfold wire. rewrite H.
  destruct (layout_lengths t v Hl Hw) as [L1 _]. rewrite (len_render e _ L1). reflexivity.
Qed.
Print Assumptions C09_swap_whole_message.

(* the message alone in a buffer, at its start *)
Corollary C09_swap_message :
  forall e t v post,
    legal t = true -> PyDecode.is_comp t = true -> stiffness t <> Unlimited -> kfc_free t = true -> wt t v = true ->
    cpp_swap e t (wire (flip e) t v ++ post) 0 = Some (wire e t v ++ post, len (wire e t v)).
Proof.
  intros e t v post Hl Hc Hu Hk Hw.
  pose proof (C09_swap_whole_message e t v [] post Hl Hc Hu Hk Hw) as H. cbn [app] in H. change (len (@nil Z)) with 0 in H.
  rewrite H; [reflexivity|]. apply Z.mod_0_l. pose proof (align_ok t) as Hal. apply okal_pos in Hal. lia.
Qed.
Print Assumptions C09_swap_message.

(* the hypothesis kfc_free is needed: the schema of the known finding KF-C, on which the model (as the compiled code)
   returns offset 32 for a 24-byte message *)
Definition kfc_schema : ty :=
  TStruct [(FPlain, TScalar U8); (FBound 0%nat, TScalar U8); (FPlain, TScalar U64);
           (FPlain, TScalar U8); (FBound 3%nat, TScalar U8); (FPlain, TScalar U8)].
Definition kfc_value : value :=
  VStruct [VInt 1; VList [VInt 1]; VInt 7; VInt 3; VList [VInt 3; VInt 4; VInt 5]; VInt 9].

Theorem C09_kfc_witness :
  legal kfc_schema = true /\ wt kfc_schema kfc_value = true /\ stiffness kfc_schema <> Unlimited /\
  kfc_free kfc_schema = false /\
  len (wire LE kfc_schema kfc_value) = 24 /\
  (exists d, cpp_swap LE kfc_schema (wire BE kfc_schema kfc_value ++ repeat 165 64%nat) 0 = Some (d, 32)).
Proof.
  repeat split; try (vm_compute; congruence).
  eexists. vm_compute. reflexivity.
Qed.
Print Assumptions C09_kfc_witness.

(* non-vacuity: a struct with three parts, an optional and a union that meets every hypothesis *)
Example C09_example :
  let t := TStruct [(FPlain, TScalar U16); (FBound 0%nat, TScalar U32); (FOpt, TScalar U16);
                    (FPlain, TScalar U8); (FBound 3%nat, TScalar U16);
                    (FPlain, TUnion [(1, TScalar U16); (2, TScalar U64)])] in
  let v := VStruct [VInt 2; VList [VInt 1; VInt 258]; VSome (VInt 772); VInt 1; VList [VInt 515]; VUnion 1 (VInt 5)] in
  legal t = true /\ wt t v = true /\ stiffness t <> Unlimited /\ kfc_free t = true /\
  cpp_swap LE t (wire BE t v ++ [165; 165]) 0 = Some (wire LE t v ++ [165; 165], len (wire LE t v)).
Proof. repeat split; try (vm_compute; congruence). Qed.
