(* props/C15.v — definition order does not matter: output is dependency-ordered and complete. *)
From Coq Require Import List Bool Arith Lia Permutation.
From Prophy Require Import PcSort PcSortFacts.
Import ListNotations.

(* For every set of definitions with unique identities (unique names are not even needed) whose dependency graph
   is acyclic (stated constructively by a rank function that decreases along dependencies to
   available names), in ANY input order, the model of prophyc's topological_sort returns a
   permutation of the input — every definition exactly once — in which each definition comes
   after every available definition it depends on (builtin names excepted). *)
Theorem C15_sorted_complete :
  forall (builtins : list nat) (rank : nat -> nat) (l0 : list node),
    NoDup (map nid l0) ->
    (forall n, In n l0 -> forall d, In d (ndeps n) -> mem d (map nname l0) = true -> rank d < rank (nname n)) ->
    exists l', topological_sort builtins l0 = Sorted l' /\ Permutation l' l0 /\
      forall p n, nth_error l' p = Some n -> forall d, In d (ndeps n) -> mem d (map nname l0) = true ->
        mem d builtins = true \/ exists j m, j < p /\ nth_error l' j = Some m /\ nname m = d.
Proof. exact topological_sort_sorted. Qed.
Print Assumptions C15_sorted_complete.

(* Any two orderings of the same definitions therefore give outputs that are permutations of
   each other, each dependency-ordered. *)
Corollary C15_any_permutation :
  forall builtins rank l1 l2,
    Permutation l1 l2 ->
    NoDup (map nid l1) ->
    (forall n, In n l1 -> forall d, In d (ndeps n) -> mem d (map nname l1) = true -> rank d < rank (nname n)) ->
    exists o1 o2, topological_sort builtins l1 = Sorted o1 /\ topological_sort builtins l2 = Sorted o2 /\
                  Permutation o1 o2.
Proof.
  intros builtins rank l1 l2 Hp Hi Ha.
  destruct (topological_sort_sorted builtins rank l1 Hi Ha) as [o1 [E1 [P1 _]]].
  assert (Hi2 : NoDup (map nid l2)) by (eapply Permutation_NoDup; [apply Permutation_map; exact Hp|exact Hi]).
  assert (Hm : forall d, mem d (map nname l2) = mem d (map nname l1)).
  { intros d. destruct (mem d (map nname l1)) eqn:E.
    - apply mem_true. apply mem_true in E. eapply Permutation_in; [apply Permutation_map; exact Hp|exact E].
    - destruct (mem d (map nname l2)) eqn:E2; [|reflexivity]. apply mem_true in E2.
      assert (In d (map nname l1)) by (eapply Permutation_in; [apply Permutation_map; symmetry; exact Hp|exact E2]).
      apply mem_true in H. congruence. }
  destruct (topological_sort_sorted builtins rank l2 Hi2) as [o2 [E2 [P2 _]]].
  { intros n Hin d Hd Hav. rewrite Hm in Hav. apply Ha; auto. eapply Permutation_in; [symmetry; exact Hp|exact Hin]. }
  exists o1, o2. repeat split; auto. rewrite P1, P2. exact Hp.
Qed.
Print Assumptions C15_any_permutation.

(* non-vacuity: three definitions given in reverse dependency order *)
Definition ex_nodes : list node :=
  [mk_node 0 10 [11; 12]; mk_node 1 11 [12; 1]; mk_node 2 12 [1]].
Example C15_example :
  topological_sort [1] ex_nodes = Sorted [mk_node 2 12 [1]; mk_node 1 11 [12; 1]; mk_node 0 10 [11; 12]].
Proof. vm_compute. reflexivity. Qed.
