(* props/C15.v — placeholder until the theorems of this property are added. *)
From Prophy Require Import Bytes Schema Layout Wire PcModel.
