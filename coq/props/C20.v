(* props/C20.v — prophyc output is a deterministic function of its inputs.
   Determinism under hash seeds, working directories and repeated runs is a matter of the interpreter and is
   decided by running prophyc (checks/C20.py). What is logic — the one piece of state shared between the
   input files of a run, the file processor's table of processed files — is modelled (model/PcFiles.v) and
   proved harmless: the result computed for an input file is the include tree of that file, a function of the
   files' contents ([Flat] is functional), whatever files were processed before it, in whatever order, with
   whatever fuel. Hence two runs that list independent input files in different orders compute the same
   model for each file, and compiling one file does not change what is computed for another. *)
From Coq Require Import List Bool Arith.
From Prophy Require Import PcFiles PcFilesFacts.
Import ListNotations.

Theorem C20_include_tree_is_a_function_of_the_files :
  forall fs p a b, Flat fs p a -> Flat fs p b -> a = b.
Proof. exact Flat_fun. Qed.
Print Assumptions C20_include_tree_is_a_function_of_the_files.

Theorem C20_result_independent_of_what_was_processed_before :
  forall fs fuel1 fuel2 ps1 ps2 st1 st2 rs1 rs2 i j p r1 r2,
    proc_mains fs fuel1 st0 ps1 = (st1, rs1) -> proc_mains fs fuel2 st0 ps2 = (st2, rs2) ->
    nth_error ps1 i = Some p -> nth_error ps2 j = Some p ->
    nth_error rs1 i = Some (FOk r1) -> nth_error rs2 j = Some (FOk r2) -> r1 = r2.
Proof.
  intros fs fuel1 fuel2 ps1 ps2 st1 st2 rs1 rs2 i j p r1 r2 H1 H2 P1 P2 R1 R2.
  apply (Flat_fun fs p).
  - exact (proc_mains_sound fs fuel1 ps1 st0 st1 rs1 (MemoOk_nil fs) H1 i p r1 P1 R1).
  - exact (proc_mains_sound fs fuel2 ps2 st0 st2 rs2 (MemoOk_nil fs) H2 j p r2 P2 R2).
Qed.
Print Assumptions C20_result_independent_of_what_was_processed_before.

Example C20_example :
  let fs := fun p => match p with
                     | 0 => Some [IInc 2; IDef 10] | 1 => Some [IDef 11; IInc 2] | 2 => Some [IDef 12]
                     | _ => None end in
  snd (proc_mains fs 8 st0 [0; 1]) = [FOk [NInc 2 [NDef 12]; NDef 10]; FOk [NDef 11; NInc 2 [NDef 12]]] /\
  snd (proc_mains fs 8 st0 [1; 0]) = [FOk [NDef 11; NInc 2 [NDef 12]]; FOk [NInc 2 [NDef 12]; NDef 10]].
Proof. vm_compute. split; reflexivity. Qed.
