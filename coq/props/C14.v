(* props/C14.v — constant expressions denote one integer, the same in every back-end. *)
From Coq Require Import ZArith List Bool Lia.
From Prophy Require Import Schema Src PcExpr.
Import ListNotations.
Local Open Scope Z_scope.

(* The two evaluators of the tool-chain (parse-time: parsers/prophy.py, model-time: calc.py)
   declare the same precedence and associativity for every operator both know; the tables are
   regenerated from the source on every run, so this is re-checked against what the code says now. *)
Theorem C14_precedence_tables_agree :
  forall o, In o [1; 2; 3; 4; 5; 6; 7] -> lookup prec_prophy o = lookup prec_calc o /\ lookup prec_prophy o <> None.
Proof.
  intros o H. cbn [In] in H.
  repeat (destruct H as [<-|H]; [vm_compute; split; [reflexivity|discriminate]|]). destruct H.
Qed.
Print Assumptions C14_precedence_tables_agree.

(* the language's precedence, as both tables state it: unary minus > shifts > * / > + -, all
   binary operators left-associative *)
Theorem C14_language_precedence :
  lookup prec_prophy 1 = Some (0, 0) /\ lookup prec_prophy 2 = Some (0, 0) /\
  lookup prec_prophy 3 = Some (1, 0) /\ lookup prec_prophy 4 = Some (1, 0) /\
  lookup prec_prophy 5 = Some (2, 0) /\ lookup prec_prophy 6 = Some (2, 0) /\
  lookup prec_prophy 7 = Some (3, 1).
Proof. vm_compute. repeat split; reflexivity. Qed.
Print Assumptions C14_language_precedence.

(* hence both evaluators give every expression the same parse and the same integer *)
Lemma parse_expr_tables t1 t2 : (forall o, lookup t1 o = lookup t2 o) ->
  forall fuel minp ts, parse_expr t1 fuel minp ts = parse_expr t2 fuel minp ts.
Proof.
  intros H fuel. induction fuel as [|f IH]; intros minp ts; [reflexivity|].
  cbn [parse_expr].
  assert (Hatom : match ts with
        | TNum z :: r => Some (ENum z, r)
        | TName n :: r => Some (EVar n, r)
        | TOp 2 :: r => match lookup t1 7 with
            | Some (p, _) => match parse_expr t1 f p r with Some (e, r') => Some (ENeg e, r') | None => None end
            | None => None end
        | TLP :: r => match parse_expr t1 f 0 r with Some (e, TRP :: r') => Some (e, r') | _ => None end
        | _ => None end =
        match ts with
        | TNum z :: r => Some (ENum z, r)
        | TName n :: r => Some (EVar n, r)
        | TOp 2 :: r => match lookup t2 7 with
            | Some (p, _) => match parse_expr t2 f p r with Some (e, r') => Some (ENeg e, r') | None => None end
            | None => None end
        | TLP :: r => match parse_expr t2 f 0 r with Some (e, TRP :: r') => Some (e, r') | _ => None end
        | _ => None end).
  { destruct ts as [|[z|n|o| |] r]; try reflexivity.
    - destruct o as [|[[|[]|]|[]|]|]; try reflexivity. rewrite H. destruct (lookup t2 7) as [[p a]|]; [|reflexivity]. rewrite IH. reflexivity.
    - rewrite IH. reflexivity. }
  rewrite Hatom. clear Hatom.
  match goal with |- match ?a with _ => _ end = _ => destruct a as [[lhs rest]|]; [|reflexivity] end.
  generalize (S (length rest)). intros g. revert lhs rest.
  induction g as [|g' IHg]; intros lhs rest; [reflexivity|].
  cbn [ploop]. destruct rest as [|[z|n|o| |] r]; try reflexivity.
  rewrite H. destruct (lookup t2 o) as [[p assoc]|]; [|reflexivity].
  destruct (p <? minp); [reflexivity|]. rewrite IH.
  destruct (parse_expr t2 f (if assoc =? 0 then p + 1 else p) r) as [[rhs r']|]; [|reflexivity].
  apply IHg.
Qed.

Theorem C14_evaluators_agree :
  forall env ts, (forall o, lookup prec_prophy o = lookup prec_calc o) ->
    eval_tokens prec_prophy env ts = eval_tokens prec_calc env ts.
Proof.
  intros env ts H. unfold eval_tokens, parse. rewrite (parse_expr_tables _ _ H). reflexivity.
Qed.
Print Assumptions C14_evaluators_agree.

Example C14_shift_binds_tighter :
  eval_tokens prec_prophy (fun _ => None) [TNum 1; TOp 1; TNum 2; TOp 5; TNum 3] = Some 17 /\
  eval_tokens prec_calc (fun _ => None) [TNum 8; TOp 4; TNum 2] = Some 4 /\
  eval_tokens prec_prophy (fun _ => None) [TOp 2; TNum 2; TOp 3; TLP; TNum 3; TOp 2; TNum 5; TRP] = Some 4.
Proof. vm_compute. repeat split; reflexivity. Qed.
