(* model/Print.v — models of the two text renderers.
   Python: prophy/composite.py field_to_string, struct.__str__, union.__str__, six.repr_bytes
   (nested composites are rendered at indentation 0 and re-indented afterwards by splitting the text at
   newlines); CPython's repr() of a bytes object is modelled with its choice of the quote character.
   C++: generate_struct_print / generate_union_print (prophyc/generators/cpp_full.py) over
   prophy/detail/printer.hpp (the indentation is passed down; print_byte changes the stream's fill and
   base and restores them — the stream's formatting state is part of the model). Definitions only. *)
From Coq Require Import ZArith List Bool Decimal Hexadecimal.
From Prophy Require Import Bytes Schema Text.
Import ListNotations.
Local Open Scope Z_scope.

(* ===================== Python ===================== *)

(* text.split('\n') and '\n'.join(...) *)
Fixpoint split_nl (s : bytes) : list bytes :=
  match s with
  | [] => [[]]
  | c :: r => if c =? 10 then [] :: split_nl r
              else match split_nl r with [] => [[c]] | h :: t => (c :: h) :: t end
  end.

Fixpoint join_nl (l : list bytes) : bytes :=
  match l with
  | [] => []
  | x :: r => match r with [] => x | _ => x ++ 10 :: join_nl r end
  end.

(* indent(): '\n'.join(x and "  " + x or '' for x in text.split('\n')) *)
Definition py_indent (text : bytes) : bytes :=
  join_nl (map (fun x => match x with [] => [] | _ => 32 :: 32 :: x end) (split_nl text)).

Definition has (c : Z) (bs : bytes) : bool := existsb (Z.eqb c) bs.

(* CPython bytes_repr: the quote is " when the value holds ' and no ", else ' ;
   quote and backslash are escaped first, then \t \n \r, then everything outside 0x20..0x7e as \xhh *)
Definition py_esc (q c : Z) : bytes :=
  if (c =? q) || (c =? 92) then [92; c]
  else if c =? 9 then [92; 116] else if c =? 10 then [92; 110] else if c =? 13 then [92; 114]
  else if (c <? 32) || (127 <=? c) then [92; 120; hexdigit (c / 16); hexdigit (c mod 16)]
  else [c].

Definition py_repr_tail (bs : bytes) : bytes :=      (* repr(x)[1:] *)
  let q := if has 39 bs && negb (has 34 bs) then 34 else 39 in
  q :: flat_map (py_esc q) bs ++ [q].

(* six.repr_bytes: a double-quoted repr is rewritten to the single-quoted form *)
Definition replace_sq (s : bytes) : bytes := flat_map (fun c => if c =? 39 then [92; 39] else [c]) s.

Definition py_repr_bytes (bs : bytes) : bytes :=
  let text := py_repr_tail bs in
  match text with
  | 34 :: r => 39 :: replace_sq (removelast r) ++ [39]
  | _ => text
  end.

(* the enum class's _int_to_name dict: built by a comprehension, a later enumerator with the same value
   overwrites an earlier one *)
Fixpoint enum_name_last (es : list (Z * bytes)) (z : Z) : option bytes :=
  match es with
  | [] => None
  | (v, n) :: r => match enum_name_last r z with
                   | Some s => Some s
                   | None => if v =? z then Some n else None
                   end
  end.

Section Py.
  Variable strT : ty -> names -> value -> bytes.       (* str(value) of a composite *)

  (* field_to_string for a type that is no array and no bytes *)
  Definition py_fts_elem (name : bytes) (t : ty) (n : names) (v : value) : bytes :=
    match t, n, v with
    | TScalar _, _, VInt z | TByte, _, VInt z => name ++ colon ++ dec z ++ [10]
    | TEnum _, NEnum es, VInt z =>
        name ++ colon ++ match enum_name_last es z with Some s => s | None => [] end ++ [10]
    | TStruct _, _, _ | TUnion _, _, _ => name ++ open_brace ++ [10] ++ py_indent (strT t n v) ++ close_brace ++ [10]
    | _, _, _ => []
    end.

  (* struct.__str__: getattr(self, name, None) is None for counters and absent optionals *)
  Definition py_field_str (counter : bool) (name : bytes) (f : field) (n : names) (v : value) : bytes :=
    match fst f, v with
    | FPlain, _ => if counter then [] else py_fts_elem name (snd f) n v
    | FOpt, VSome x => py_fts_elem name (snd f) n x
    | FOpt, _ => []
    | _, VList xs =>
        match snd f with
        | TByte => name ++ colon ++ py_repr_bytes (map byte_of xs) ++ [10]
        | _ => flat_map (py_fts_elem name (snd f) n) xs
        end
    | _, _ => []
    end.

  Fixpoint py_fields_str (all : list field) (i : nat) (fs : list field) (ms : list (bytes * names))
           (vs : list value) : bytes :=
    match fs, ms, vs with
    | f :: fr, m :: mr, v :: vr =>
        py_field_str (is_sizer all i) (fst m) f (snd m) v ++ py_fields_str all (S i) fr mr vr
    | _, _, _ => []
    end.

  Fixpoint py_arm_str (arms : list (Z * ty)) (ms : list (bytes * names)) (i : nat) (x : value) : bytes :=
    match arms, ms, i with
    | a :: _, m :: _, O => py_fts_elem (fst m) (snd a) (snd m) x
    | _ :: ar, _ :: mr, S j => py_arm_str ar mr j x
    | _, _, _ => []
    end.
End Py.

Fixpoint py_str (t : ty) (n : names) (v : value) {struct t} : bytes :=
  match t, n, v with
  | TStruct fs, NStruct ms, VStruct vs => py_fields_str py_str fs O fs ms vs
  | TUnion arms, NUnion ms, VUnion i x => py_arm_str py_str arms ms i x
  | _, _, _ => []
  end.

(* ===================== C++ ===================== *)

(* formatting state of the std::ostream that matters here: basefield (dec/hex) and the fill character;
   width is reset by every formatted insertion and is set only inside print_byte *)
Record fmt := { f_hex : bool; f_fill : Z }.
Definition fmt0 : fmt := {| f_hex := false; f_fill := 32 |}.
Definition ostream := (bytes * fmt)%type.

Definition put (s : bytes) (o : ostream) : ostream := (fst o ++ s, snd o).

Fixpoint hex_digits (u : Hexadecimal.uint) : bytes :=
  match u with
  | Hexadecimal.Nil => []
  | Hexadecimal.D0 r => 48 :: hex_digits r | Hexadecimal.D1 r => 49 :: hex_digits r
  | Hexadecimal.D2 r => 50 :: hex_digits r | Hexadecimal.D3 r => 51 :: hex_digits r
  | Hexadecimal.D4 r => 52 :: hex_digits r | Hexadecimal.D5 r => 53 :: hex_digits r
  | Hexadecimal.D6 r => 54 :: hex_digits r | Hexadecimal.D7 r => 55 :: hex_digits r
  | Hexadecimal.D8 r => 56 :: hex_digits r | Hexadecimal.D9 r => 57 :: hex_digits r
  | Hexadecimal.Da r => 97 :: hex_digits r | Hexadecimal.Db r => 98 :: hex_digits r
  | Hexadecimal.Dc r => 99 :: hex_digits r | Hexadecimal.Dd r => 100 :: hex_digits r
  | Hexadecimal.De r => 101 :: hex_digits r | Hexadecimal.Df r => 102 :: hex_digits r
  end.

(* text of an integer under the stream's base (hex: faithful for non-negative values only) *)
Definition int_text (f : fmt) (z : Z) : bytes :=
  if f_hex f then
    match Z.to_hex_int z with Hexadecimal.Pos u => hex_digits u | Hexadecimal.Neg u => 45 :: hex_digits u end
  else dec z.

(* out << integer with width w: padded on the left with the fill character *)
Definition put_int_w (w : nat) (z : Z) (o : ostream) : ostream :=
  let s := int_text (snd o) z in
  put (repeat (f_fill (snd o)) (w - length s) ++ s) o.

Definition put_int (z : Z) (o : ostream) : ostream := put_int_w 0 z o.

(* print_byte *)
Definition cpp_print_byte (c : Z) (o : ostream) : ostream :=
  if c =? 9 then put [92; 116] o
  else if c =? 10 then put [92; 110] o
  else if c =? 13 then put [92; 114] o
  else if c =? 39 then put [92; 39] o
  else if c =? 92 then put [92; 92] o
  else if (32 <=? c) && (c <=? 126) then put [c] o
  else
    let flags := f_hex (snd o) in                                    (* out.flags() *)
    let fill := f_fill (snd o) in
    let o1 := (fst o, {| f_hex := flags; f_fill := 48 |}) in         (* out.fill('0') returns the old fill *)
    let o2 := put [92; 120] o1 in
    let o3 := (fst o2, {| f_hex := true; f_fill := f_fill (snd o2) |}) in    (* << std::hex *)
    let o4 := put_int_w 2 c o3 in                                    (* width(2); << unsigned(x) *)
    (fst o4, {| f_hex := flags; f_fill := fill |}).                  (* out.flags(flags); out.fill(fill) *)

(* operator<<(ostream&, pair<const uint8_t*, size_t>) *)
Definition cpp_put_bytes (bs : bytes) (o : ostream) : ostream :=
  put [39] (fold_left (fun o c => cpp_print_byte c o) bs (put [39] o)).

Section Cpp.
  Variable printT : ty -> names -> value -> nat -> ostream -> ostream.  (* message_impl<T>::print(x, out, indent) *)

  (* printer<T>::print(out, indent, name, x) for the three specialisations *)
  Definition cpp_print_one (ind : nat) (name : bytes) (t : ty) (n : names) (v : value) (o : ostream) : ostream :=
    match t, n, v with
    | TScalar _, _, VInt z | TByte, _, VInt z =>
        put [10] (put_int z (put colon (put name (put (spaces ind) o))))
    | TEnum _, NEnum es, VInt z =>
        let o1 := put colon (put name (put (spaces ind) o)) in
        put [10] (match enum_name es z with              (* print_traits<T>::to_literal: switch, first case *)
                  | Some s => put s o1
                  | None => put_int (z mod 2 ^ 32) o1
                  end)
    | TStruct _, _, _ | TUnion _, _, _ =>
        let o1 := put [10] (put open_brace (put name (put (spaces ind) o))) in
        let o2 := printT t n v (S ind) o1 in
        put [10] (put close_brace (put (spaces ind) o2))
    | _, _, _ => o
    end.

  (* the array overload: while (n) { print(out, indent, name, *x); ++x; --n; } *)
  Definition cpp_print_n (ind : nat) (name : bytes) (t : ty) (n : names) (xs : list value) (o : ostream) : ostream :=
    fold_left (fun o x => cpp_print_one ind name t n x o) xs o.

  (* one statement of generate_struct_print *)
  Definition cpp_field_print (counter : bool) (ind : nat) (name : bytes) (f : field) (n : names) (v : value)
             (o : ostream) : ostream :=
    match fst f, v with
    | FPlain, _ => if counter then o else cpp_print_one ind name (snd f) n v o
    | FOpt, VSome x => cpp_print_one ind name (snd f) n x o
    | FOpt, _ => o
    | k, VList xs =>
        (* x.f.data() with size_t(N) / x.f.size() / std::min(x.f.size(), size_t(N)) *)
        let shown := match k with
                     | FLimited m _ => firstn (Z.to_nat m) xs
                     | _ => xs
                     end in
        match snd f with
        | TByte => put [10] (cpp_put_bytes (map byte_of shown) (put colon (put name (put (spaces ind) o))))
        | _ => cpp_print_n ind name (snd f) n shown o
        end
    | _, _ => o
    end.

  Fixpoint cpp_fields_print (all : list field) (i : nat) (ind : nat) (fs : list field) (ms : list (bytes * names))
           (vs : list value) (o : ostream) : ostream :=
    match fs, ms, vs with
    | f :: fr, m :: mr, v :: vr =>
        cpp_fields_print all (S i) ind fr mr vr (cpp_field_print (is_sizer all i) ind (fst m) f (snd m) v o)
    | _, _, _ => o
    end.

  (* switch (x.discriminator) { case ...: do_print(out, indent, "arm", x.arm); break; } *)
  Fixpoint cpp_arm_print (ind : nat) (arms : list (Z * ty)) (ms : list (bytes * names)) (i : nat) (x : value)
           (o : ostream) : ostream :=
    match arms, ms, i with
    | a :: _, m :: _, O => cpp_print_one ind (fst m) (snd a) (snd m) x o
    | _ :: ar, _ :: mr, S j => cpp_arm_print ind ar mr j x o
    | _, _, _ => o
    end.
End Cpp.

Fixpoint cpp_print (t : ty) (n : names) (v : value) (ind : nat) (o : ostream) {struct t} : ostream :=
  match t, n, v with
  | TStruct fs, NStruct ms, VStruct vs => cpp_fields_print cpp_print fs O ind fs ms vs o
  | TUnion arms, NUnion ms, VUnion i x => cpp_arm_print cpp_print ind arms ms i x o
  | _, _, _ => o
  end.

(* message<T>::print(): a fresh std::ostringstream, indentation 0 *)
Definition cpp_text (t : ty) (n : names) (v : value) : bytes := fst (cpp_print t n v O ([], fmt0)).
