(* model/PcPatch.v — model of prophyc/patch.py on the member records of a struct (model.StructMember: name,
   type name, bound, size, greedy, optional), of what the prophy text front-end builds for each form of
   member declaration (p_struct_member_1 .. 7), and of how a member record is read as a field kind by everything
   downstream (is_fixed / is_dynamic / is_limited / greedy / optional). Names are numbers. Definitions only. *)
From Coq Require Import ZArith List Bool.
Import ListNotations.
Local Open Scope Z_scope.

Record mem := { m_name : nat; m_type : nat; m_bound : option nat; m_size : option Z; m_greedy : bool; m_opt : bool }.

Definition plain_mem (n t : nat) : mem :=
  {| m_name := n; m_type := t; m_bound := None; m_size := None; m_greedy := false; m_opt := false |}.

(* ---- patch.py ---- *)
Inductive action :=
| AType (name tp : nat)
| AInsert (index : Z) (name tp : nat)
| ARemove (name : nat)
| ADynamic (name len_name : nat)
| AGreedy (name : nat)
| AStatic (name : nat) (size : Z)
| ALimited (name len_name : nat)
| ARename (name new_name : nat).

Inductive pres := POk (ms : list mem) | PErr.

(* next((x for x in enumerate(members) if x[1].name == name), (None, None)) *)
Fixpoint find_member (ms : list mem) (name : nat) (i : nat) : option (nat * mem) :=
  match ms with
  | [] => None
  | m :: r => if Nat.eqb (m_name m) name then Some (i, m) else find_member r name (S i)
  end.

Fixpoint set_nth (ms : list mem) (i : nat) (x : mem) : list mem :=
  match ms, i with
  | [], _ => []
  | _ :: r, O => x :: r
  | m :: r, S j => m :: set_nth r j x
  end.

Fixpoint del_nth (ms : list mem) (i : nat) : list mem :=
  match ms, i with
  | [], _ => []
  | _ :: r, O => r
  | m :: r, S j => m :: del_nth r j
  end.

(* list.insert(index, x): a negative index counts from the end, everything is clamped to [0, len] *)
Definition py_insert (ms : list mem) (index : Z) (x : mem) : list mem :=
  let n := Z.of_nat (length ms) in
  let i := if index <? 0 then Z.max 0 (n + index) else Z.min index n in
  firstn (Z.to_nat i) ms ++ x :: skipn (Z.to_nat i) ms.

(* len(tuple(x for x in members[:i] if x.name == len_name)) != 0 *)
Definition sizer_before (ms : list mem) (i : nat) (len_name : nat) : bool :=
  existsb (fun m => Nat.eqb (m_name m) len_name) (firstn i ms).

(* rename_field (after fix 8cfbd78): arrays counted by the renamed field follow it *)
Definition rebind (old new : nat) (m : mem) : mem :=
  match m_bound m with
  | Some b => if Nat.eqb b old
              then {| m_name := m_name m; m_type := m_type m; m_bound := Some new; m_size := m_size m;
                      m_greedy := m_greedy m; m_opt := m_opt m |}
              else m
  | None => m
  end.

Definition apply_action (ms : list mem) (a : action) : pres :=
  match a with
  | AType name tp =>
      match find_member ms name O with
      | Some (i, m) => POk (set_nth ms i {| m_name := m_name m; m_type := tp; m_bound := m_bound m; m_size := m_size m;
                                            m_greedy := m_greedy m; m_opt := m_opt m |})
      | None => PErr
      end
  | AInsert index name tp => POk (py_insert ms index (plain_mem name tp))
  | ARemove name =>
      match find_member ms name O with Some (i, _) => POk (del_nth ms i) | None => PErr end
  | ADynamic name len_name =>
      match find_member ms name O with
      | Some (i, m) =>
          if sizer_before ms i len_name
          then POk (set_nth ms i {| m_name := m_name m; m_type := m_type m; m_bound := Some len_name; m_size := None;
                                    m_greedy := m_greedy m; m_opt := false |})
          else PErr
      | None => PErr
      end
  | AGreedy name =>
      match find_member ms name O with
      | Some (i, m) => POk (set_nth ms i {| m_name := m_name m; m_type := m_type m; m_bound := None; m_size := None;
                                            m_greedy := true; m_opt := false |})
      | None => PErr
      end
  | AStatic name size =>
      match find_member ms name O with
      | Some (i, m) => POk (set_nth ms i {| m_name := m_name m; m_type := m_type m; m_bound := None; m_size := Some size;
                                            m_greedy := m_greedy m; m_opt := false |})
      | None => PErr
      end
  | ARename name new_name =>
      match find_member ms name O with
      | Some (i, m) =>
          POk (map (rebind name new_name)
                   (set_nth ms i {| m_name := new_name; m_type := m_type m; m_bound := m_bound m; m_size := m_size m;
                                    m_greedy := m_greedy m; m_opt := m_opt m |}))
      | None => PErr
      end
  | ALimited name len_name =>
      match find_member ms name O with
      | Some (i, m) =>
          if sizer_before ms i len_name
          then match m_size m with
               | Some _ => POk (set_nth ms i {| m_name := m_name m; m_type := m_type m; m_bound := Some len_name;
                                                m_size := m_size m; m_greedy := m_greedy m; m_opt := false |})
               | None => PErr
               end
          else PErr
      | None => PErr
      end
  end.

(* _apply: the actions of one node in order; the first failure fails the compilation *)
Fixpoint apply_actions (ms : list mem) (acts : list action) : pres :=
  match acts with
  | [] => POk ms
  | a :: r => match apply_action ms a with POk ms' => apply_actions ms' r | PErr => PErr end
  end.

(* patch(): a node is touched only when the patch file names it *)
Definition patch_node (node_name : nat) (ms : list mem) (patches : list (nat * list action)) : pres :=
  match find (fun p => Nat.eqb (fst p) node_name) patches with
  | Some (_, acts) => apply_actions ms acts
  | None => POk ms
  end.

(* ---- what the prophy text front-end builds for a member declaration ---- *)
Inductive decl :=
| DPlain (t n : nat)                 (* T x;       *)
| DFixed (t n : nat) (size : Z)      (* T x[N];    *)
| DBound (t n s : nat)               (* T x<@s>;   *)
| DGreedy (t n : nat)                (* T x<...>;  *)
| DOpt (t n : nat)                   (* T* x;      *)
| DLimitedBy (t n : nat) (size : Z) (s : nat).   (* the record of T x<N> with its counter named s (isar: size + counter) *)

Definition text_member (d : decl) : mem :=
  match d with
  | DPlain t n => plain_mem n t
  | DFixed t n size => {| m_name := n; m_type := t; m_bound := None; m_size := Some size; m_greedy := false; m_opt := false |}
  | DBound t n s => {| m_name := n; m_type := t; m_bound := Some s; m_size := None; m_greedy := false; m_opt := false |}
  | DGreedy t n => {| m_name := n; m_type := t; m_bound := None; m_size := None; m_greedy := true; m_opt := false |}
  | DOpt t n => {| m_name := n; m_type := t; m_bound := None; m_size := None; m_greedy := false; m_opt := true |}
  | DLimitedBy t n size s => {| m_name := n; m_type := t; m_bound := Some s; m_size := Some size; m_greedy := false; m_opt := false |}
  end.

(* ---- how downstream code classifies a member record (model.StructMember is_fixed / is_limited / is_dynamic) ---- *)
Inductive mkind := KPlain | KOpt | KFixed (n : Z) | KBound (s : nat) | KLimited (n : Z) (s : nat) | KGreedy.

Definition mem_kind (m : mem) : mkind :=
  match m_bound m, m_size m with
  | Some s, Some n => KLimited n s
  | Some s, None => KBound s
  | None, Some n => KFixed n
  | None, None => if m_greedy m then KGreedy else if m_opt m then KOpt else KPlain
  end.
