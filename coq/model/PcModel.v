(* model/PcModel.v — what prophyc computes for every struct and union (prophyc/model.py:
   calc_wire_stiffness, evaluate_sizes with evaluate_array_and_optional_size,
   evaluate_partial_padding_size, evaluate_struct_size, evaluate_union_size), following the
   code: one record per struct member, the `prev_member` lag when paddings are assigned and the
   negative "align to N" markers after dynamic members. Definitions only. *)
From Coq Require Import ZArith List Bool.
From Prophy Require Import Bytes Schema Src.
Import ListNotations.
Local Open Scope Z_scope.

(* Kind.FIXED = 0, DYNAMIC = 1, UNLIMITED = 2 *)
Definition K_FIXED := 0.
Definition K_DYNAMIC := 1.
Definition K_UNLIMITED := 2.

Definition stiff_code (s : stiff) : Z := match s with Fixed => 0 | Dynamic => 1 | Unlimited => 2 end.

Record pcm := mk_pcm {
  pm_size : Z;        (* member.byte_size *)
  pm_align : Z;       (* member.alignment *)
  pm_kind : Z;        (* member.kind: stiffness of the member's type, not influenced by arrays *)
  pm_isdyn : bool;    (* member.is_dynamic: bound and not size *)
  pm_greedy : bool;   (* member.greedy *)
  pm_nosize_arr : bool; (* member.is_array and not member.size *)
  pm_optional : bool   (* member.optional *)
}.

Definition pm_set_align (m : pcm) (a : Z) : pcm :=
  mk_pcm (pm_size m) a (pm_kind m) (pm_isdyn m) (pm_greedy m) (pm_nosize_arr m) (pm_optional m).

(* evaluate_struct_size.is_member_dynamic *)
Definition pm_member_dynamic (m : pcm) : bool :=
  pm_isdyn m || pm_greedy m || negb (pm_kind m =? K_FIXED).

(* evaluate_partial_padding_size: split_after predicate *)
Definition pm_splits (m : pcm) : bool := (pm_kind m =? K_DYNAMIC) || pm_nosize_arr m.

Section Pc.
  Variable sizeT : ty -> Z.
  Variable alignT : ty -> Z.
  Variable kindT : ty -> Z.

  (* evaluate_member_size + evaluate_array_and_optional_size *)
  Definition pc_member (f : field) : pcm :=
    let t := snd f in
    let s := match t with TByte => pc_byte_size | _ => sizeT t end in
    let a := match t with TByte => pc_byte_size | _ => alignT t end in
    let k := kindT t in
    match fst f with
    | FPlain => mk_pcm s a k false false false false
    | FOpt => let a' := pc_opt_alignment a in mk_pcm (pc_opt_size s a') a' k false false false true
    | FFixed n => mk_pcm (pc_array_size s n) a k false false false false
    | FLimited n _ => mk_pcm (pc_array_size s n) a k false false false false
    | FBound _ => mk_pcm (pc_array_size s 0) a k true false true false
    | FGreedy => mk_pcm (pc_array_size s 0) a k false true true false
    end.
End Pc.

(* greatest alignment of the part that starts with the first member of ms (split_after) *)
Fixpoint pc_part_max (ms : list pcm) : Z :=
  match ms with
  | [] => 1
  | m :: r => if pm_splits m then pm_align m else Z.max (pm_align m) (pc_part_max r)
  end.

(* evaluate_partial_padding_size: the first member of every part but the first gets the
   greatest alignment of its part *)
Fixpoint pc_partial (ms : list pcm) (first_of_later_part : bool) : list pcm :=
  match ms with
  | [] => []
  | m :: r =>
      (if first_of_later_part then pm_set_align m (Z.max (pm_align m) (pc_part_max (m :: r))) else m)
      :: pc_partial r (pm_splits m)
  end.

Definition pc_max_align (ms : list pcm) : Z :=
  match ms with
  | [] => 1
  | m :: r => fold_left (fun acc x => Z.max acc (pm_align x)) r (pm_align m)
  end.

(* evaluate_struct_size: walk with the prev_member lag.
   [walk prev ms byte_size] returns the paddings assigned to prev and to all of ms but the last
   one, the last member and the byte size before the final padding *)
Fixpoint pc_walk (prev : pcm) (ms : list pcm) (byte_size : Z) : list Z * pcm * Z :=
  match ms with
  | [] => ([], prev, byte_size)
  | m :: r =>
      let padding := pc_member_padding (pm_align m) byte_size in
      let bs := byte_size + (pm_size m + padding) in
      let p_prev := if pm_member_dynamic prev && (pm_align prev <? pm_align m)
                    then - pm_align m else padding in
      let '(ps, last, fin) := pc_walk m r bs in
      (p_prev :: ps, last, fin)
  end.

(* result: (byte_size, alignment, paddings per member) *)
Definition pc_struct_layout (ms0 : list pcm) : Z * Z * list Z :=
  let ms := pc_partial ms0 false in
  match ms with
  | [] => (0, 1, [])
  | m0 :: _ =>
      let alignment := pc_max_align ms in
      let '(ps, last, bs) := pc_walk m0 ms 0 in
      (* ps = [padding assigned to members[0] by its own iteration (overwritten)] ++ paddings of
         members 0..n-2; drop the first *)
      let padding := pc_final_padding alignment bs in
      let p_last := if existsb pm_member_dynamic ms
                    then (if (pm_align last <? alignment) || pm_optional last then - alignment else 0)
                    else padding in
      (bs + padding, alignment, tl ps ++ [p_last])
  end.

Section PcKind.
  Variable kindT : ty -> Z.
  (* StructMember.kind *)
  Definition pc_member_kind (f : field) : Z := kindT (snd f).
  (* _SerializableContainer.calc_wire_stiffness *)
  Definition pc_struct_kind (fs : list field) : Z :=
    match fs with
    | [] => K_FIXED
    | _ =>
        let lastf := last fs (FPlain, TByte) in
        if match fst lastf with FGreedy => true | _ => false end then K_UNLIMITED
        else
          let k := fold_right (fun f acc => Z.max (pc_member_kind f) acc) K_FIXED fs in
          if existsb (fun f => match fst f with FBound _ => true | _ => false end) fs
          then Z.max k K_DYNAMIC else k
    end.
End PcKind.

Fixpoint pc_kind (t : ty) : Z :=
  match t with
  | TStruct fs => pc_struct_kind pc_kind fs
  | _ => K_FIXED
  end.

Section PcU.
  Variable sizeT : ty -> Z.
  Variable alignT : ty -> Z.
  Definition pc_union_align (arms : list (Z * ty)) : Z :=
    Z.max pc_disc_size (match arms with
                        | [] => 1
                        | a :: r => fold_left (fun acc b => Z.max acc (alignT (snd b))) r (alignT (snd a))
                        end).
  Definition pc_union_size (arms : list (Z * ty)) : Z :=
    let m := match arms with
             | [] => 0
             | a :: r => fold_left (fun acc b => Z.max acc (sizeT (snd b))) r (sizeT (snd a))
             end in
    pc_union_round (m + pc_union_align arms) (pc_union_align arms).
End PcU.

Fixpoint pc_align (t : ty) : Z :=
  match t with
  | TScalar k => pc_builtin_size k
  | TByte => pc_byte_size
  | TEnum _ => pc_enum_size
  | TStruct fs => snd (fst (pc_struct_layout (map (pc_member (fun _ => 0) pc_align pc_kind) fs)))
  | TUnion arms => pc_union_align pc_align arms
  end.

Fixpoint pc_size (t : ty) : Z :=
  match t with
  | TScalar k => pc_builtin_size k
  | TByte => pc_byte_size
  | TEnum _ => pc_enum_size
  | TStruct fs => fst (fst (pc_struct_layout (map (pc_member pc_size pc_align pc_kind) fs)))
  | TUnion arms => pc_union_size pc_size pc_align arms
  end.

Definition pc_members (fs : list field) : list pcm :=
  pc_partial (map (pc_member pc_size pc_align pc_kind) fs) false.

Definition pc_paddings (fs : list field) : list Z :=
  snd (pc_struct_layout (map (pc_member pc_size pc_align pc_kind) fs)).

(* ---- raw C++ struct (prophyc/generators/cpp.py translate_struct over model.partition):
   members are declared one after another inside their part, positive paddings become manual
   padding members, an optional is a 4-byte flag, padding up to the value's own alignment and
   the value; a new part starts after every member that model.partition splits at.
   Per member: (part index from 0, offset in the part, offset of an optional's value or -1),
   computed from the member records *before* the partial-alignment raise (sizes and the
   optional's value alignment) and the paddings evaluate_struct_size assigned. ---- *)
Definition pm_part_ends (m : pcm) : bool := (pm_kind m =? K_DYNAMIC) || pm_isdyn m.

Fixpoint pc_raw_offsets (ms : list pcm) (ps : list Z) (part o : Z) : list (Z * Z * Z) :=
  match ms with
  | [] => []
  | m :: r =>
      (part, o, if pm_optional m then o + pm_align m else -1) ::
      match r with
      | [] => []
      | _ => if pm_part_ends m then pc_raw_offsets r (tl ps) (part + 1) 0
             else pc_raw_offsets r (tl ps) part (o + pm_size m + Z.max 0 (hd 0 ps))
      end
  end.

Definition pc_raw_layout (fs : list field) : list (Z * Z * Z) :=
  pc_raw_offsets (map (pc_member pc_size pc_align pc_kind) fs) (pc_paddings fs) 0 0.
