(* model/PcIsar.v — model of prophyc/parsers/isar.py make_struct_members: the member records the isar front-end
   builds for one <member> element from its optional flag and its <dimension> attributes. Names are numbers; the
   names the front-end derives (has_x, numOfX, x_len) are given by the functions [has_name], [numof_name],
   [len_name]. A size is a number (the text "size*size2" is evaluated later by the model pass; here it is the
   product). Definitions only. *)
From Coq Require Import ZArith List Bool.
From Prophy Require Import PcPatch.
Import ListNotations.
Local Open Scope Z_scope.

Record dimension := {
  d_size : option Z;                 (* size="N" *)
  d_size2 : option Z;                (* size2="M" *)
  d_this_is_variable : bool;         (* size contains THIS_IS_VARIABLE_SIZE_ARRAY *)
  d_var_name : option (bool * nat);  (* variableSizeFieldName: (starts with '@', name) *)
  d_is_variable : bool;              (* attribute isVariableSize present *)
  d_var_type : option nat            (* variableSizeFieldType *)
}.

Section Isar.
  Variables has_name numof_name len_name : nat -> nat.
  Variable u32 : nat.

  Definition isar_size (d : dimension) : option Z :=
    match d_size d, d_size2 d with
    | Some a, Some b => Some (a * b)
    | s, _ => s
    end.

  Definition mk (n t : nat) (b : option nat) (s : option Z) (o : bool) : mem :=
    {| m_name := n; m_type := t; m_bound := b; m_size := s; m_greedy := false; m_opt := o |}.

  Definition isar_members (name tp : nat) (optional : bool) (dim : option dimension) (dynamic_array : bool) : list mem :=
    match dim with
    | None => [mk name tp None None optional]
    | Some d =>
        let size := isar_size d in
        (if optional then [mk (has_name name) u32 None None false] else []) ++
        match d_var_name d with
        | Some (true, s) => [mk name tp (Some s) None false]
        | vn =>
            if d_this_is_variable d then [mk name tp (Some (numof_name name)) None false]
            else if d_is_variable d then
              let sizer := match vn with Some (_, s) => s | None => len_name name end in
              let t := match d_var_type d with Some t => t | None => u32 end in
              [mk sizer t None None false; mk name tp (Some sizer) (if dynamic_array then None else size) false]
            else [mk name tp None size false]
        end
    end.
End Isar.
