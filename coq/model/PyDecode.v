(* model/PyDecode.v — what prophy's Python runtime does on decode, following composite.py
   (struct._decode_impl, union._decode_impl, bytes_._decode), descriptor.py (decode_* dispatch),
   container.py (decode_scalar_array and the four _decode_impl), generators.py
   (container_len._decode with its array guard) and scalar.py. Positions are absolute
   offsets into [data]. Definitions only. *)
From Coq Require Import ZArith List Bool.
From Prophy Require Import Bytes Schema Src PyStatics PyEncode.
Import ListNotations.
Local Open Scope Z_scope.

(* numeric_decorator.decode *)
Definition py_unpack (e : endian) (k : sk) (data : bytes) (pos : Z) : res (Z * Z) :=
  if py_num_short (len data) pos (py_size k) then Err ProphyError   (* "too few bytes to decode integer" *)
  else
    let u := dec_uint e (slice data pos (py_size k)) in
    Ok (if py_fmt_signed k then to_signed (py_fmt_size k) u else u, py_size k).

Definition vints (bs : bytes) : list value := map VInt bs.

Section PyDec.
  Variable e : endian.
  Variable data : bytes.
  (* composite._decode_impl(data, pos, endianness, terminal) *)
  Variable decT : ty -> Z -> bool -> res (value * Z).

  (* decode_scalar: type_._decode then setattr -> _check *)
  Definition py_dec_scalar (t : ty) (pos : Z) : res (value * Z) :=
    match t with
    | TScalar k => bind (py_unpack e k data pos) (fun r => Ok (VInt (fst r), snd r))
    | TEnum vals =>
        bind (py_unpack e py_enum_base data pos) (fun r =>
        if existsb (Z.eqb (fst r)) vals then Ok (VInt (fst r), snd r)
        else Err ProphyError)                                  (* "unknown enumerator" *)
    | _ => Err Stuck
    end.

  (* decode_composite / decode_scalar, as selected by codec_kind.classify *)
  Definition py_dec_base (t : ty) (pos : Z) : res (value * Z) :=
    match t with
    | TStruct _ | TUnion _ => decT t pos false
    | _ => py_dec_scalar t pos
    end.

  (* decode_scalar_array / the `for _ in xrange(count)` loops *)
  Definition py_dec_n (t : ty) : nat -> Z -> res (list value * Z) :=
    fix go (n : nat) (pos : Z) : res (list value * Z) :=
      match n with
      | O => Ok ([], 0)
      | S m =>
          bind (py_dec_base t pos) (fun r =>
          bind (go m (pos + snd r)) (fun rs =>
          Ok (fst r :: fst rs, snd r + snd rs)))
      end.

  (* bound_composite_array._decode_impl, greedy branch:
     while (pos + cursor) < len(data): cursor += self.add()._decode_impl(...) *)
  Definition py_dec_greedy (t : ty) (pos : Z) : nat -> Z -> res (list value * Z) :=
    fix go (fuel : nat) (cursor : Z) : res (list value * Z) :=
      if pos + cursor <? len data then
        match fuel with
        | O => Err OutOfFuel
        | S f =>
            bind (decT t (pos + cursor) false) (fun r =>
            bind (go f (cursor + snd r)) (fun rs =>
            Ok (fst r :: fst rs, snd rs)))
        end
      else Ok ([], cursor).

  Definition is_comp (t : ty) : bool :=
    match t with TStruct _ | TUnion _ => true | _ => false end.

  (* decode_fcn of one struct member; [decoded]: values of the members before it (len_hints) *)
  Definition py_dec_field (fuel : nat) (fs : list field) (decoded : list value) (i : nat)
             (f : field) (pos : Z) : res (value * Z) :=
    let t := snd f in
    let hint (s : nat) : res Z :=
      match nth_error decoded s with Some (VInt n) => Ok n | _ => Err Stuck end in
    match fst f with
    | FOpt =>                                                     (* decode_optional *)
        bind (py_unpack e U32 data pos) (fun r =>
        let oa := py_opt_alignment (py_align t) in
        if fst r =? 0 then Ok (VNone, oa + py_sizeof t)
        else bind (py_dec_base t (pos + oa)) (fun x => Ok (VSome (fst x), oa + snd x)))
    | FPlain =>
        if is_sizer fs i then                                     (* decode_array_delimiter *)
          match t with
          | TScalar k =>
              bind (py_unpack e k data pos) (fun r =>
              if py_guard_exceeded (fst r) then Err ProphyError   (* "decoded array length over 65536" *)
              else if py_len_negative (fst r) then Err ProphyError
              else Ok (VInt (fst r), snd r))
          | _ => Err Stuck
          end
        else py_dec_base t pos
    | FFixed n =>
        match t with
        | TByte =>                                                (* bytes_(size=n)._decode *)
            if len data - pos <? n then Err ProphyError
            else Ok (VList (vints (slice data pos n)), n)
        | _ =>                                                    (* fixed_*_array._decode_impl *)
            bind (py_dec_n t (Z.to_nat n) pos) (fun r => Ok (VList (fst r), snd r))
        end
    | FBound s =>
        bind (hint s) (fun h =>
        match t with
        | TByte =>                                                (* bytes_(bound=..)._decode *)
            if len data - pos <? 0 then Err ProphyError
            else if len data - pos <? h then Err ProphyError
            else Ok (VList (vints (slice data pos h)), h)
        | _ =>                                                    (* bound_*_array._decode_impl *)
            if 0 >? len data - pos then Err ProphyError
            else bind (py_dec_n t (Z.to_nat h) pos) (fun r => Ok (VList (fst r), Z.max (snd r) 0))
        end)
    | FLimited n s =>
        bind (hint s) (fun h =>
        match t with
        | TByte =>                                                (* bytes_(size=n, bound=..)._decode *)
            if len data - pos <? n then Err ProphyError
            else if n <? len (slice data pos h) then Err ProphyError        (* _check: "too long" *)
            else Ok (VList (vints (slice data pos h)), n)
        | _ =>
            let sz := py_ftype_size py_sizeof f in
            if sz >? len data - pos then Err ProphyError          (* "too few bytes to decode array" *)
            else if is_comp t && (n <? h) then Err ProphyError    (* add(): "exceeded array limit" *)
            else bind (py_dec_n t (Z.to_nat h) pos) (fun r =>
                 if n <? h then Err ProphyError                   (* __setslice__: "exceeded array limit" *)
                 else Ok (VList (fst r), Z.max (snd r) sz))
        end)
    | FGreedy =>
        match t with
        | TByte =>
            if len data - pos <? 0 then Err ProphyError
            else Ok (VList (vints (skipn (Z.to_nat pos) data)), len data - pos)
        | TStruct _ | TUnion _ =>
            if 0 >? len data - pos then Err ProphyError
            else bind (py_dec_greedy t pos fuel 0) (fun r => Ok (VList (fst r), Z.max (snd r) 0))
        | _ =>
            if 0 >? len data - pos then Err ProphyError
            else
              let items := (len data - pos) / py_sizeof t in
              let remainder := (len data - pos) mod py_sizeof t in
              let count := items + (if remainder =? 0 then 0 else 1) in
              bind (py_dec_n t (Z.to_nat count) pos) (fun r => Ok (VList (fst r), Z.max (snd r) 0))
        end
    end.

  (* struct._decode_impl, the loop over the descriptor *)
  Fixpoint py_dec_fields (fuel : nat) (sa : Z) (all_fs : list field)
           (fs : list field) (ps : list (option Z)) (i : nat) (decoded : list value) (pos : Z)
    : res (list value * Z) :=
    match fs, ps with
    | f :: r, p :: pr =>
        let pos1 := pos + py_dist pos (py_falign py_align f) in
        bind (py_dec_field fuel all_fs decoded i f pos1) (fun x =>
        let pos2 := pos1 + snd x in
        let pos3 := match p with Some a => pos2 + py_dist pos2 a | None => pos2 end in
        py_dec_fields fuel sa all_fs r pr (S i) (decoded ++ [fst x]) pos3)
    | [], _ => Ok (decoded, pos + py_dist pos sa)
    | _, _ => Err Stuck
    end.

  (* union._get_discriminated_field + the arm's decode_fcn *)
  Fixpoint py_dec_arm (arms : list (Z * ty)) (i : nat) (disc : Z) (pos : Z) : res value :=
    match arms with
    | [] => Err ProphyError                                       (* "unknown discriminator" *)
    | a :: r =>
        if fst a =? disc
        then bind (py_dec_base (snd a) pos) (fun x => Ok (VUnion i (fst x)))
        else py_dec_arm r (S i) disc pos
    end.
End PyDec.

(* the counter members are not stored in a message: their observable value is the length of
   the arrays they count (struct_generator.substitute_len_field deletes the attribute) *)
Fixpoint first_bound_len (i : nat) (fs : list field) (vs : list value) : option Z :=
  match fs, vs with
  | f :: r, v :: vr =>
      if bound_to i f then match v with VList xs => Some (len xs) | _ => None end
      else first_bound_len i r vr
  | _, _ => None
  end.

Fixpoint derive_counts (all_fs : list field) (all_vs : list value) (i : nat) (vs : list value) : list value :=
  match vs with
  | [] => []
  | v :: vr =>
      (if is_sizer all_fs i
       then match first_bound_len i all_fs all_vs with Some n => VInt n | None => v end
       else v) :: derive_counts all_fs all_vs (S i) vr
  end.

Fixpoint py_dec (e : endian) (data : bytes) (fuel : nat) (t : ty) (pos : Z) (terminal : bool)
  {struct t} : res (value * Z) :=
  match t with
  | TStruct fs =>
      bind (py_dec_fields e data (py_dec e data fuel) fuel (py_salign py_align fs) fs fs
                          (fst (py_scan fs)) 0 [] pos) (fun r =>
      if terminal && (snd r <? len data) then Err ProphyError     (* "not all bytes of ... read" *)
      else Ok (VStruct (derive_counts fs (fst r) 0 (fst r)), snd r - pos))
  | TUnion arms =>
      bind (py_unpack e U32 data pos) (fun d =>
      bind (py_dec_arm e data (py_dec e data fuel) arms 0 (fst d) (pos + py_align (TUnion arms))) (fun v =>
      let bytes_read := len data - pos in
      if bytes_read <? py_sizeof (TUnion arms) then Err ProphyError          (* "not enough bytes" *)
      else if terminal && (bytes_read >? py_sizeof (TUnion arms)) then Err ProphyError
      else Ok (v, py_sizeof (TUnion arms))))
  | _ => Err Stuck
  end.

(* message.decode(data, endianness) on a fresh message *)
Definition py_decode (e : endian) (t : ty) (data : bytes) : res (value * Z) :=
  py_dec e data (S (length data)) t 0 true.
