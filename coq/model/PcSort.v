(* model/PcSort.v — prophyc/model.py topological_sort (with the cycle diagnostic), following
   the code: a list of nodes mutated in place by pop/insert, the sets `known` and `available`,
   find_first_dep, the `while model_sort_rotate()` loop per index, the set of node identities
   already tried at the current index. Definitions only. *)
From Coq Require Import List Bool Arith.
Import ListNotations.

Record node := mk_node {
  nid : nat;            (* id(node): identity of the Python object *)
  nname : nat;          (* node.name, interned *)
  ndeps : list nat      (* list(node.dependencies()) *)
}.

Definition mem (x : nat) (l : list nat) : bool := existsb (Nat.eqb x) l.

(* find_first_dep(dependency, start_index): first index >= start whose node has that name *)
Fixpoint find_from (d : nat) (l : list node) (i : nat) : option nat :=
  match l with
  | [] => None
  | n :: r => if Nat.eqb (nname n) d then Some i else find_from d r (S i)
  end.
Definition find_first_dep (d : nat) (start : nat) (l : list node) : option nat :=
  find_from d (skipn start l) start.

(* nodes.insert(i, nodes.pop(j)) *)
Definition pop_insert (l : list node) (i j : nat) : list node :=
  match nth_error l j with
  | Some x => let l' := firstn j l ++ skipn (S j) l in firstn i l' ++ x :: skipn i l'
  | None => l
  end.

Inductive rot :=
| Rotated (l : list node)        (* model_sort_rotate returned True *)
| Settled (known : list nat)     (* returned None after known.add(node.name) *)
| BadIndex.

(* model_sort_rotate *)
Definition rotate (l : list node) (index : nat) (known available : list nat) : rot :=
  match nth_error l index with
  | None => BadIndex
  | Some nd =>
      match find (fun d => negb (mem d known) && mem d available) (ndeps nd) with
      | Some d =>
          match find_first_dep d (S index) l with
          | Some (S j) => Rotated (pop_insert l index (S j))      (* `if found_index:` *)
          | _ => Rotated l
          end
      | None => Settled (nname nd :: known)
      end
  end.

Inductive sres :=
| Sorted (l : list node)
| Cycle (name : nat)            (* ModelError("Cyclic dependency of ...") *)
| SortOutOfFuel
| SortBad.

(* the `while model_sort_rotate():` loop at one index; visited: ids tried at this index *)
Fixpoint settle (fuel : nat) (l : list node) (index : nat) (known available visited : list nat)
  : sres * list nat :=
  match fuel with
  | O => (SortOutOfFuel, known)
  | S f =>
      match rotate l index known available with
      | BadIndex => (SortBad, known)
      | Settled known' => (Sorted l, known')
      | Rotated l' =>
          match nth_error l' index with
          | None => (SortBad, known)
          | Some nd =>
              if mem (nid nd) visited then (Cycle (nname nd), known)
              else settle f l' index known available (nid nd :: visited)
          end
      end
  end.

(* for index in range(len(nodes)) *)
Fixpoint sort_from (count : nat) (l : list node) (index : nat) (known available : list nat) : sres :=
  match count with
  | O => Sorted l
  | S c =>
      match nth_error l index with
      | None => SortBad
      | Some nd0 =>
          match settle (S (length l)) l index known available [nid nd0] with
          | (Sorted l', known') => sort_from c l' (S index) known' available
          | (r, _) => r
          end
      end
  end.

Definition topological_sort (builtins : list nat) (l : list node) : sres :=
  sort_from (length l) l 0 builtins (map nname l).
