(* model/PyEncode.v — what prophy's Python runtime does on encode, following the control flow
   of composite.py (struct.encode, union.encode), descriptor.py (encode_* dispatch by codec
   kind), container.py (_encode_impl of the four array classes), composite.bytes_ and scalar.py.
   Relative offsets: padding is computed from len(data) accumulated so far. Definitions only. *)
From Coq Require Import ZArith List Bool.
From Prophy Require Import Bytes Schema Src PyStatics.
Import ListNotations.
Local Open Scope Z_scope.

Inductive exn :=
| ProphyError       (* prophy.ProphyError *)
| StructError       (* struct.error out of struct.pack *)
| Stuck             (* model only: a value tree no Python object can have *)
| OutOfFuel.        (* model only: a loop of the code ran longer than the fuel given *)

Inductive res (A : Type) := Ok (a : A) | Err (e : exn).
Arguments Ok {A} a.
Arguments Err {A} e.

Definition bind {A B} (r : res A) (f : A -> res B) : res B :=
  match r with Ok a => f a | Err e => Err e end.

(* scalar.py numeric_decorator.encode: struct.pack(endianness + id_, value).
   Floats are carried as their bit pattern, packed as an unsigned integer of the same width. *)
Definition py_pack (e : endian) (k : sk) (z : Z) : res bytes :=
  let w := py_fmt_size k in
  let ok := if py_fmt_signed k
            then (- 2 ^ (8 * w - 1) <=? z) && (z <? 2 ^ (8 * w - 1))
            else (0 <=? z) && (z <? 2 ^ (8 * w)) in
  if ok then Ok (enc_int e w z) else Err StructError.

(* the bytes object held by a bytes field *)
Fixpoint py_bytes_of (xs : list value) : res bytes :=
  match xs with
  | [] => Ok []
  | VInt z :: r => if is_byte z then bind (py_bytes_of r) (fun b => Ok (z :: b)) else Err Stuck
  | _ => Err Stuck
  end.

(* container_len.evaluate_size: the set of lengths of all arrays bound to counter i *)
Fixpoint py_bound_lens (i : nat) (fs : list field) (vs : list value) : list Z :=
  match fs, vs with
  | f :: r, v :: vr =>
      (if bound_to i f then match v with VList xs => [len xs] | _ => [-1] end else [])
      ++ py_bound_lens i r vr
  | _, _ => []
  end.

Definition py_evaluate_size (i : nat) (fs : list field) (vs : list value) : res Z :=
  match py_bound_lens i fs vs with
  | [] => Err Stuck
  | n :: r => if forallb (Z.eqb n) r then Ok n else Err ProphyError   (* "Size mismatch of arrays" *)
  end.

Section PyEnc.
  Variable e : endian.
  Variable encT : ty -> value -> res bytes.

  (* b"".join(elem encode for elem in self) *)
  Definition py_join (t : ty) : list value -> res bytes :=
    fix go (xs : list value) : res bytes :=
      match xs with
      | [] => Ok []
      | x :: xr => bind (encT t x) (fun b => bind (go xr) (fun r => Ok (b ++ r)))
      end.

  (* descriptor.py: encode_fcn selected by codec_kind.classify(field.type) *)
  Definition py_enc_field (fs : list field) (vs : list value) (i : nat) (f : field) (v : value)
    : res bytes :=
    match fst f with
    | FOpt =>                                                         (* encode_optional *)
        match v with
        | VNone => Ok (zeros (py_fsize py_sizeof f))
        | VSome x =>
            bind (py_pack e U32 1) (fun flag =>
            bind (encT (snd f) x) (fun b =>
            Ok (ljust flag (py_opt_alignment (py_align (snd f))) ++ b)))
        | _ => Err Stuck
        end
    | FPlain =>
        if is_sizer fs i
        then match snd f with                                         (* encode_array_delimiter *)
             | TScalar k => bind (py_evaluate_size i fs vs) (fun n => py_pack e k n)
             | _ => Err Stuck
             end
        else encT (snd f) v                                           (* encode_composite / encode_scalar *)
    | FFixed n =>
        match v with
        | VList xs =>
            match snd f with
            | TByte => bind (py_bytes_of xs) (fun b => Ok (ljust b n))      (* encode_bytes *)
            | _ => py_join (snd f) xs                                  (* fixed_*_array._encode_impl *)
            end
        | _ => Err Stuck
        end
    | FBound _ | FLimited _ _ | FGreedy =>
        match v with
        | VList xs =>
            match snd f with
            | TByte => bind (py_bytes_of xs) (fun b => Ok (ljust b (py_ftype_size py_sizeof f)))
            | _ => bind (py_join (snd f) xs)                           (* bound_*_array._encode_impl *)
                        (fun b => Ok (ljust b (py_ftype_size py_sizeof f)))
            end
        | _ => Err Stuck
        end
    end.

  (* struct.encode *)
  Fixpoint py_enc_fields (sa : Z) (all_fs : list field) (all_vs : list value)
           (fs : list field) (ps : list (option Z)) (i : nat) (vs : list value) (data : bytes)
    : res bytes :=
    match fs, ps, vs with
    | f :: r, p :: pr, v :: vr =>
        let d1 := data ++ zeros (py_dist (len data) (py_falign py_align f)) in
        bind (py_enc_field all_fs all_vs i f v) (fun b =>
        let d2 := d1 ++ b in
        let d3 := match p with Some a => d2 ++ zeros (py_dist (len d2) a) | None => d2 end in
        py_enc_fields sa all_fs all_vs r pr (S i) vr d3)
    | [], _, _ => Ok (data ++ zeros (py_dist (len data) sa))
    | _, _, _ => Err Stuck
    end.

  (* union.encode, for the discriminated arm *)
  Fixpoint py_enc_arm (ua usz : Z) (arms : list (Z * ty)) (i : nat) (x : value) : res bytes :=
    match arms, i with
    | a :: _, O =>
        bind (py_pack e U32 (fst a)) (fun d =>
        bind (encT (snd a) x) (fun body =>
        Ok (ljust (ljust d ua ++ body) usz)))
    | _ :: r, S j => py_enc_arm ua usz r j x
    | _, _ => Err Stuck
    end.
End PyEnc.

Fixpoint py_enc (e : endian) (t : ty) (v : value) {struct t} : res bytes :=
  match t, v with
  | TScalar k, VInt z => py_pack e k z
  | TEnum _, VInt z => py_pack e py_enum_base z
  | TStruct fs, VStruct vs =>
      py_enc_fields e (py_enc e) (py_salign py_align fs) fs vs fs (fst (py_scan fs)) 0 vs []
  | TUnion arms, VUnion i x =>
      py_enc_arm e (py_enc e) (py_align (TUnion arms)) (py_sizeof (TUnion arms)) arms i x
  | _, _ => Err Stuck
  end.

(* flattening for the harness: [0; bytes...] on success, [1 + exception number] otherwise *)
Definition exn_code (x : exn) : Z :=
  match x with ProphyError => 1 | StructError => 2 | Stuck => 3 | OutOfFuel => 4 end.

Definition res_bytes_flat (r : res bytes) : list Z :=
  match r with Ok b => 0 :: b | Err x => [exn_code x] end.
