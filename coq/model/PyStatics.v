(* model/PyStatics.v — the class attributes the Python runtime computes when a generated
   module is imported (prophy/scalar.py numeric_decorator, optional.py, container.py array()
   and bytes_(), generators.py struct_generator/union_generator.add_attributes), written as the
   code computes them, over the arithmetic kernels translated from the source (gen/Src.v).
   Definitions only. *)
From Coq Require Import ZArith List Bool.
From Prophy Require Import Bytes Schema Src.
Import ListNotations.
Local Open Scope Z_scope.

(* ---- _ALIGNMENT of the class a schema type denotes ---- *)
Section PyAl.
  Variable alT : ty -> Z.
  (* attributes of the type object of a struct field *)
  Definition py_ftype_alignment (f : field) : Z :=
    match fst f with
    | FPlain | FOpt => alT (snd f)                        (* _optional(cls) inherits _ALIGNMENT *)
    | FFixed _ | FBound _ | FLimited _ _ | FGreedy =>
        match snd f with
        | TByte => 1                                       (* bytes_(): _ALIGNMENT = 1 *)
        | _ => py_array_alignment (alT (snd f))
        end
    end.
  Definition py_falign (f : field) : Z :=                 (* composite.field_alignment *)
    py_field_alignment (match fst f with FOpt => true | _ => false end)
                       (py_opt_alignment (alT (snd f))) (py_ftype_alignment f).
  (* max(... for t in cls._types()), 1 when there are no fields *)
  Definition py_salign (fs : list field) : Z :=
    match fs with
    | [] => 1
    | f :: r => fold_left (fun acc g => Z.max acc (py_falign g)) r (py_falign f)
    end.
  Definition py_max_arm_align (arms : list (Z * ty)) : Z :=
    match arms with
    | [] => 0
    | a :: r => fold_left (fun acc b => Z.max acc (alT (snd b))) r (alT (snd a))
    end.
End PyAl.

Fixpoint py_align (t : ty) : Z :=
  match t with
  | TScalar k => py_num_alignment (py_size k)
  | TByte => 1
  | TEnum _ => py_num_alignment (py_size py_enum_base)
  | TStruct fs => py_salign py_align fs
  | TUnion arms => py_union_alignment (py_max_arm_align py_align arms)
  end.

(* ---- _DYNAMIC / _UNLIMITED ---- *)
Section PyDyn.
  Variable dynT : ty -> bool.
  Variable unlT : ty -> bool.
  Definition py_fdynamic (f : field) : bool :=
    match fst f with
    | FPlain => dynT (snd f)
    | FOpt => false
    | FFixed _ | FLimited _ _ => false       (* not size *)
    | FBound _ | FGreedy => true
    end.
  Definition py_funlimited (f : field) : bool :=
    match fst f with
    | FPlain => unlT (snd f)
    | FGreedy => true                         (* not size and not bound *)
    | _ => false
    end.
End PyDyn.

Fixpoint py_dynamic (t : ty) : bool :=
  match t with
  | TStruct fs => existsb (py_fdynamic py_dynamic) fs
  | _ => false
  end.

Fixpoint py_unlimited (t : ty) : bool :=
  match t with
  | TStruct fs => existsb (py_funlimited py_unlimited) fs
  | _ => false
  end.

(* ---- _SIZE ---- *)
(* struct_generator.add_attributes.get_padded_sizes: after each field, pad to the alignment
   of the next one (to the struct's after the last); _SIZE is the running offset *)
Fixpoint py_padded (sizes aligns : list Z) (offset : Z) : Z :=
  match sizes, aligns with
  | s :: sr, a :: ar => let o := offset + s in py_padded sr ar (o + py_dist o a)
  | _, _ => offset
  end.

Section PySz.
  Variable szT : ty -> Z.
  Definition py_ftype_size (f : field) : Z :=
    match fst f with
    | FPlain | FOpt => szT (snd f)
    | FFixed n | FLimited n _ =>
        match snd f with
        | TByte => n                                     (* bytes_(): _SIZE = size *)
        | _ => py_array_size n (szT (snd f))
        end
    | FBound _ | FGreedy =>
        match snd f with
        | TByte => 0
        | _ => py_array_size 0 (szT (snd f))
        end
    end.
  Definition py_fsize (f : field) : Z :=                 (* _OPTIONAL_SIZE if _OPTIONAL else _SIZE *)
    match fst f with
    | FOpt => py_opt_size (py_opt_alignment (py_align (snd f))) (szT (snd f))
    | _ => py_ftype_size f
    end.
  Definition py_struct_size (fs : list field) : Z :=
    match fs with
    | [] => 0
    | _ => py_padded (map py_fsize fs)
                     (map (py_falign py_align) (tl fs) ++ [py_salign py_align fs]) 0
    end.
  Definition py_max_arm_size (arms : list (Z * ty)) : Z :=
    match arms with
    | [] => 0
    | a :: r => fold_left (fun acc b => Z.max acc (szT (snd b))) r (szT (snd a))
    end.
End PySz.

Fixpoint py_sizeof (t : ty) : Z :=
  match t with
  | TScalar k => py_num_size (py_size k)
  | TByte => 1
  | TEnum _ => py_num_size (py_size py_enum_base)
  | TStruct fs => py_struct_size py_sizeof fs
  | TUnion arms =>
      py_union_size (py_union_alignment (py_max_arm_align py_align arms)) (py_max_arm_size py_sizeof arms)
  end.

(* ---- per-field block ("partial") alignment: the reversed scan of add_attributes ---- *)
Fixpoint py_scan (fs : list field) : list (option Z) * Z :=
  match fs with
  | [] => ([], 1)
  | f :: r =>
      let '(ps, a) := py_scan r in
      if py_fdynamic py_dynamic f
      then (Some a :: ps, Z.max (py_falign py_align f) 1)
      else (None :: ps, Z.max (py_falign py_align f) a)
  end.
