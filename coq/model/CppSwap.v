(* model/CppSwap.v — what the generated raw C++ `prophy::swap<T>` does to a buffer, following
   prophyc/generators/cpp.py (_CppSwapTranslator: gen_member / gen_last_member / gen_main / gen_part,
   UNION_SWAP_TEMPLATE, ENUM_SWAP_TEMPLATE) and prophy_cpp/include/prophy/prophy.hpp (swap of uintN_t,
   cast<To>() = align_ptr) / detail/prophy.hpp (swap_n_fixed, swap_n_dynamic) statement by statement.
   The buffer is a byte list, pointers are offsets from the start of the message, which is assumed to be
   8-aligned in memory (so aligning an offset is aligning the address). `&payload->x` is the part's
   base plus the member's offset in the raw struct (PcModel.pc_raw_layout, proved equal to the spec's
   member offsets in C08), `payload + 1` adds sizeof of the part, `cast<T*>` rounds up to alignof(T).
   An access outside the buffer is [None] (the real code has no bounds and would read or write there).
   One simplification: `payload->n` of an array's counter is recorded when the counter itself is swapped
   (the generated code re-reads it when it reaches the array; nothing writes to it in between because the
   walk only moves forward). Definitions only. *)
From Coq Require Import ZArith List Bool.
From Prophy Require Import Bytes Schema Layout Wire Src PcModel CppFull.
Import ListNotations.
Local Open Scope Z_scope.

(* swap of a uintN_t: reverse N bytes in place; swap of a uint8_t does nothing and touches nothing *)
Definition sw_rev (data : bytes) (pos w : Z) : option bytes :=
  if w <=? 1 then Some data
  else if (0 <=? pos) && (pos + w <=? len data)
  then Some (firstn (Z.to_nat pos) data ++ rev (slice data pos w) ++ skipn (Z.to_nat (pos + w)) data)
  else None.

Section Sw.
  Variable e : endian.                                      (* the host's byte order *)
  Variable swV : ty -> bytes -> Z -> option (bytes * Z).    (* swap<T> of a generated struct or union: buffer, returned pointer *)

  (* a native read of a w-byte unsigned field *)
  Definition sw_read (data : bytes) (pos w : Z) : option Z :=
    if (0 <=? pos) && (pos + w <=? len data) then Some (dec_uint e (slice data pos w)) else None.

  (* swap of one object; for builtins the "returned pointer" is the next object of that type *)
  Definition sw_obj (t : ty) (data : bytes) (pos : Z) : option (bytes * Z) :=
    match t with
    | TScalar k => match sw_rev data pos (pc_builtin_size k) with Some d => Some (d, pos + pc_builtin_size k) | None => None end
    | TByte => Some (data, pos + pc_byte_size)
    | TEnum _ => match sw_rev data pos pc_enum_size with Some d => Some (d, pos + pc_enum_size) | None => None end
    | TStruct _ | TUnion _ => swV t data pos
    end.

  (* swap_n_fixed: `swap(first); ++first;`     swap_n_dynamic: `first = swap(first);` *)
  Definition sw_loop (dyn : bool) (t : ty) : nat -> bytes -> Z -> option (bytes * Z) :=
    fix go (n : nat) (data : bytes) (pos : Z) : option (bytes * Z) :=
      match n with
      | O => Some (data, pos)
      | S m =>
          match sw_obj t data pos with
          | Some (d, r) => go m d (if dyn then r else pos + cpp_elem_size t)
          | None => None
          end
      end.

  (* elements that swap does not touch: swap of a uint8_t / int8_t is empty, the loop only advances *)
  Definition sw_untouched (t : ty) : bool :=
    match t with TByte => true | TScalar k => pc_builtin_size k =? 1 | _ => false end.

  (* for the other element types a count above the buffer's length cannot be the count of an array inside
     it (every element is at least one byte that swap reads): outside the model *)
  Definition sw_n (dyn : bool) (t : ty) (n : Z) (data : bytes) (pos : Z) : option (bytes * Z) :=
    if sw_untouched t then Some (data, pos + n)
    else if (n <? 0) || (len data <? n) then None else sw_loop dyn t (Z.to_nat n) data pos.

  (* gen_member at address a (an optional's value at [aopt]): buffer, returned pointer, and the value
     `payload-><member>` holds afterwards if it is a builtin integer (what a later `payload->n` reads) *)
  Definition sw_member (seen : list Z) (f : field) (m : pcm) (data : bytes) (a aopt : Z) : option (bytes * Z * Z) :=
    let t := snd f in
    let dyn := pm_kind m =? K_DYNAMIC in
    let arr (n : Z) := match sw_n dyn t n data a with Some (d, r) => Some (d, r, 0) | None => None end in
    match fst f with
    | FPlain =>
        match sw_obj t data a with
        | Some (d, r) =>
            match t with
            | TScalar k =>
                match sw_read d a (pc_builtin_size k) with
                | Some u => Some (d, r, size_t (cpp_reinterpret k u))
                | None => None
                end
            | _ => Some (d, r, 0)
            end
        | None => None
        end
    | FOpt =>
        match sw_rev data a 4 with                               (* swap(&payload->has_x) *)
        | Some d =>
            match sw_read d a 4 with
            | Some flag =>
                if flag =? 0 then Some (d, a + pm_size m, 0)
                else match sw_obj t d aopt with Some (d2, _) => Some (d2, a + pm_size m, 0) | None => None end
            | None => None
            end
        | None => None
        end
    | FFixed n => arr n
    | FBound s => arr (nth s seen 0)
    | FLimited _ s => arr (nth s seen 0)
    | FGreedy => Some (data, a, 0)
    end.

  (* the members of one struct, part after part. [acur]: alignof of the current part struct (of the
     struct itself for the first part), [base]: `payload` of the current part, [offs]: the raw offsets,
     [sizeofX]: sizeof of the whole raw struct, [plast]: the padding prophyc gave the last member (a
     manual padding member of the last part when positive) *)
  Fixpoint sw_fields (astruct sizeofX plast : Z) (fs : list field) (ms : list pcm) (offs : list (Z * Z * Z))
           (seen : list Z) (later : bool) (acur base : Z) (data : bytes) : option (bytes * Z) :=
    match fs, ms, offs with
    | f :: fr, m :: mr, (_, off, optoff) :: ofr =>
        let a := base + off in
        let top (r : Z) := if later then cpp_align astruct r else r in      (* return cast of X ptr (swap(partN)) *)
        match fr with
        | [] =>
            (* gen_last_member *)
            if pm_greedy m || (pm_kind m =? K_UNLIMITED)
            then Some (data, top (cpp_align acur a))                        (* return cast to name ptr (&payload->x) *)
            else
              match sw_member seen f m data a (base + optoff) with
              | Some (d, r, _) =>
                  if pm_part_ends m
                  then Some (d, top (cpp_align acur r))                     (* return cast to name ptr (swap...(...)) *)
                  else if later
                  then Some (d, top (base + cpp_nearest acur (off + pm_size m + Z.max 0 plast)))   (* return payload + 1: sizeof(X::partN) *)
                  else Some (d, base + sizeofX)                                                    (* return payload + 1: sizeof(X) *)
              | None => None
              end
        | _ =>
            match sw_member seen f m data a (base + optoff) with
            | Some (d, r, rec) =>
                if pm_part_ends m
                then
                  let r' := if later then cpp_align acur r else r in        (* what swap(partN) returns / gen_member(main[-1]) *)
                  let anext := pc_part_max mr in                            (* PROPHY_STRUCT(part[0].alignment) *)
                  sw_fields astruct sizeofX plast fr mr ofr (seen ++ [rec]) true anext (cpp_align anext r') d
                else sw_fields astruct sizeofX plast fr mr ofr (seen ++ [rec]) later acur base d
            | None => None
            end
        end
    | _, _, _ => None
    end.

  Fixpoint sw_arm (arms : list (Z * ty)) (disc : Z) (data : bytes) (pos : Z) : option bytes :=
    match arms with
    | [] => Some data                                                       (* default: break *)
    | a :: r =>
        if fst a =? disc
        then match sw_obj (snd a) data pos with Some (d, _) => Some d | None => None end
        else sw_arm r disc data pos
    end.
End Sw.

Fixpoint cpp_swap (e : endian) (t : ty) (data : bytes) (pos : Z) {struct t} : option (bytes * Z) :=
  match t with
  | TStruct fs =>
      sw_fields e (cpp_swap e) (pc_align t) (pc_size t) (last (pc_paddings fs) 0) fs (map (pc_member pc_size pc_align pc_kind) fs)
                (pc_raw_layout fs) [] false (pc_align t) pos data
  | TUnion arms =>
      let discpad := if pc_disc_size <? pc_align t then pc_align t - pc_disc_size else 0 in
      match sw_rev data pos pc_disc_size with
      | Some d =>
          match sw_read e d pos pc_disc_size with
          | Some disc =>
              match sw_arm (cpp_swap e) arms disc d (pos + pc_disc_size + discpad) with
              | Some d2 => Some (d2, pos + pc_size t)                       (* return payload + 1 *)
              | None => None
              end
          | None => None
          end
      | None => None
      end
  | _ => None
  end.

(* ---- the schemas outside the known finding KF-C: no block (part) after the first that ends with a
   dynamic member has a greater alignment than the block that follows it — in the struct itself and in
   every type it is built from (tools/findings_predicates.py swap_part_over_aligned is the same test) ---- *)
Fixpoint kfc_fields (fs : list field) (later : bool) (acur : Z) : bool :=
  match fs with
  | [] => true
  | f :: r =>
      match r with
      | [] => true
      | _ => if ends_block f
             then (negb later || (acur <=? blockal r)) && kfc_fields r true (blockal r)
             else kfc_fields r later acur
      end
  end.

Fixpoint kfc_free (t : ty) : bool :=
  match t with
  | TStruct fs => kfc_fields fs false 1 && forallb (fun f => kfc_free (snd f)) fs
  | TUnion arms => forallb (fun a => kfc_free (snd a)) arms
  | _ => true
  end.
