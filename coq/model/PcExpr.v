(* model/PcExpr.v — constant expressions of the prophy language: tokens, the
   operator-precedence parse that a yacc grammar `expr : expr OP expr | '-' expr | '(' expr ')' |
   number | name` performs under a precedence table (prophyc/parsers/prophy.py `precedence`,
   prophyc/calc.py `precedence`, both translated into gen/Src.v), and integer evaluation as
   p_expression_binop does it (+ - * // << >>, unary minus). Definitions only. *)
From Coq Require Import ZArith List Bool.
Import ListNotations.
Local Open Scope Z_scope.

(* operator codes as in gen/Src.v: + 1, - 2, * 3, / 4, << 5, >> 6, unary minus 7, | 8 *)
Inductive tok := TNum (z : Z) | TName (n : nat) | TOp (o : Z) | TLP | TRP.

Inductive expr :=
| ENum (z : Z)
| EVar (n : nat)
| ENeg (e : expr)
| EBin (o : Z) (a b : expr).

Definition table := list (Z * (Z * Z)).        (* op -> (level, assoc 0=left 1=right) *)

Fixpoint lookup (t : table) (o : Z) : option (Z * Z) :=
  match t with
  | [] => None
  | (k, v) :: r => if k =? o then Some v else lookup r o
  end.

(* the operator loop of precedence climbing: while the next token is a binary operator whose
   level is at least minp, parse its right operand and fold *)
Section Loop.
  Variable t : table.
  Variable rec : Z -> list tok -> option (expr * list tok).
  Variable minp : Z.
  Fixpoint ploop (g : nat) (lhs : expr) (rest : list tok) : option (expr * list tok) :=
    match g with
    | O => None
    | S g' =>
        match rest with
        | TOp o :: r =>
            match lookup t o with
            | Some (p, assoc) =>
                if p <? minp then Some (lhs, rest)
                else
                  match rec (if assoc =? 0 then p + 1 else p) r with
                  | Some (rhs, r') => ploop g' (EBin o lhs rhs) r'
                  | None => None
                  end
            | None => None              (* an operator without precedence: not modelled *)
            end
        | _ => Some (lhs, rest)
        end
    end.
End Loop.

(* precedence climbing; [fuel] bounds the recursion depth (a token list of length n needs <= n+1) *)
Fixpoint parse_expr (t : table) (fuel : nat) (minp : Z) (ts : list tok) : option (expr * list tok) :=
  match fuel with
  | O => None
  | S f =>
      let atom : option (expr * list tok) :=
        match ts with
        | TNum z :: r => Some (ENum z, r)
        | TName n :: r => Some (EVar n, r)
        | TLP :: r =>
            match parse_expr t f 0 r with
            | Some (e, TRP :: r') => Some (e, r')
            | _ => None
            end
        | TOp 2 :: r =>                         (* '-' expression %prec UMINUS *)
            match lookup t 7 with
            | Some (p, _) =>
                match parse_expr t f p r with
                | Some (e, r') => Some (ENeg e, r')
                | None => None
                end
            | None => None
            end
        | _ => None
        end in
      match atom with
      | None => None
      | Some (lhs, rest) => ploop t (parse_expr t f) minp (S (length rest)) lhs rest
      end
  end.

Definition parse (t : table) (ts : list tok) : option expr :=
  match parse_expr t (S (length ts)) 0 ts with
  | Some (e, []) => Some e
  | _ => None
  end.

(* p_expression_binop / p_expression_uminus with Python integers; a name is looked up in the
   constants defined so far *)
Fixpoint eval (env : nat -> option Z) (e : expr) : option Z :=
  match e with
  | ENum z => Some z
  | EVar n => env n
  | ENeg a => match eval env a with Some x => Some (- x) | None => None end
  | EBin o a b =>
      match eval env a, eval env b with
      | Some x, Some y =>
          if o =? 1 then Some (x + y)
          else if o =? 2 then Some (x - y)
          else if o =? 3 then Some (x * y)
          else if o =? 4 then (if y =? 0 then None else Some (x / y))      (* floor division *)
          else if o =? 5 then (if y <? 0 then None else Some (Z.shiftl x y))
          else if o =? 6 then (if y <? 0 then None else Some (Z.shiftr x y))
          else if o =? 8 then Some (Z.lor x y)
          else None
      | _, _ => None
      end
  end.

Definition eval_tokens (t : table) (env : nat -> option Z) (ts : list tok) : option Z :=
  match parse t ts with Some e => eval env e | None => None end.
