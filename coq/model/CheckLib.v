(* model/CheckLib.v — helpers evaluated by the generated case files of the correspondence
   harness. Every checker returns plain nested lists of numbers so the harness can parse it. *)
From Coq Require Import ZArith List Bool.
From Prophy Require Import Bytes Schema Layout Wire.
Import ListNotations.
Local Open Scope Z_scope.

Fixpoint beq (a b : bytes) : bool :=
  match a, b with
  | [], [] => true
  | x :: a', y :: b' => (x =? y) && beq a' b'
  | _, _ => false
  end.

Definition b2z (b : bool) : Z := if b then 1 else 0.

(* spec oracle for one encode case: [] when the observed bytes are the canonical ones for
   both byte orders and the case is legal and well-typed; otherwise
   [legal; wt; le_ok; be_ok] followed by the canonical little-endian bytes *)
Definition spec_encode_case (t : ty) (v : value) (obs_le obs_be : bytes) : list Z :=
  let l := legal t in let w := wt t v in
  let a := beq (wire LE t v) obs_le in let b := beq (wire BE t v) obs_be in
  if l && w && a && b then [] else [b2z l; b2z w; b2z a; b2z b] ++ wire LE t v.

From Prophy Require Import Src PyStatics PyEncode.

(* model correspondence for one encode case: observed = [0; bytes] or [exception code] *)
Definition model_encode_case (t : ty) (v : value) (obs_le obs_be : list Z) : list Z :=
  let a := res_bytes_flat (py_enc LE t v) in
  let b := res_bytes_flat (py_enc BE t v) in
  if beq a obs_le && beq b obs_be then [] else 99 :: a.

(* statics of a struct/union class: [size; align; dynamic; unlimited] *)
Definition model_statics (t : ty) : list Z :=
  [py_sizeof t; py_align t; b2z (py_dynamic t); b2z (py_unlimited t)].

Definition spec_statics (t : ty) : list Z :=
  [size t; align t; b2z (negb (is_fixed t)); b2z (stiff_eqb (stiffness t) Unlimited)].

From Prophy Require Import PyDecode.

Section VEq.
  Variable veq : value -> value -> bool.
  Fixpoint vlist_eqb (a b : list value) : bool :=
    match a, b with
    | [], [] => true
    | x :: a', y :: b' => veq x y && vlist_eqb a' b'
    | _, _ => false
    end.
End VEq.

Fixpoint value_eqb (a b : value) {struct a} : bool :=
  match a, b with
  | VInt x, VInt y => x =? y
  | VNone, VNone => true
  | VSome x, VSome y => value_eqb x y
  | VList xs, VList ys => vlist_eqb value_eqb xs ys
  | VStruct xs, VStruct ys => vlist_eqb value_eqb xs ys
  | VUnion i x, VUnion j y => Nat.eqb i j && value_eqb x y
  | _, _ => false
  end.

(* Floats are compared by bit pattern, modulo the one thing the interpreter does to a pattern on its way
   through a Python float: unpacking a binary32 signalling NaN into a double (and packing it back) sets the
   quiet bit. [canon_val] sets that bit in every r32 NaN of a value before two values are compared; everything
   else is compared exactly. *)
Definition quiet32 (u : Z) : Z :=
  if ((u / 2 ^ 23) mod 256 =? 255) && negb (u mod 2 ^ 23 =? 0) && ((u / 2 ^ 22) mod 2 =? 0) then u + 2 ^ 22 else u.

Section Canon.
  Variable cT : ty -> value -> value.
  Definition canon_field (f : field) (v : value) : value :=
    match fst f, v with
    | FPlain, _ => cT (snd f) v
    | FOpt, VSome x => VSome (cT (snd f) x)
    | _, VList xs => VList (map (cT (snd f)) xs)
    | _, _ => v
    end.
  Fixpoint canon_fields (fs : list field) (vs : list value) : list value :=
    match fs, vs with
    | f :: r, v :: vr => canon_field f v :: canon_fields r vr
    | _, _ => vs
    end.
  Fixpoint canon_arm (arms : list (Z * ty)) (i : nat) (x : value) : value :=
    match arms, i with
    | a :: _, O => cT (snd a) x
    | _ :: r, S j => canon_arm r j x
    | _, _ => x
    end.
End Canon.

Fixpoint canon_val (t : ty) (v : value) {struct t} : value :=
  match t, v with
  | TScalar R32, VInt u => VInt (quiet32 u)
  | TStruct fs, VStruct vs => VStruct (canon_fields canon_val fs vs)
  | TUnion arms, VUnion i x => VUnion i (canon_arm canon_val arms i x)
  | _, _ => v
  end.

(* outcome of a model decode, flattened: [0; consumed] / [exception code] *)
Definition dec_flat (r : res (value * Z)) : list Z :=
  match r with Ok (_, n) => [0; n] | Err x => [exn_code x] end.

(* one decode case. obs = [0; consumed] or [exception code]; obs_v = the value the
   implementation decoded (ignored on error).
   result: [] when model and implementation agree on outcome, consumed length and value *)
Definition model_decode_case (e : endian) (t : ty) (data : bytes) (obs : list Z) (obs_v : value) : list Z :=
  let r := py_decode e t data in
  let same_value := match r with Ok (v, _) => value_eqb (canon_val t v) (canon_val t obs_v) | Err _ => true end in
  if beq (dec_flat r) obs && same_value then [] else 98 :: dec_flat r.

(* property oracle for round trips (C02): decoding the canonical bytes of a legal, well-typed
   value whose greedy tail ends aligned must consume everything and give the value back.
   expects obs = [0; consumed] and the decoded value; result [] when the property holds *)
Definition spec_roundtrip_case (e : endian) (t : ty) (v : value) (obs : list Z) (obs_v : value)
           (reenc : bytes) : list Z :=
  let w := wire e t v in
  if beq obs [0; len w] && value_eqb obs_v v && beq reenc w then []
  else [97; b2z (beq obs [0; len w]); b2z (value_eqb obs_v v); b2z (beq reenc w)].

(* C19 oracle on two observed encodings, using only the segment map of the specification:
   same length, scalars byte-reversed in place, padding zero in both *)
Fixpoint all_zero (b : bytes) : bool :=
  match b with [] => true | x :: r => (x =? 0) && all_zero r end.

Fixpoint mirror_ok (l : list seg) (a b : bytes) : bool :=
  match l with
  | [] => match a, b with [], [] => true | _, _ => false end
  | SInt w _ :: r =>
      let n := Z.to_nat w in
      (len (firstn n a) =? w) && beq (firstn n b) (rev (firstn n a)) && mirror_ok r (skipn n a) (skipn n b)
  | SPad p :: r =>
      let n := Z.to_nat p in
      (len (firstn n a) =? p) && (len (firstn n b) =? p) &&
      all_zero (firstn n a) && all_zero (firstn n b) && mirror_ok r (skipn n a) (skipn n b)
  end.

(* The positions of the scalars are those of the canonical layout only when the little-endian
   bytes ARE canonical (whether they are is C01's question, not C19's): then the full mirror
   check applies; otherwise only the layout-independent part (equal lengths) is decided here. *)
Definition spec_mirror_case (t : ty) (v : value) (obs_le obs_be : bytes) : list Z :=
  if negb (len obs_le =? len obs_be) then [95; len obs_le; len obs_be]
  else if beq obs_le (wire LE t v) then
         (if mirror_ok (layout t v 0) obs_le obs_be then [] else [95; len obs_le; len obs_be])
       else [].

(* C04, Python side: observed [size; align; dynamic; unlimited] of a generated class *)
Definition statics_case (t : ty) (obs : list Z) : list Z :=
  let m := model_statics t in
  let s := spec_statics t in
  let model_ok := beq m obs in
  (* the documented rules fix size only for fixed types *)
  let spec_ok := match obs, s with
                 | [osz; oal; ody; oun], [ssz; sal; sdy; sun] =>
                     (oal =? sal) && (ody =? sdy) && (oun =? sun) && (if sdy =? 0 then osz =? ssz else true)
                 | _, _ => false
                 end in
  if model_ok && spec_ok then [] else [94; b2z model_ok; b2z spec_ok] ++ m ++ s.

(* C02 case: the implementation decoded [data] (its own encoding of v); obs as in
   model_decode_case, reenc = bytes of re-encoding the decoded message *)
Definition roundtrip_case (e : endian) (t : ty) (v : value) (data : bytes) (obs : list Z) (obs_v : value)
           (reenc : bytes) : list Z :=
  model_decode_case e t data obs obs_v ++
  (if legal t && wt t v && greedy_tail_aligned t v && beq data (wire e t v)
   then spec_roundtrip_case e t v obs obs_v reenc else []).

(* C06 fixpoint oracle: the bytes are always a fixpoint; the value too, unless the decoded
   message has a greedy tail that does not end aligned (the exception documented in C02) *)
Definition fixpoint_case (t : ty) (obs_v : value) (same_value same_bytes consumed_all : bool) : list Z :=
  if same_bytes && consumed_all && (same_value || negb (greedy_tail_aligned t obs_v)) then []
  else [92; b2z same_value; b2z same_bytes; b2z consumed_all].

(* decoding the re-encoding raised ProphyError: outside the claim exactly when the decoded message has a
   greedy tail that does not end aligned (the padding that follows it is read as further elements) *)
Definition fixpoint_exc_case (t : ty) (obs_v : value) : list Z :=
  if negb (greedy_tail_aligned t obs_v) then [] else [9100000091].

From Prophy Require Import PcModel.


(* C04, prophyc side. obs = [byte_size; alignment; kind] and the per-member lists
   (byte_size, alignment, padding) of a struct node; for unions only obs. *)
Definition pc_case (t : ty) (obs : list Z) (obs_sizes obs_aligns obs_pads : list Z) : list Z :=
  let m := [pc_size t; pc_align t; pc_kind t] in
  let s := [size t; align t; stiff_code (stiffness t)] in
  let members_ok :=
    match t with
    | TStruct fs =>
        beq (map pm_size (pc_members fs)) obs_sizes && beq (map pm_align (pc_members fs)) obs_aligns
        && beq (pc_paddings fs) obs_pads
    | _ => true
    end in
  let model_ok := beq m obs && members_ok in
  let spec_ok := beq s obs in
  if model_ok && spec_ok then [] else [91; b2z model_ok; b2z spec_ok] ++ m ++ s.

(* C08: observed (part, offset, value offset) per member of a raw struct, and sizeof (or -1
   when the type is not fixed); for unions: obs = [(0, discriminator offset, arm offset)] *)
Fixpoint triples_eqb (a b : list (Z * Z * Z)) : bool :=
  match a, b with
  | [], [] => true
  | (x1, y1, z1) :: a', (x2, y2, z2) :: b' => (x1 =? x2) && (y1 =? y2) && (z1 =? z2) && triples_eqb a' b'
  | _, _ => false
  end.

Definition flat3 (l : list (Z * Z * Z)) : list Z :=
  concat (map (fun p => match p with (a, b, c) => [a; b; c] end) l).

Definition raw_case (t : ty) (obs : list (Z * Z * Z)) (obs_sizeof : Z) : list Z :=
  let expect := match t with
                | TStruct fs => member_offsets fs 0 0
                | TUnion arms => [(0, 0, ualign align arms)]
                | _ => []
                end in
  let size_ok := if is_fixed t then obs_sizeof =? size t else true in
  (* the generator model (PcModel.pc_raw_layout, proved equal to the spec in PcRawFacts) must
     describe the compiled header as well: that is the tie of the C08 theorem to the code *)
  let model_ok := match t with
                  | TStruct fs => triples_eqb (pc_raw_layout fs) obs && (if is_fixed t then obs_sizeof =? pc_size t else true)
                  | _ => true
                  end in
  if triples_eqb expect obs && size_ok then (if model_ok then [] else [89; pc_size t])
  else [88; b2z size_ok; size t] ++ flat3 expect.

From Prophy Require Import CppFull.

(* C05: obs = get_byte_size() of the compiled generated codec for the object decoded from the
   canonical bytes of v; it must be what the generator model computes (tie of the C05 theorem) and
   the length of the canonical encoding (the property) *)
Definition cpp_size_case (t : ty) (v : value) (obs : Z) : list Z :=
  if negb (obs =? len (wire LE t v)) then [91; len (wire LE t v)]
  else if negb (obs =? cpp_size t v) then [90; cpp_size t v]
  else [].

(* C07: the verdict of the compiled generated decoder on an arbitrary byte string must be the verdict of the
   decoder model (tie of the C07 theorems); the model never yields CCrash (that is the theorem) *)
Definition cpp_dec_case (e : endian) (t : ty) (data : bytes) (obs_ok : bool) : list Z :=
  match cpp_decode e t data with
  | CTrue _ => if obs_ok then [] else [97; 1]
  | CFalse => if obs_ok then [97; 0] else []
  | CCrash => [98]
  end.

(* C03: obs = bytes the compiled generated encoder produced for the object decoded from the canonical
   bytes of v; they must be the canonical bytes (the property) and what the generator/run-time model
   cpp_encode yields (tie of the C03 theorem) *)
Definition cpp_enc_case (e : endian) (t : ty) (v : value) (obs : bytes) : list Z :=
  if negb (beq obs (wire e t v)) then [93; len (wire e t v)]
  else if negb (beq obs (cpp_encode e t v)) then [92; len (cpp_encode e t v)]
  else [].

(* C09: the generated raw swap run by the model on the same foreign-endian bytes followed by the
   check's 64 guard bytes (0xA5), on a little-endian host: the buffer, the returned offset and
   whether the guard is intact must agree with what the compiled code did. *)
From Prophy Require Import CppSwap.
Definition cpp_swap_case (t : ty) (foreign obs : bytes) (obs_ret : Z) (obs_guard_ok : bool) : list Z :=
  let guard := repeat 165 64%nat in
  match cpp_swap LE t (foreign ++ guard) 0 with
  | None => [94]
  | Some (d, r) =>
      let msg := firstn (length foreign) d in
      let g := skipn (length foreign) d in
      if beq msg obs && (r =? obs_ret) && Bool.eqb (beq g guard) obs_guard_ok then []
      else [95; r; b2z (beq msg obs); b2z (beq g guard)]
  end.

(* C09, messages with a greedy tail: only the members before the last (unlimited) member of the root are
   converted, the rest of the buffer is left as it was, and the address of that member is returned *)
Definition cpp_swap_unl_case (t : ty) (v : value) (foreign native obs : bytes) (obs_ret : Z) : list Z :=
  match t, v with
  | TStruct fs, VStruct vs =>
      let off := last_member_offset fs vs false 0 in
      let exp := firstn (Z.to_nat off) native ++ skipn (Z.to_nat off) foreign in
      if beq obs exp && (obs_ret =? off) then [] else [96; off; b2z (beq obs exp)]
  | _, _ => [97]
  end.

From Prophy Require Import ApiSpec.

(* C10 / C11: a history of API operations on two fresh messages; obs = per step
   (exception code, observed state of a, observed state of b); exception codes: 0 none,
   1 ProphyError, 5 IndexError, 6 ValueError, 9 anything else. Result: [] when every step agrees,
   else [step index; model's code; a_equal; b_equal] of the first disagreement. *)
Definition ares_code (r : ares) : Z :=
  match r with ADone _ => 0 | ARaise EProphy => 1 | ARaise EIndex => 5 | ARaise EValue => 6 | AStuck => 7 end.

Fixpoint api_history (t : ty) (st : value * value) (k : Z) (hs : list hitem) (obs : list (Z * value * value)) : list Z :=
  match hs, obs with
  | h :: hr, (c, oa, ob) :: or =>
      let '(st', r) := hitem_step t st h in
      let ea := value_eqb (fst st') oa in
      let eb := value_eqb (snd st') ob in
      if (ares_code r =? c) && ea && eb then api_history t st' (k + 1) hr or
      else [k; ares_code r; b2z ea; b2z eb]
  | _, _ => []
  end.

Definition api_history_case (t : ty) (hs : list hitem) (obs : list (Z * value * value)) : list Z :=
  api_history t (default t, default t) 0 hs obs.

(* C01 / C19: a message nobody touched encodes to the canonical image of the default value, in both orders,
   whichever order is asked for first *)
Definition fresh_case (t : ty) (le1 be1 le2 be2 : bytes) : list Z :=
  let wl := wire LE t (ApiSpec.default t) in
  let wb := wire BE t (ApiSpec.default t) in
  if beq le1 wl && beq be1 wb && beq le2 wl && beq be2 wb then []
  else [96; b2z (beq le1 wl); b2z (beq be1 wb); b2z (beq le2 wl); b2z (beq be2 wb)].

(* C02: the recursive predicate the greedy-tail round-trip theorem is stated with agrees with the spec's
   [greedy_tail_aligned] on this case (definition agreement, evaluated, not proved) *)
From Prophy Require Import PyRoundtrip PyRoundtripGreedy.
Definition tail_defs_case (t : ty) (v : value) : list Z :=
  if Bool.eqb (tail_clean t v) (greedy_tail_aligned t v) then [] else [99; b2z (tail_clean t v); b2z (greedy_tail_aligned t v)].

From Prophy Require Import Text Print.

(* text rendering (C18). One case per rendered message and implementation (who = 0: Python str(), 1: C++
   print()): [] when the names fit the type, the value is well-typed, the type has no floating point member,
   the implementation's model reproduces the observed text and the observed text is the specified one;
   otherwise [96; names_ok; wt; no_float; model = observed; spec = observed] followed by the specified text *)
Definition text_case (who : Z) (t : ty) (n : names) (v : value) (obs : bytes) : list Z :=
  let a := names_ok t n in let w := wt t v in let f := no_float t in
  let m := beq (if who =? 0 then py_str t n v else cpp_text t n v) obs in
  let s := beq (text_of t n v) obs in
  if a && w && f && m && s then [] else [96; b2z a; b2z w; b2z f; b2z m; b2z s] ++ text_of t n v.

From Prophy Require Import PcValidate.

(* legality (C12): the documented rules and the model of the front-end's checks on one schema *)
Definition accept_flags (t : ty) : list Z := [b2z (legal t); b2z (pc_accepts t); 7].

From Prophy Require Import PcFiles.

(* file processor (C16, C20): the model run on the same files and main files; [] when the outcomes (include trees
   or the failure) and the order in which files were handed to the content processor are those observed *)
Fixpoint node_eqb (a b : node) {struct a} : bool :=
  match a, b with
  | NDef x, NDef y => Nat.eqb x y
  | NInc p xs, NInc q ys =>
      Nat.eqb p q && (fix go (l1 l2 : list node) : bool :=
                        match l1, l2 with
                        | [], [] => true
                        | x :: r1, y :: r2 => node_eqb x y && go r1 r2
                        | _, _ => false
                        end) xs ys
  | _, _ => false
  end.

Fixpoint nodes_eqb (l1 l2 : list node) : bool :=
  match l1, l2 with
  | [], [] => true
  | x :: r1, y :: r2 => node_eqb x y && nodes_eqb r1 r2
  | _, _ => false
  end.

Definition fres_eqb (a b : fres) : bool :=
  match a, b with
  | FOk x, FOk y => nodes_eqb x y
  | FErr (ECyclic p), FErr (ECyclic q) | FErr (EMissing p), FErr (EMissing q) => Nat.eqb p q
  | FErr EFuel, FErr EFuel => true
  | _, _ => false
  end.

Fixpoint list_eqb {A} (eq : A -> A -> bool) (l1 l2 : list A) : bool :=
  match l1, l2 with
  | [], [] => true
  | x :: r1, y :: r2 => eq x y && list_eqb eq r1 r2
  | _, _ => false
  end.

Definition files_case (fs : path -> option (list item)) (mains : list path) (obs : list fres) (obs_log : list path) : list Z :=
  let '(st, rs) := proc_mains fs 64 st0 mains in
  let a := list_eqb fres_eqb rs obs in
  let b := list_eqb Nat.eqb (f_log st) obs_log in
  if a && b then [] else [97; b2z a; b2z b].

From Prophy Require Import PcPatch.

(* patch rules (C17): the model on the same member records and actions; [] when the outcome is the observed one
   (observed: None = the rule failed, Some records otherwise) *)
Definition optn_eqb (a b : option nat) : bool :=
  match a, b with Some x, Some y => Nat.eqb x y | None, None => true | _, _ => false end.
Definition optz_eqb (a b : option Z) : bool :=
  match a, b with Some x, Some y => Z.eqb x y | None, None => true | _, _ => false end.
Definition mem_eqb (a b : mem) : bool :=
  Nat.eqb (m_name a) (m_name b) && Nat.eqb (m_type a) (m_type b) && optn_eqb (m_bound a) (m_bound b)
  && optz_eqb (m_size a) (m_size b) && Bool.eqb (m_greedy a) (m_greedy b) && Bool.eqb (m_opt a) (m_opt b).
Definition patch_case (node : nat) (ms : list mem) (patches : list (nat * list action)) (obs : option (list mem)) : list Z :=
  match patch_node node ms patches, obs with
  | POk r, Some o => if list_eqb mem_eqb r o then [] else [95; 1; 1]
  | PErr, None => []
  | POk _, None => [95; 1; 0]
  | PErr, Some _ => [95; 0; 1]
  end.

From Prophy Require Import PcIsar.

(* isar member records (C17): names m<k> -> k, has_m<k> -> 1000+k, numOfM<k> -> 2000+k, m<k>_len -> 3000+k, type u32 -> 0 *)
Definition isar_case (name tp : nat) (optional : bool) (dim : option dimension) (dyn : bool) (obs : list mem) : list Z :=
  let r := isar_members (fun n => 1000 + n)%nat (fun n => 2000 + n)%nat (fun n => 3000 + n)%nat 0%nat name tp optional dim dyn in
  if list_eqb mem_eqb r obs then [] else [94; Z.of_nat (length r); Z.of_nat (length obs)].
