(* model/CheckLib.v — helpers evaluated by the generated case files of the correspondence
   harness. Every checker returns plain nested lists of numbers so the harness can parse it. *)
From Coq Require Import ZArith List Bool.
From Prophy Require Import Bytes Schema Layout Wire.
Import ListNotations.
Local Open Scope Z_scope.

Fixpoint beq (a b : bytes) : bool :=
  match a, b with
  | [], [] => true
  | x :: a', y :: b' => (x =? y) && beq a' b'
  | _, _ => false
  end.

Definition b2z (b : bool) : Z := if b then 1 else 0.

(* spec oracle for one encode case: [] when the observed bytes are the canonical ones for
   both byte orders and the case is legal and well-typed; otherwise
   [legal; wt; le_ok; be_ok] followed by the canonical little-endian bytes *)
Definition spec_encode_case (t : ty) (v : value) (obs_le obs_be : bytes) : list Z :=
  let l := legal t in let w := wt t v in
  let a := beq (wire LE t v) obs_le in let b := beq (wire BE t v) obs_be in
  if l && w && a && b then [] else [b2z l; b2z w; b2z a; b2z b] ++ wire LE t v.

From Prophy Require Import Src PyStatics PyEncode.

(* model correspondence for one encode case: observed = [0; bytes] or [exception code] *)
Definition model_encode_case (t : ty) (v : value) (obs_le obs_be : list Z) : list Z :=
  let a := res_bytes_flat (py_enc LE t v) in
  let b := res_bytes_flat (py_enc BE t v) in
  if beq a obs_le && beq b obs_be then [] else 99 :: a.

(* statics of a struct/union class: [size; align; dynamic; unlimited] *)
Definition model_statics (t : ty) : list Z :=
  [py_sizeof t; py_align t; b2z (py_dynamic t); b2z (py_unlimited t)].

Definition spec_statics (t : ty) : list Z :=
  [size t; align t; b2z (negb (is_fixed t)); b2z (stiff_eqb (stiffness t) Unlimited)].
