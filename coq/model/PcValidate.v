(* model/PcValidate.v — model of the legality checks of the prophy text front-end
   (prophyc/parsers/prophy.py): _validate_struct_members with its three loops, p_union_def,
   p_enum_member, p_union_member, p_positive_expression and the shape the grammar itself enforces
   (non-empty bodies, bytes only as the element of an array). Checks that need names (redefinitions,
   undeclared types) are outside the nameless schema AST. A definition is accepted when no check
   recorded an error for it or for a definition it uses. Definitions only. *)
From Coq Require Import ZArith List Bool.
From Prophy Require Import Bytes Schema PcModel.
Import ListNotations.
Local Open Scope Z_scope.

Definition is_plain (k : fkind) : bool := match k with FPlain => true | _ => false end.
Definition is_greedy (k : fkind) : bool := match k with FGreedy => true | _ => false end.
Definition is_opt (k : fkind) : bool := match k with FOpt => true | _ => false end.
(* member.size: set for fixed and limited arrays *)
Definition has_size (k : fkind) : bool := match k with FFixed _ | FLimited _ _ => true | _ => false end.

Section Validate.
  Variable kindT : ty -> Z.       (* member.kind: pc_kind of the member's type *)

  (* loop 1, per member i with a bound: the sizer is looked up among members[:i]; it has to be of an
     integer type (_is_type_sizer_compatible; typedefs are erased in the AST) and a plain field *)
  Definition v_sizer (all : list field) (i : nat) (f : field) : bool :=
    match sizer_of (fst f) with
    | None => true
    | Some s =>
        match nth_error (firstn i all) s with
        | Some b => int_scalar (snd b) && is_plain (fst b)
        | None => false                    (* "Sizer ... has to be defined before the array" *)
        end
    end.

  Fixpoint v_loop1 (all : list field) (i : nat) (fs : list field) : bool :=
    match fs with
    | [] => true
    | f :: r => v_sizer all i f && v_loop1 all (S i) r
    end.

  (* loop 2, over members[:-1]: not greedy and not of unlimited kind *)
  Definition v_notlast (f : field) : bool :=
    negb (is_greedy (fst f)) && negb (kindT (snd f) =? K_UNLIMITED).

  (* loop 3, over all members *)
  Definition v_kinds (f : field) : bool :=
    (if is_array (fst f)
     then negb (kindT (snd f) =? K_UNLIMITED) && (negb (has_size (fst f)) || (kindT (snd f) =? K_FIXED))
     else true)
    && (if is_opt (fst f) then kindT (snd f) =? K_FIXED else true).

  (* grammar: positive_expression for array sizes; 'bytes' exists only in the array productions *)
  Definition v_grammar (f : field) : bool :=
    match fst f with
    | FFixed n | FLimited n _ => 0 <? n
    | FPlain | FOpt => not_byte (snd f)
    | _ => true
    end.

  Definition v_struct (fs : list field) : bool :=
    v_loop1 fs O fs && forallb v_notlast (removelast fs) && forallb v_kinds fs && forallb v_grammar fs.

  (* p_union_def: discriminator values collected in a set *)
  Fixpoint v_discs (seen : list Z) (ds : list Z) : bool :=
    match ds with
    | [] => true
    | d :: r => negb (existsb (Z.eqb d) seen) && v_discs (d :: seen) r
    end.

  Definition v_arm (a : Z * ty) : bool :=
    u32_ok (fst a)                             (* p_union_member *)
    && (kindT (snd a) =? K_FIXED)              (* "dynamic union arm" *)
    && not_byte (snd a).                       (* grammar: type_spec *)

  Definition v_union (arms : list (Z * ty)) : bool :=
    forallb v_arm arms && v_discs [] (map fst arms).
End Validate.

Fixpoint pc_accepts (t : ty) : bool :=
  match t with
  | TScalar _ | TByte => true
  | TEnum vals => match vals with [] => false | _ => forallb u32_ok vals end       (* p_enum_member *)
  | TStruct fs =>
      match fs with [] => false | _ => forallb (fun f => pc_accepts (snd f)) fs && v_struct pc_kind fs end
  | TUnion arms =>
      match arms with [] => false | _ => forallb (fun a => pc_accepts (snd a)) arms && v_union pc_kind arms end
  end.
