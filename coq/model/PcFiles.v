(* model/PcFiles.v — model of prophyc/file_processor.py (FileProcessor: process_main / process_leaf /
   _process_file with its table of processed files, None marking a file that is being processed) driven by a
   content processor that, like the prophy parser, asks for every included file in order and fails as a whole
   when an include fails. Files are identified by their resolved path; a file's content is its sequence of
   include directives and definitions. [Flat] is the specification: the include tree of a file, a function of
   the files' contents alone. Definitions only. *)
From Coq Require Import List Bool Arith.
Import ListNotations.

Definition path := nat.

Inductive item := IInc (p : path) | IDef (d : nat).

(* what processing a file yields: Include nodes holding the included file's nodes, and definitions *)
Inductive node := NInc (p : path) (ns : list node) | NDef (d : nat).

Inductive ferr := ECyclic (p : path) | EMissing (p : path) | EFuel.
Inductive fres := FOk (ns : list node) | FErr (e : ferr).

(* self.files: absolute path -> None (being processed) | result *)
Definition memo := list (path * option (list node)).

Fixpoint lookup (m : memo) (p : path) : option (option (list node)) :=
  match m with
  | [] => None
  | (q, v) :: r => if Nat.eqb q p then Some v else lookup r p
  end.

(* the table and the log of files handed to the content processor, in order *)
Record fstate := { f_memo : memo; f_log : list path }.

Section Files.
  Variable fs : path -> option (list item).          (* the file system: content of every existing file *)

  Section Items.
    Variable process : fstate -> path -> fstate * fres.      (* process_leaf *)
    (* the content processor: one pass over the file, includes resolved as they are met *)
    Fixpoint run_items (its : list item) (st : fstate) : fstate * fres :=
      match its with
      | [] => (st, FOk [])
      | IDef d :: r =>
          match run_items r st with
          | (st', FOk ns) => (st', FOk (NDef d :: ns))
          | (st', FErr e) => (st', FErr e)
          end
      | IInc q :: r =>
          match process st q with
          | (st1, FOk nq) =>
              match run_items r st1 with
              | (st2, FOk ns) => (st2, FOk (NInc q nq :: ns))
              | (st2, FErr e) => (st2, FErr e)
              end
          | (st1, FErr e) => (st1, FErr e)
          end
      end.
  End Items.

  (* _process_file (after the existence test of process_main / process_leaf); fuel bounds the include depth *)
  Fixpoint proc (fuel : nat) (st : fstate) (p : path) {struct fuel} : fstate * fres :=
    match fuel with
    | O => (st, FErr EFuel)
    | S k =>
        match fs p with
        | None => (st, FErr (EMissing p))
        | Some items =>
            match lookup (f_memo st) p with
            | Some None => (st, FErr (ECyclic p))
            | Some (Some r) => (st, FOk r)
            | None =>
                let st1 := {| f_memo := (p, None) :: f_memo st; f_log := f_log st ++ [p] |} in
                match run_items (proc k) items st1 with
                | (st2, FOk ns) => ({| f_memo := (p, Some ns) :: f_memo st2; f_log := f_log st2 |}, FOk ns)
                | (st2, FErr e) => (st2, FErr e)
                end
            end
        end
    end.

  (* main(): the input files one after the other through one FileProcessor; the first failure ends the run *)
  Fixpoint proc_mains (fuel : nat) (st : fstate) (ps : list path) : fstate * list fres :=
    match ps with
    | [] => (st, [])
    | p :: r =>
        match proc fuel st p with
        | (st1, FOk ns) => let '(st2, rs) := proc_mains fuel st1 r in (st2, FOk ns :: rs)
        | (st1, FErr e) => (st1, [FErr e])
        end
    end.

  (* ---- specification: the include tree of a file ---- *)
  Inductive Flat : path -> list node -> Prop :=
  | Flat_file p items ns : fs p = Some items -> FlatItems items ns -> Flat p ns
  with FlatItems : list item -> list node -> Prop :=
  | FI_nil : FlatItems [] []
  | FI_def d r ns : FlatItems r ns -> FlatItems (IDef d :: r) (NDef d :: ns)
  | FI_inc q nq r ns : Flat q nq -> FlatItems r ns -> FlatItems (IInc q :: r) (NInc q nq :: ns).
End Files.

Definition st0 : fstate := {| f_memo := []; f_log := [] |}.

(* definitions a result makes visible, in order of first appearance in the single-file concatenation:
   an included file's definitions come before the includer's later ones *)
Fixpoint node_defs (n : node) : list nat :=
  match n with
  | NDef d => [d]
  | NInc _ sub => (fix go (l : list node) : list nat := match l with [] => [] | x :: r => node_defs x ++ go r end) sub
  end.
Definition defs_of (ns : list node) : list nat := flat_map node_defs ns.
