(* model/CppFull.v — what the generated C++ full codec computes, following the generator
   (prophyc/generators/cpp_full.py) statement by statement over prophyc's member records and
   paddings, with the run-time helpers of prophy_cpp/include/prophy/detail (nearest<N>, align<N>)
   taken from the translated Src kernels. A C++ object is modelled by the same value tree as the
   wire value (vectors as lists, optional as VNone/VSome, union as arm index + value; counters are
   not members of the C++ class: the generated code writes x.<array>.size()). Definitions only. *)
From Coq Require Import ZArith List Bool.
From Prophy Require Import Bytes Schema Layout Wire Src PcModel.
Import ListNotations.
Local Open Scope Z_scope.

(* ---- get_byte_size(): generate_struct_get_byte_size evaluated on an object ---- *)
Section CppSize.
  Variable sizeV : ty -> value -> Z.          (* get_byte_size() of a nested composite object *)

  (* what one member adds before the `if m.padding < 0` step *)
  Definition cpp_member_bytes (f : field) (m : pcm) (p : Z) (v : value) : Z :=
    if pm_kind m =? K_FIXED then
      if pm_isdyn m || pm_greedy m
      then match v with
           | VList xs => len xs * (match snd f with TByte => pc_byte_size | t => pc_size t end)   (* x.size() * _get_byte_size(m) *)
           | _ => 0
           end
      else pm_size m + Z.max p 0                                                               (* bytes_ += m.byte_size + max(m.padding, 0) *)
    else
      if pm_isdyn m || pm_greedy m
      then match v with
           | VList xs => fold_right (fun x acc => sizeV (snd f) x + acc) 0 xs                    (* std::accumulate(..., byte_size()) *)
           | _ => 0
           end
      else sizeV (snd f) v.                                                                    (* x.get_byte_size() *)

  Fixpoint cpp_size_fields (fs : list field) (ms : list pcm) (ps : list Z) (vs : list value) (acc : Z) : Z :=
    match fs, ms, ps, vs with
    | f :: fr, m :: mr, p :: pr, v :: vr =>
        let acc1 := acc + cpp_member_bytes f m p v in
        cpp_size_fields fr mr pr vr (if p <? 0 then cpp_nearest (- p) acc1 else acc1)           (* nearest<-padding>( ... ) *)
    | _, _, _, _ => acc
    end.
End CppSize.

Fixpoint cpp_size (t : ty) (v : value) {struct t} : Z :=
  match t, v with
  | TStruct fs, VStruct vs =>
      cpp_size_fields cpp_size fs (map (pc_member pc_size pc_align pc_kind) fs) (pc_paddings fs) vs 0
  | _, _ => pc_size t                                  (* generate_union_get_byte_size: return byte_size *)
  end.

(* ---- encode<E>(): generate_struct_encode / generate_union_encode over the run-time helpers of
   detail/encoder.hpp, as the list of segments written from absolute position [pos] of a zeroed
   buffer whose start is 8-aligned (`pos = pos + n` and `align<N>(pos)` skip bytes: SPad).
   Counter members are written as x.<array>.size(); in the value tree that is the counter member
   itself (equal under [wt]'s counts_ok; over-full limited vectors are outside this model).
   alignment<T>::value is modelled by the wire alignment pc_align T: true for every generated class
   that holds no std::vector (the exception is the known finding KF-A). ---- *)
Section CppEnc.
  Variable layV : ty -> value -> Z -> list seg.    (* x.encode<E>(data) of a nested composite object *)

  (* do_encode<E>(pos, x) for one object; returns the segments from pos to the returned pointer *)
  Definition cpp_obj (t : ty) (v : value) (pos : Z) : list seg :=
    match t, v with
    | TScalar k, VInt z => [SInt (pc_builtin_size k) z]
    | TByte, VInt z => [SInt pc_byte_size z]
    | TEnum _, VInt z => [SInt pc_enum_size z]
    | (TStruct _ | TUnion _), _ =>
        let b := layV t v pos in
        if pc_kind t =? K_FIXED
        then b ++ [SPad (pc_size t - segslen b)]       (* return data + T::encoded_byte_size *)
        else b                                          (* return data + x.encode<E>(data) *)
    | _, _ => []
    end.

  (* do_encode<E>(pos, x.data(), n) *)
  Definition cpp_objs (t : ty) : list value -> Z -> list seg :=
    fix go (xs : list value) (pos : Z) : list seg :=
      match xs with
      | [] => []
      | x :: xr => let b := cpp_obj t x pos in b ++ go xr (pos + segslen b)
      end.

  (* one member, before its padding statement *)
  Definition cpp_member_segs (f : field) (m : pcm) (v : value) (pos : Z) : list seg :=
    match fst f, v with
    | FPlain, _ => cpp_obj (snd f) v pos
    | FOpt, VSome x =>
        SInt 4 1 :: SPad (pm_align m - 4) :: cpp_obj (snd f) x (pos + pm_align m)
    | FOpt, _ =>
        [SInt 4 0; SPad (pm_align m - 4); SPad (match snd f with TByte => pc_byte_size | t => pc_size t end)]
    | FFixed _, VList xs => cpp_objs (snd f) xs pos
    | FBound _, VList xs => cpp_objs (snd f) xs pos
    | FGreedy, VList xs => cpp_objs (snd f) xs pos
    | FLimited _ _, VList xs =>
        let b := cpp_objs (snd f) xs pos in b ++ [SPad (pm_size m - segslen b)]        (* pos = pos + m.byte_size *)
    | _, _ => []
    end.

  Fixpoint cpp_fields_segs (fs : list field) (ms : list pcm) (ps : list Z) (vs : list value) (pos : Z) : list seg :=
    match fs, ms, ps, vs with
    | f :: fr, m :: mr, p :: pr, v :: vr =>
        let b := cpp_member_segs f m v pos in
        let pos1 := pos + segslen b in
        let padn := if p <? 0 then cpp_align (- p) pos1 - pos1 else p in       (* align<-p>(pos) / pos + p *)
        b ++ SPad padn :: cpp_fields_segs fr mr pr vr (pos1 + padn)
    | _, _, _, _ => []
    end.

  Fixpoint cpp_arm_segs (arms : list (Z * ty)) (i : nat) (x : value) (pos : Z) : option (Z * list seg) :=
    match arms, i with
    | a :: _, O => Some (fst a, cpp_obj (snd a) x pos)
    | _ :: r, S j => cpp_arm_segs r j x pos
    | _, _ => None
    end.
End CppEnc.

Fixpoint cpp_lay (t : ty) (v : value) (pos : Z) {struct t} : list seg :=
  match t, v with
  | TStruct fs, VStruct vs =>
      cpp_fields_segs cpp_lay fs (map (pc_member pc_size pc_align pc_kind) fs) (pc_paddings fs) vs pos
  | TUnion arms, VUnion i x =>
      let discpad := if pc_disc_size <? pc_align t then pc_align t - pc_disc_size else 0 in
      match cpp_arm_segs cpp_lay arms i x (pos + pc_disc_size + discpad) with
      | Some (d, b) =>
          (* the arm is written without advancing pos; then pos = pos + byte_size - DISC_SIZE - discpad *)
          SInt pc_disc_size d :: SPad discpad :: b ++ [SPad (pc_size t - pc_disc_size - discpad - segslen b)]
      | None => []
      end
  | _, _ => []
  end.

Definition cpp_encode (e : endian) (t : ty) (v : value) : bytes := render e (cpp_lay t v 0).
