(* model/CppFull.v — what the generated C++ full codec computes, following the generator
   (prophyc/generators/cpp_full.py) statement by statement over prophyc's member records and
   paddings, with the run-time helpers of prophy_cpp/include/prophy/detail (nearest<N>, align<N>)
   taken from the translated Src kernels. A C++ object is modelled by the same value tree as the
   wire value (vectors as lists, optional as VNone/VSome, union as arm index + value; counters are
   not members of the C++ class: the generated code writes x.<array>.size()). Definitions only. *)
From Coq Require Import ZArith List Bool.
From Prophy Require Import Bytes Schema Src PcModel.
Import ListNotations.
Local Open Scope Z_scope.

(* ---- get_byte_size(): generate_struct_get_byte_size evaluated on an object ---- *)
Section CppSize.
  Variable sizeV : ty -> value -> Z.          (* get_byte_size() of a nested composite object *)

  (* what one member adds before the `if m.padding < 0` step *)
  Definition cpp_member_bytes (f : field) (m : pcm) (p : Z) (v : value) : Z :=
    if pm_kind m =? K_FIXED then
      if pm_isdyn m || pm_greedy m
      then match v with
           | VList xs => len xs * (match snd f with TByte => pc_byte_size | t => pc_size t end)   (* x.size() * _get_byte_size(m) *)
           | _ => 0
           end
      else pm_size m + Z.max p 0                                                               (* bytes_ += m.byte_size + max(m.padding, 0) *)
    else
      if pm_isdyn m || pm_greedy m
      then match v with
           | VList xs => fold_right (fun x acc => sizeV (snd f) x + acc) 0 xs                    (* std::accumulate(..., byte_size()) *)
           | _ => 0
           end
      else sizeV (snd f) v.                                                                    (* x.get_byte_size() *)

  Fixpoint cpp_size_fields (fs : list field) (ms : list pcm) (ps : list Z) (vs : list value) (acc : Z) : Z :=
    match fs, ms, ps, vs with
    | f :: fr, m :: mr, p :: pr, v :: vr =>
        let acc1 := acc + cpp_member_bytes f m p v in
        cpp_size_fields fr mr pr vr (if p <? 0 then cpp_nearest (- p) acc1 else acc1)           (* nearest<-padding>( ... ) *)
    | _, _, _, _ => acc
    end.
End CppSize.

Fixpoint cpp_size (t : ty) (v : value) {struct t} : Z :=
  match t, v with
  | TStruct fs, VStruct vs =>
      cpp_size_fields cpp_size fs (map (pc_member pc_size pc_align pc_kind) fs) (pc_paddings fs) vs 0
  | _, _ => pc_size t                                  (* generate_union_get_byte_size: return byte_size *)
  end.
