(* model/CppFull.v — what the generated C++ full codec computes, following the generator
   (prophyc/generators/cpp_full.py) statement by statement over prophyc's member records and
   paddings, with the run-time helpers of prophy_cpp/include/prophy/detail (nearest<N>, align<N>)
   taken from the translated Src kernels. A C++ object is modelled by the same value tree as the
   wire value (vectors as lists, optional as VNone/VSome, union as arm index + value; counters are
   not members of the C++ class: the generated code writes x.<array>.size()). Definitions only. *)
From Coq Require Import ZArith List Bool.
From Prophy Require Import Bytes Schema Layout Wire Src PcModel.
Import ListNotations.
Local Open Scope Z_scope.

(* ---- get_byte_size(): generate_struct_get_byte_size evaluated on an object ---- *)
Section CppSize.
  Variable sizeV : ty -> value -> Z.          (* get_byte_size() of a nested composite object *)

  (* what one member adds before the `if m.padding < 0` step *)
  Definition cpp_member_bytes (f : field) (m : pcm) (p : Z) (v : value) : Z :=
    if pm_kind m =? K_FIXED then
      if pm_isdyn m || pm_greedy m
      then match v with
           | VList xs => len xs * (match snd f with TByte => pc_byte_size | t => pc_size t end)   (* x.size() * _get_byte_size(m) *)
           | _ => 0
           end
      else pm_size m + Z.max p 0                                                               (* bytes_ += m.byte_size + max(m.padding, 0) *)
    else
      if pm_isdyn m || pm_greedy m
      then match v with
           | VList xs => fold_right (fun x acc => sizeV (snd f) x + acc) 0 xs                    (* std::accumulate(..., byte_size()) *)
           | _ => 0
           end
      else sizeV (snd f) v.                                                                    (* x.get_byte_size() *)

  Fixpoint cpp_size_fields (fs : list field) (ms : list pcm) (ps : list Z) (vs : list value) (acc : Z) : Z :=
    match fs, ms, ps, vs with
    | f :: fr, m :: mr, p :: pr, v :: vr =>
        let acc1 := acc + cpp_member_bytes f m p v in
        cpp_size_fields fr mr pr vr (if p <? 0 then cpp_nearest (- p) acc1 else acc1)           (* nearest<-padding>( ... ) *)
    | _, _, _, _ => acc
    end.
End CppSize.

Fixpoint cpp_size (t : ty) (v : value) {struct t} : Z :=
  match t, v with
  | TStruct fs, VStruct vs =>
      cpp_size_fields cpp_size fs (map (pc_member pc_size pc_align pc_kind) fs) (pc_paddings fs) vs 0
  | _, _ => pc_size t                                  (* generate_union_get_byte_size: return byte_size *)
  end.

(* ---- encode<E>(): generate_struct_encode / generate_union_encode over the run-time helpers of
   detail/encoder.hpp, as the list of segments written from absolute position [pos] of a zeroed
   buffer whose start is 8-aligned (`pos = pos + n` and `align<N>(pos)` skip bytes: SPad).
   Counter members are written as x.<array>.size(); in the value tree that is the counter member
   itself (equal under [wt]'s counts_ok; over-full limited vectors are outside this model).
   alignment<T>::value is modelled by the wire alignment pc_align T: true for every generated class
   that holds no std::vector (the exception is the known finding KF-A). ---- *)
Section CppEnc.
  Variable layV : ty -> value -> Z -> list seg.    (* x.encode<E>(data) of a nested composite object *)

  (* do_encode<E>(pos, x) for one object; returns the segments from pos to the returned pointer *)
  Definition cpp_obj (t : ty) (v : value) (pos : Z) : list seg :=
    match t, v with
    | TScalar k, VInt z => [SInt (pc_builtin_size k) z]
    | TByte, VInt z => [SInt pc_byte_size z]
    | TEnum _, VInt z => [SInt pc_enum_size z]
    | (TStruct _ | TUnion _), _ =>
        let b := layV t v pos in
        if pc_kind t =? K_FIXED
        then b ++ [SPad (pc_size t - segslen b)]       (* return data + T::encoded_byte_size *)
        else b                                          (* return data + x.encode<E>(data) *)
    | _, _ => []
    end.

  (* do_encode<E>(pos, x.data(), n) *)
  Definition cpp_objs (t : ty) : list value -> Z -> list seg :=
    fix go (xs : list value) (pos : Z) : list seg :=
      match xs with
      | [] => []
      | x :: xr => let b := cpp_obj t x pos in b ++ go xr (pos + segslen b)
      end.

  (* one member, before its padding statement *)
  Definition cpp_member_segs (f : field) (m : pcm) (v : value) (pos : Z) : list seg :=
    match fst f, v with
    | FPlain, _ => cpp_obj (snd f) v pos
    | FOpt, VSome x =>
        SInt 4 1 :: SPad (pm_align m - 4) :: cpp_obj (snd f) x (pos + pm_align m)
    | FOpt, _ =>
        [SInt 4 0; SPad (pm_align m - 4); SPad (match snd f with TByte => pc_byte_size | t => pc_size t end)]
    | FFixed _, VList xs => cpp_objs (snd f) xs pos
    | FBound _, VList xs => cpp_objs (snd f) xs pos
    | FGreedy, VList xs => cpp_objs (snd f) xs pos
    | FLimited _ _, VList xs =>
        let b := cpp_objs (snd f) xs pos in b ++ [SPad (pm_size m - segslen b)]        (* pos = pos + m.byte_size *)
    | _, _ => []
    end.

  Fixpoint cpp_fields_segs (fs : list field) (ms : list pcm) (ps : list Z) (vs : list value) (pos : Z) : list seg :=
    match fs, ms, ps, vs with
    | f :: fr, m :: mr, p :: pr, v :: vr =>
        let b := cpp_member_segs f m v pos in
        let pos1 := pos + segslen b in
        let padn := if p <? 0 then cpp_align (- p) pos1 - pos1 else p in       (* align<-p>(pos) / pos + p *)
        b ++ SPad padn :: cpp_fields_segs fr mr pr vr (pos1 + padn)
    | _, _, _, _ => []
    end.

  Fixpoint cpp_arm_segs (arms : list (Z * ty)) (i : nat) (x : value) (pos : Z) : option (Z * list seg) :=
    match arms, i with
    | a :: _, O => Some (fst a, cpp_obj (snd a) x pos)
    | _ :: r, S j => cpp_arm_segs r j x pos
    | _, _ => None
    end.
End CppEnc.

Fixpoint cpp_lay (t : ty) (v : value) (pos : Z) {struct t} : list seg :=
  match t, v with
  | TStruct fs, VStruct vs =>
      cpp_fields_segs cpp_lay fs (map (pc_member pc_size pc_align pc_kind) fs) (pc_paddings fs) vs pos
  | TUnion arms, VUnion i x =>
      let discpad := if pc_disc_size <? pc_align t then pc_align t - pc_disc_size else 0 in
      match cpp_arm_segs cpp_lay arms i x (pos + pc_disc_size + discpad) with
      | Some (d, b) =>
          (* the arm is written without advancing pos; then pos = pos + byte_size - DISC_SIZE - discpad *)
          SInt pc_disc_size d :: SPad discpad :: b ++ [SPad (pc_size t - pc_disc_size - discpad - segslen b)]
      | None => []
      end
  | _, _ => []
  end.

Definition cpp_encode (e : endian) (t : ty) (v : value) : bytes := render e (cpp_lay t v 0).

(* ---- decode<E>(): generate_struct_decode / generate_union_decode over detail/decoder.hpp.
   Every helper of the header tests `size_t(end - pos) < n` before it loads; the model keeps the tests
   and the loads apart: a load outside [data, data + size) is [CCrash] (undefined behaviour), a failed
   test is [CFalse] (the function returns false). [remaining] is the pointer difference reinterpreted
   as size_t, so a cursor that ever ran past `end` makes every later test pass — exactly the way an
   unchecked advance turns into an out-of-bounds read. Counters are not members of the C++ class: the
   value tree records, at the counter's position, the size the array was resized to. ---- *)
Inductive cres (A : Type) : Type := CTrue (a : A) | CFalse | CCrash.
Arguments CTrue {A} a. Arguments CFalse {A}. Arguments CCrash {A}.

Definition cbind {A B} (r : cres A) (k : A -> cres B) : cres B :=
  match r with CTrue a => k a | CFalse => CFalse | CCrash => CCrash end.

Definition size_t (z : Z) : Z := z mod 2 ^ 64.

Section CppDec.
  Variable e : endian.
  Variable data : bytes.                         (* [data, data + size) *)
  Variable decV : ty -> Z -> cres (value * Z).   (* message_impl<T>::decode<E>(x, pos, end) of a composite: value, new pos *)

  Definition remaining (pos : Z) : Z := size_t (len data - pos).

  (* decode_int<E>(x, pos): a raw load *)
  Definition cpp_load (w pos : Z) : cres Z :=
    if (0 <=? pos) && (pos + w <=? len data) then CTrue (dec_uint e (slice data pos w)) else CCrash.

  Definition cpp_reinterpret (k : sk) (u : Z) : Z :=
    if py_fmt_signed k then to_signed (pc_builtin_size k) u else u.

  (* decoder<E, T>::decode(x, pos, end) for integers, floats (as bit patterns), bytes and enums *)
  Definition cpp_dec_scalar (t : ty) (pos : Z) : cres (value * Z) :=
    match t with
    | TScalar k =>
        let w := pc_builtin_size k in
        if remaining pos <? w then CFalse
        else cbind (cpp_load w pos) (fun u => CTrue (VInt (cpp_reinterpret k u), pos + w))
    | TByte =>
        if remaining pos <? pc_byte_size then CFalse
        else cbind (cpp_load pc_byte_size pos) (fun u => CTrue (VInt u, pos + pc_byte_size))
    | TEnum _ =>
        if remaining pos <? pc_enum_size then CFalse
        else cbind (cpp_load pc_enum_size pos) (fun u => CTrue (VInt u, pos + pc_enum_size))   (* static_cast<T>(data): any value *)
    | _ => CCrash
    end.

  Definition cpp_dec_obj (t : ty) (pos : Z) : cres (value * Z) :=
    match t with
    | TStruct _ | TUnion _ => decV t pos
    | _ => cpp_dec_scalar t pos
    end.

  Definition cpp_elem_size (t : ty) : Z := match t with TByte => pc_byte_size | TEnum _ => pc_enum_size | _ => pc_size t end.

  (* decoder<E, T>::decode(x, n, pos, end): scalars test n * sizeof(T) once, composites go one by one *)
  Definition cpp_dec_loop (t : ty) : nat -> Z -> cres (list value * Z) :=
    fix go (n : nat) (pos : Z) : cres (list value * Z) :=
      match n with
      | O => CTrue ([], pos)
      | S m =>
          cbind (match t with
                 | TStruct _ | TUnion _ => decV t pos
                 | TScalar k => cbind (cpp_load (pc_builtin_size k) pos) (fun u => CTrue (VInt (cpp_reinterpret k u), pos + pc_builtin_size k))
                 | _ => cbind (cpp_load (cpp_elem_size t) pos) (fun u => CTrue (VInt u, pos + cpp_elem_size t))
                 end) (fun r =>
          cbind (go m (snd r)) (fun rs => CTrue (fst r :: fst rs, snd rs)))
      end.

  Definition cpp_dec_n (t : ty) (n : Z) (pos : Z) : cres (list value * Z) :=
    match t with
    | TStruct _ | TUnion _ => cpp_dec_loop t (Z.to_nat n) pos
    | _ => if remaining pos <? n * cpp_elem_size t then CFalse else cpp_dec_loop t (Z.to_nat n) pos     (* n * sizeof(T) is assumed not to overflow size_t *)
    end.

  (* do_decode_advance / do_decode_align<A> *)
  Definition cpp_advance (n pos : Z) : cres Z := if remaining pos <? n then CFalse else CTrue (pos + n).
  Definition cpp_align_to (a pos : Z) : cres Z := if len data <? cpp_align a pos then CFalse else CTrue (cpp_align a pos).

  (* decoder_greedy<E, T, true>: elements until one fails; a failed element is not consumed *)
  Definition cpp_dec_greedy_dyn (t : ty) : nat -> Z -> cres (list value * Z) :=
    fix go (fuel : nat) (pos : Z) : cres (list value * Z) :=
      match fuel with
      | O => CCrash                                            (* the `while (true)` did not end within the fuel *)
      | S f =>
          match decV t pos with
          | CTrue r => cbind (go f (snd r)) (fun rs => CTrue (fst r :: fst rs, snd rs))
          | CFalse => CTrue ([], pos)
          | CCrash => CCrash
          end
      end.

  (* one member's statements (before its padding statement); [decoded]: the members before it *)
  Definition cpp_dec_member (fuel : nat) (fs : list field) (decoded : list value) (i : nat) (f : field) (m : pcm) (pos : Z)
    : cres (value * Z) :=
    let t := snd f in
    let sized (s : nat) : cres Z := match nth_error decoded s with Some (VInt n) => CTrue n | _ => CCrash end in
    match fst f with
    | FFixed n => cbind (cpp_dec_n t n pos) (fun r => CTrue (VList (fst r), snd r))
    | FBound s => cbind (sized s) (fun n => cbind (cpp_dec_n t n pos) (fun r => CTrue (VList (fst r), snd r)))
    | FLimited _ s =>
        cbind (sized s) (fun n =>
        cbind (cpp_dec_n t n pos) (fun r =>                     (* do_decode_in_place: pos is passed by value *)
        cbind (cpp_advance (pm_size m) pos) (fun p => CTrue (VList (fst r), p))))
    | FGreedy =>
        match t with
        | TStruct _ | TUnion _ =>
            if pc_kind t =? K_FIXED
            then let n := remaining pos / pc_size t in cbind (cpp_dec_n t n pos) (fun r => CTrue (VList (fst r), snd r))
            else cbind (cpp_dec_greedy_dyn t fuel pos) (fun r => CTrue (VList (fst r), snd r))
        | _ => let n := remaining pos / cpp_elem_size t in cbind (cpp_dec_n t n pos) (fun r => CTrue (VList (fst r), snd r))
        end
    | FOpt =>
        cbind (cpp_dec_scalar (TScalar U32) pos) (fun d =>
        let flag := match fst d with VInt z => z | _ => 0 end in
        cbind (if 4 <? pm_align m then cpp_advance (pm_align m - 4) (snd d) else CTrue (snd d)) (fun p =>
        if flag =? 0 then cbind (cpp_advance (cpp_elem_size t) p) (fun q => CTrue (VNone, q))
        else cbind (cpp_dec_obj t p) (fun r => CTrue (VSome (fst r), snd r))))
    | FPlain =>
        if is_sizer fs i then
          (* do_decode_resize<E, CT>(x.array, pos, end, max) *)
          match t with
          | TScalar k =>
              cbind (cpp_dec_scalar t pos) (fun r =>
              let n := size_t (match fst r with VInt z => z | _ => 0 end) in
              let maxn := fold_right (fun g acc => match fst g with FLimited lim s => if Nat.eqb s i then lim else acc | _ => acc end) (2 ^ 64 - 1) fs in
              if maxn <? n then CFalse
              else if remaining (snd r) <? n then CFalse
              else CTrue (VInt n, snd r))
          | _ => CCrash
          end
        else cpp_dec_obj t pos
    end.

  Fixpoint cpp_dec_fields (fuel : nat) (all_fs : list field) (fs : list field) (ms : list pcm) (ps : list Z) (i : nat)
           (decoded : list value) (pos : Z) : cres (list value * Z) :=
    match fs, ms, ps with
    | f :: fr, m :: mr, p :: pr =>
        cbind (cpp_dec_member fuel all_fs decoded i f m pos) (fun r =>
        cbind (if p <? 0 then cpp_align_to (- p) (snd r) else if 0 <? p then cpp_advance p (snd r) else CTrue (snd r)) (fun pos' =>
        cpp_dec_fields fuel all_fs fr mr pr (S i) (decoded ++ [fst r]) pos'))
    | _, _, _ => CTrue (decoded, pos)
    end.

  Fixpoint cpp_dec_arm (arms : list (Z * ty)) (i : nat) (disc : Z) (pos : Z) : cres value :=
    match arms with
    | [] => CFalse                                             (* default: return false *)
    | a :: r =>
        if fst a =? disc
        then cbind (cpp_dec_obj (snd a) pos) (fun x => CTrue (VUnion i (fst x)))   (* do_decode_in_place *)
        else cpp_dec_arm r (S i) disc pos
    end.
End CppDec.

Fixpoint cpp_dec (e : endian) (data : bytes) (fuel : nat) (t : ty) (pos : Z) {struct t} : cres (value * Z) :=
  match t with
  | TStruct fs =>
      cbind (cpp_dec_fields e data (cpp_dec e data fuel) fuel fs fs (map (pc_member pc_size pc_align pc_kind) fs)
                            (pc_paddings fs) 0 [] pos) (fun r => CTrue (VStruct (fst r), snd r))
  | TUnion arms =>
      let discpad := if pc_disc_size <? pc_align t then pc_align t - pc_disc_size else 0 in
      cbind (cpp_dec_scalar e data (TEnum []) pos) (fun d =>
      cbind (if 0 <? discpad then cpp_advance data discpad (snd d) else CTrue (snd d)) (fun p =>
      cbind (cpp_dec_arm e data (cpp_dec e data fuel) arms 0 (match fst d with VInt z => z | _ => 0 end) p) (fun v =>
      cbind (cpp_advance data (pc_size t - pc_disc_size - discpad) p) (fun q => CTrue (v, q)))))
  | _ => CCrash
  end.

(* message<T>::decode<E>(data, size): success && bytes_read == size *)
Definition cpp_decode (e : endian) (t : ty) (data : bytes) : cres value :=
  match cpp_dec e data (S (length data)) t 0 with
  | CTrue (v, p) => if p =? len data then CTrue v else CFalse
  | CFalse => CFalse
  | CCrash => CCrash
  end.
