(* proofs/Arith.v — list/length/zeros and alignment arithmetic lemmas. *)
From Coq Require Import ZArith List Bool Lia ZifyBool.
From Prophy Require Import Bytes.
Import ListNotations.
Local Open Scope Z_scope.
Ltac Zify.zify_post_hook ::= Z.to_euclidean_division_equations.

Definition okal (a : Z) : Prop := a = 1 \/ a = 2 \/ a = 4 \/ a = 8.

Lemma len_app {A} (a b : list A) : len (a ++ b) = len a + len b.
Proof. unfold len. rewrite app_length. lia. Qed.
Lemma len_nonneg {A} (a : list A) : 0 <= len a.
Proof. unfold len; lia. Qed.
Lemma len_nil {A} : len (@nil A) = 0. Proof. reflexivity. Qed.
Lemma len_cons {A} (x : A) l : len (x :: l) = 1 + len l.
Proof. unfold len; cbn [length]; lia. Qed.
Lemma len_zeros n : 0 <= n -> len (zeros n) = n.
Proof. intros; unfold len, zeros. rewrite repeat_length. lia. Qed.
Lemma len_zeros_neg n : n <= 0 -> zeros n = [].
Proof. intros; unfold zeros. destruct n; try reflexivity; lia. Qed.
Lemma zeros_0 : zeros 0 = []. Proof. reflexivity. Qed.
Lemma zeros_add a b : 0 <= a -> 0 <= b -> zeros (a + b) = zeros a ++ zeros b.
Proof. intros; unfold zeros. rewrite Z2Nat.inj_add by lia. apply repeat_app. Qed.
Lemma len_le w z : len (le w z) = Z.of_nat w.
Proof.
  revert z; induction w as [|w IH]; intros z; cbn [le]; [reflexivity|].
  rewrite len_cons, IH. lia.
Qed.
Lemma len_rev {A} (l : list A) : len (rev l) = len l.
Proof. unfold len. rewrite rev_length. reflexivity. Qed.
Lemma len_enc_int e w z : 0 <= w -> len (enc_int e w z) = w.
Proof. intros; destruct e; unfold enc_int, be; rewrite ?len_rev, len_le; lia. Qed.
Lemma len_map {A B} (f : A -> B) l : len (map f l) = len l.
Proof. unfold len. rewrite map_length. reflexivity. Qed.

Lemma ljust_exact b n : len b = n -> ljust b n = b.
Proof. intros H. unfold ljust. rewrite len_zeros_neg by lia. apply app_nil_r. Qed.
Lemma len_ljust b n : len b <= n -> len (ljust b n) = n.
Proof. intros; unfold ljust. pose proof (len_nonneg b). rewrite len_app, len_zeros by lia. lia. Qed.

Lemma okal_pos a : okal a -> 0 < a. Proof. unfold okal; lia. Qed.
Lemma okal_max a b : okal a -> okal b -> okal (Z.max a b).
Proof. unfold okal; lia. Qed.
Lemma okal_1 : okal 1. Proof. unfold okal; lia. Qed.
Lemma okal_4 : okal 4. Proof. unfold okal; lia. Qed.

Lemma pad_range a n : okal a -> 0 <= pad a n < a.
Proof. unfold okal, pad; intros [->|[->|[->| ->]]]; lia. Qed.
Lemma pad_nonneg a n : okal a -> 0 <= pad a n.
Proof. intros H; pose proof (pad_range a n H); lia. Qed.
Lemma pad_aligned a n : okal a -> (n + pad a n) mod a = 0.
Proof. unfold okal, pad; intros [->|[->|[->| ->]]]; lia. Qed.
Lemma pad_zero a n : okal a -> n mod a = 0 -> pad a n = 0.
Proof. unfold okal, pad; intros [->|[->|[->| ->]]]; lia. Qed.
Lemma pad_shift a b base n : okal a -> okal b -> a <= b -> base mod b = 0 -> pad a (base + n) = pad a n.
Proof. unfold okal, pad; intros [->|[->|[->| ->]]] [->|[->|[->| ->]]]; lia. Qed.
Lemma pad_split a b o : okal a -> okal b -> a <= b -> pad b o = pad a o + pad b (o + pad a o).
Proof. unfold okal, pad; intros [->|[->|[->| ->]]] [->|[->|[->| ->]]]; lia. Qed.
Lemma mod_down a b n : okal a -> okal b -> a <= b -> n mod b = 0 -> n mod a = 0.
Proof. unfold okal; intros [->|[->|[->| ->]]] [->|[->|[->| ->]]]; lia. Qed.
Lemma add_mod_keep a o n : okal a -> o mod a = 0 -> n mod a = 0 -> (o + n) mod a = 0.
Proof. unfold okal; intros [->|[->|[->| ->]]]; lia. Qed.
Lemma mul_mod_keep a n k : okal a -> n mod a = 0 -> (k * n) mod a = 0.
Proof.
  intros Ha H. apply Z.mod_divide in H; [|pose proof (okal_pos a Ha); lia].
  destruct H as [q ->]. rewrite Z.mul_assoc. apply Z.mod_mul. pose proof (okal_pos a Ha); lia.
Qed.
Lemma self_mod a : okal a -> a mod a = 0.
Proof. unfold okal; intros [->|[->|[->| ->]]]; reflexivity. Qed.
Lemma max_mod a b : okal a -> okal b -> (Z.max a b) mod a = 0.
Proof. unfold okal; intros [->|[->|[->| ->]]] [->|[->|[->| ->]]]; reflexivity. Qed.
Lemma mod_1 n : n mod 1 = 0. Proof. apply Z.mod_1_r. Qed.
