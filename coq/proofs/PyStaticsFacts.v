(* proofs/PyStaticsFacts.v — the class attributes the Python runtime derives equal what the
   documented layout rules imply (the Python part of C04). *)
From Coq Require Import ZArith List Bool Lia ZifyBool.
From Prophy Require Import Bytes Schema Layout Wire Src PyStatics Arith SpecAlign Views SpecLen SrcFacts.
Import ListNotations.
Local Open Scope Z_scope.
Ltac Zify.zify_post_hook ::= Z.to_euclidean_division_equations.

(* ---- _ALIGNMENT ---- *)
Lemma fold_left_max {A} (h : A -> Z) l init : 1 <= init ->
  fold_left (fun acc g => Z.max acc (h g)) l init
  = Z.max init (fold_right (fun g acc => Z.max (h g) acc) 1 l).
Proof.
  revert init. induction l as [|x r IH]; intros init Hi; cbn [fold_left fold_right]; [lia|].
  rewrite IH by lia. lia.
Qed.

Lemma fold_left_max0 {A} (h : A -> Z) l init b : b <= init ->
  fold_left (fun acc g => Z.max acc (h g)) l init
  = Z.max init (fold_right (fun g acc => Z.max (h g) acc) b l).
Proof.
  revert init. induction l as [|x r IH]; intros init Hi; cbn [fold_left fold_right]; [lia|].
  rewrite IH by lia. lia.
Qed.

Lemma py_falign_eq f : py_align (snd f) = align (snd f) -> py_falign py_align f = falign align f.
Proof.
  intros H. unfold py_falign, py_ftype_alignment, falign.
  rewrite py_field_alignment_spec, py_opt_alignment_spec, H.
  destruct (fst f); try reflexivity; destruct (snd f); rewrite ?py_array_alignment_spec; reflexivity.
Qed.

Theorem py_align_eq t : py_align t = align t.
Proof.
  induction t as [k| |vals|fs IH|arms IH] using ty_ind'; cbn [py_align align].
  - rewrite py_num_alignment_spec. apply py_size_spec.
  - reflexivity.
  - rewrite py_num_alignment_spec, py_enum_base_spec. reflexivity.
  - change (fkind * ty)%type with field in *.
    destruct IH as [|f r Hf Hr]; [reflexivity|]. unfold py_salign.
    pose proof (falign_ok f) as Hok. apply okal_pos in Hok.
    rewrite fold_left_max by (rewrite (py_falign_eq f Hf); lia).
    rewrite salign_cons, (py_falign_eq f Hf). f_equal. unfold salign.
    clear -Hr. induction Hr as [|g r Hg Hr IH]; [reflexivity|]. cbn [fold_right].
    rewrite (py_falign_eq g Hg), IH. reflexivity.
  - rewrite py_union_alignment_spec. destruct IH as [|a r Ha Hr]; [reflexivity|].
    unfold py_max_arm_align. rewrite (fold_left_max0 (fun b => py_align (snd b)) r _ 0).
    2:{ rewrite Ha. pose proof (align_ok (snd a)) as H. apply okal_pos in H. lia. }
    cbn [ualign fold_right]. rewrite Ha.
    assert (E : fold_right (fun g acc => Z.max (py_align (snd g)) acc) 0 r <= fold_right (fun a0 acc => Z.max (align (snd a0)) acc) 4 r
                /\ Z.max 4 (fold_right (fun g acc => Z.max (py_align (snd g)) acc) 0 r) = fold_right (fun a0 acc => Z.max (align (snd a0)) acc) 4 r).
    { clear -Hr. induction Hr as [|g r Hg Hr IH]; cbn [fold_right]; [lia|]. rewrite Hg. lia. }
    lia.
Qed.

Lemma py_falign_eq' f : py_falign py_align f = falign align f.
Proof. apply py_falign_eq, py_align_eq. Qed.

Lemma py_salign_eq fs : py_salign py_align fs = salign align fs.
Proof. apply (py_align_eq (TStruct fs)). Qed.

(* ---- _DYNAMIC / _UNLIMITED ---- *)
Lemma stiff_fields_fixed fs :
  stiff_eqb (stiff_fields stiffness fs) Fixed = negb (existsb (fun f => negb (stiff_eqb (fstiff stiffness f) Fixed)) fs).
Proof.
  induction fs as [|f r IH]; [reflexivity|]. cbn [stiff_fields fold_right existsb].
  unfold stiff_fields in IH. rewrite negb_orb, <- IH, negb_involutive.
  destruct (fstiff stiffness f), (fold_right _ Fixed r); reflexivity.
Qed.

Theorem py_dynamic_eq t : py_dynamic t = negb (is_fixed t).
Proof.
  induction t as [k| |vals|fs IH|arms IH] using ty_ind'; try reflexivity.
  cbn [py_dynamic]. unfold is_fixed. cbn [stiffness]. rewrite stiff_fields_fixed, negb_involutive.
  induction IH as [|f r Hf Hr IHr]; [reflexivity|]. cbn [existsb]. rewrite IHr. f_equal.
  unfold py_fdynamic, fstiff. destruct (fst f); try reflexivity. rewrite Hf. unfold is_fixed. reflexivity.
Qed.

Lemma py_fdynamic_eq f : py_fdynamic py_dynamic f = ends_block f.
Proof.
  unfold py_fdynamic, ends_block, fstiff. destruct (fst f); try reflexivity.
  rewrite py_dynamic_eq. reflexivity.
Qed.

Lemma stiff_fields_unl fs :
  stiff_eqb (stiff_fields stiffness fs) Unlimited = existsb (fun f => stiff_eqb (fstiff stiffness f) Unlimited) fs.
Proof.
  induction fs as [|f r IH]; [reflexivity|]. cbn [stiff_fields fold_right existsb].
  unfold stiff_fields in IH. rewrite <- IH.
  destruct (fstiff stiffness f), (fold_right _ Fixed r); reflexivity.
Qed.

Theorem py_unlimited_eq t : py_unlimited t = stiff_eqb (stiffness t) Unlimited.
Proof.
  induction t as [k| |vals|fs IH|arms IH] using ty_ind'; try reflexivity.
  cbn [py_unlimited stiffness]. rewrite stiff_fields_unl.
  induction IH as [|f r Hf Hr IHr]; [reflexivity|]. cbn [existsb]. rewrite IHr. f_equal.
  unfold py_funlimited, fstiff. destruct (fst f); try reflexivity. exact Hf.
Qed.

(* ---- the reversed scan computes the forward block alignment ---- *)
Lemma py_scan_blockal fs : snd (py_scan fs) = blockal fs.
Proof.
  induction fs as [|f r IH]; cbn [py_scan blockal]; [reflexivity|].
  destruct (py_scan r) as [ps a]. cbn [snd] in IH. subst a.
  rewrite py_fdynamic_eq, py_falign_eq'. pose proof (falign_ok f) as Hk. apply okal_pos in Hk.
  destruct (ends_block f); cbn [snd]; lia.
Qed.

Lemma py_scan_cons f r :
  py_scan (f :: r) =
  if ends_block f then (Some (blockal r) :: fst (py_scan r), falign align f)
  else (None :: fst (py_scan r), Z.max (falign align f) (blockal r)).
Proof.
  cbn [py_scan]. pose proof (py_scan_blockal r) as H. destruct (py_scan r) as [ps a]. cbn [snd fst] in *. subst a.
  rewrite py_fdynamic_eq, py_falign_eq'. pose proof (falign_ok f) as Hk. apply okal_pos in Hk.
  destruct (ends_block f); f_equal; lia.
Qed.

(* ---- _SIZE of fixed types ---- *)
Definition szP (t : ty) : Prop := legal t = true -> is_fixed t = true -> py_sizeof t = size t.

Lemma py_fsize_eq f : szP (snd f) -> fok f -> fstiff stiffness f = Fixed -> py_fsize py_sizeof f = fsize size f.
Proof.
  intros HP [Hl Hk] Hf. unfold py_fsize, py_ftype_size, fsize, fstiff in *.
  destruct (fst f) eqn:Ek; try discriminate.
  - apply HP; [assumption|]. unfold is_fixed. rewrite Hf. reflexivity.
  - destruct Hk as [_ Hfx]. rewrite py_opt_size_spec, py_opt_alignment_spec, py_align_eq, (HP Hl Hfx).
    unfold falign. rewrite Ek. reflexivity.
  - destruct Hk as [_ Hfx]. rewrite (HP Hl Hfx).
    destruct (snd f); rewrite ?py_array_size_spec; cbn [size]; lia.
  - destruct Hk as [_ Hfx]. rewrite (HP Hl Hfx).
    destruct (snd f); rewrite ?py_array_size_spec; cbn [size]; lia.
Qed.

Lemma py_padded_cons s sr a ar o :
  py_padded (s :: sr) (a :: ar) o = py_padded sr ar (o + s + py_dist (o + s) a).
Proof. reflexivity. Qed.

Lemma py_padded_eq sa : okal sa -> forall fs, fs <> [] ->
  Forall (fun f => szP (snd f)) fs -> Forall fok fs -> Forall (fun f => fstiff stiffness f = Fixed) fs ->
  forall o, pad (falign align (hd (FPlain, TByte) fs)) o = 0 ->
  py_padded (map (py_fsize py_sizeof) fs) (map (py_falign py_align) (tl fs) ++ [sa]) o
  = let e := sz_fields size fs false o in e + pad sa e.
Proof.
  intros Hsa fs. induction fs as [|f r IH]; intros Hne HP Hok Hfx o Ho; [congruence|].
  inversion HP as [|? ? HPf HPr]; subst. inversion Hok as [|? ? Hokf Hokr]; subst.
  inversion Hfx as [|? ? Hff Hfr]; subst. cbn [hd] in Ho.
  cbn [map tl]. destruct r as [|g r'].
  - cbn [map app py_padded sz_fields]. cbn zeta. rewrite Ho, (py_fsize_eq f HPf Hokf Hff), py_dist_pad by assumption.
    replace (o + 0 + fsize size f) with (o + fsize size f) by lia. reflexivity.
  - cbn [map app]. rewrite py_padded_cons. rewrite (py_fsize_eq f HPf Hokf Hff), py_falign_eq', py_dist_pad by apply falign_ok.
    specialize (IH ltac:(discriminate) HPr Hokr Hfr (o + fsize size f + pad (falign align g) (o + fsize size f))).
    cbn [hd map tl] in IH. rewrite IH by (apply pad_zero; [apply falign_ok|apply pad_aligned, falign_ok]).
    assert (He : ends_block f = false) by (apply ends_block_false; exact Hff).
    cbn [sz_fields]. rewrite He, Ho. cbn zeta.
    rewrite (pad_zero (falign align g) (o + fsize size f + pad (falign align g) (o + fsize size f)))
      by (apply falign_ok || apply pad_aligned, falign_ok).
    replace (o + 0 + fsize size f) with (o + fsize size f) by lia.
    rewrite !Z.add_0_r. reflexivity.
Qed.

Theorem py_sizeof_eq t : szP t.
Proof.
  induction t as [k| |vals|fs IH|arms IH] using ty_ind'; intros Hl Hfx; cbn [py_sizeof size].
  - rewrite py_num_size_spec. apply py_size_spec.
  - reflexivity.
  - rewrite py_num_size_spec, py_enum_base_spec. reflexivity.
  - apply legal_struct in Hl. destruct Hl as [Hne Hok]. apply struct_fixed_all in Hfx.
    unfold py_struct_size. destruct fs as [|f r]; [congruence|].
    rewrite py_salign_eq.
    apply (py_padded_eq (salign align (f :: r)) (salign_ok _) (f :: r) Hne IH Hok Hfx 0).
    cbn [hd]. apply pad_zero; [apply falign_ok|reflexivity].
  - apply legal_union in Hl. destruct Hl as [Hne [Hok _]].
    change (py_union_alignment (py_max_arm_align py_align arms)) with (py_align (TUnion arms)).
    rewrite py_align_eq. cbn [align]. rewrite py_union_size_spec by apply ualign_ok.
    assert (E : py_max_arm_size py_sizeof arms = usize size arms).
    { destruct arms as [|a r]; [congruence|]. unfold py_max_arm_size.
      inversion IH as [|? ? Ha Hr]; subst. inversion Hok as [|? ? Hoa Hor]; subst.
      destruct Hoa as [_ [Hla [_ Hfa]]]. rewrite (Ha Hla Hfa).
      rewrite (fold_left_max0 (fun b => py_sizeof (snd b)) r _ 0) by (apply size_nonneg; assumption).
      cbn [usize fold_right]. f_equal.
      clear -Hr Hor. induction Hr as [|g r Hg Hr IHr]; [reflexivity|]. inversion Hor as [|? ? Hog Horr]; subst.
      cbn [fold_right]. destruct Hog as [_ [Hlg [_ Hfg]]]. rewrite (Hg Hlg Hfg), (IHr Horr). reflexivity. }
    rewrite E. reflexivity.
Qed.
