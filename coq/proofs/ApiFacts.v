(* proofs/ApiFacts.v — C10 (reference-model level): every state reachable through the API from
   a fresh message is valid: scalars in range, enums among their enumerators, fixed arrays
   full, limited arrays within their limit, unions holding the discriminated arm only,
   counters derived from the arrays — and a rejected operation leaves the state unchanged. *)
From Coq Require Import ZArith List Bool Lia ZifyBool.
From Prophy Require Import Bytes Schema Layout Wire Src PyStatics PyEncode ApiSpec Arith Views PyEncodeFacts.
Import ListNotations.
Local Open Scope Z_scope.

(* ---- scalar checks produce valid values ---- *)
Lemma check_scalar_valid t x v : check_scalar t x = Some v -> valid t v = true.
Proof.
  destruct t; cbn [check_scalar]; try discriminate.
  - destruct (sk_is_int k) eqn:Ei.
    + destruct (int_of x) as [z|]; [|discriminate]. destruct (in_range k z) eqn:Er; [|discriminate].
      intros H. injection H as <-. exact Er.
    + destruct x; try discriminate.
      * destruct ((w =? sk_size k) && in_range k bits) eqn:E; [|discriminate]. intros H. injection H as <-.
        apply andb_prop in E. apply E.
      * destruct ((sk_size k =? 8) && in_range k bits) eqn:E; [|discriminate]. intros H. injection H as <-.
        apply andb_prop in E. apply E.
  - destruct x; cbn [int_of];
      try (destruct (existsb _ vals) eqn:E; [|discriminate]; intros H; injection H as <-; exact E);
      try discriminate.
    destruct (k <? 0); [discriminate|]. destruct (nth_error vals (Z.to_nat k)) as [z|] eqn:En; [|discriminate].
    intros H. injection H as <-. cbn [valid]. apply existsb_exists. exists z. split; [eapply nth_error_In; exact En|apply Z.eqb_refl].
Qed.

Lemma check_all_valid t xs vs : check_all t xs = Some vs -> forallb (valid t) vs = true /\ len vs = len xs.
Proof.
  revert vs. induction xs as [|x r IH]; intros vs H; cbn [check_all] in H.
  - injection H as <-. split; reflexivity.
  - destruct (check_scalar t x) as [v|] eqn:E; [|discriminate]. destruct (check_all t r) as [vr|]; [|discriminate].
    injection H as <-. destruct (IH vr eq_refl) as [H1 H2]. cbn [forallb]. rewrite (check_scalar_valid _ _ _ E), H1.
    split; [reflexivity|]. rewrite !len_cons, H2. reflexivity.
Qed.

(* ---- list surgery keeps element validity ---- *)
Lemma forallb_app' {A} (p : A -> bool) a b : forallb p (a ++ b) = forallb p a && forallb p b.
Proof. induction a as [|x a IH]; cbn [app forallb]; [reflexivity|]. rewrite IH, andb_assoc. reflexivity. Qed.
Lemma forallb_firstn {A} (p : A -> bool) n l : forallb p l = true -> forallb p (firstn n l) = true.
Proof. revert n. induction l as [|x l IH]; intros [|n] H; cbn [firstn forallb] in *; try reflexivity. apply andb_prop in H. destruct H as [H1 H2]. rewrite H1, (IH n H2). reflexivity. Qed.
Lemma forallb_skipn {A} (p : A -> bool) n l : forallb p l = true -> forallb p (skipn n l) = true.
Proof. revert n. induction l as [|x l IH]; intros [|n] H; cbn [skipn forallb] in *; try reflexivity; try assumption. apply andb_prop in H. destruct H as [H1 H2]. apply IH; assumption. Qed.

Lemma len_take {A} n (l : list A) : 0 <= n <= len l -> len (take n l) = n.
Proof. intros H. unfold take, len in *. rewrite firstn_length. lia. Qed.
Lemma len_drop {A} n (l : list A) : 0 <= n <= len l -> len (drop n l) = len l - n.
Proof. intros H. unfold drop, len in *. rewrite skipn_length. lia. Qed.

Lemma norm_index_range n idx i : norm_index n idx = Some i -> 0 <= i < n.
Proof. unfold norm_index. destruct ((0 <=? _) && (_ <? n)) eqn:E; [|discriminate]. intros H. injection H as <-. lia. Qed.

Lemma clamp_range n i : 0 <= n -> 0 <= clamp n i <= n.
Proof. intros Hn. unfold clamp. destruct (i <? 0) eqn:E1; [lia|]. destruct (n <? i) eqn:E2; lia. Qed.

Lemma slice_bounds_range n a b lo hi : 0 <= n -> slice_bounds n a b = (lo, hi) -> 0 <= lo <= hi /\ hi <= n.
Proof.
  intros Hn. unfold slice_bounds. intros H. injection H as <- <-.
  assert (Ha : 0 <= match a with None => 0 | Some x => clamp n (if x <? 0 then x + n else x) end <= n)
    by (destruct a; [apply clamp_range; assumption|lia]).
  assert (Hb : 0 <= match b with None => n | Some x => clamp n (if x <? 0 then x + n else x) end <= n)
    by (destruct b; [apply clamp_range; assumption|lia]).
  destruct (_ <? _) eqn:E; lia.
Qed.

(* counters are plain scalar members *)
Lemma sizer_is_scalar fs i : legal (TStruct fs) = true -> is_sizer fs i = true ->
  exists k, nth_error fs i = Some (FPlain, TScalar k).
Proof.
  intros Hl Hs. cbn [legal] in Hl. destruct fs as [|f0 r0]; [discriminate|].
  destruct (PyEncodeFacts.legal_sizer [] _ Hl i Hs) as [ts [Hn Hi]]. cbn [app] in Hn. destruct ts; try discriminate. eauto.
Qed.

(* ---- defaults are valid ---- *)
Lemma fbl_default i fs : existsb (bound_to i) fs = true ->
  first_bound_len i fs (map (default_field default) fs) = Some 0.
Proof.
  induction fs as [|f r IH]; cbn [existsb map first_bound_len]; [discriminate|].
  destruct (bound_to i f) eqn:Eb.
  - intros _. unfold bound_to in Eb. unfold default_field. destruct (fst f); cbn [sizer_of] in Eb; try discriminate; reflexivity.
  - cbn [orb]. exact IH.
Qed.

Lemma forallb_repeat {A} (p : A -> bool) x n : p x = true -> forallb p (repeat x n) = true.
Proof. intros H. induction n as [|n IH]; cbn [repeat forallb]; [reflexivity|]. rewrite H, IH. reflexivity. Qed.

Lemma in_range_0 k : in_range k 0 = true.
Proof. unfold in_range, sk_min, sk_max. destruct k; cbn; reflexivity. Qed.

Lemma default_valid t : legal t = true -> valid t (default t) = true.
Proof.
  induction t as [k| |vals|fs IH|arms IH] using ty_ind'; intros Hl; cbn [default valid].
  - apply in_range_0.
  - reflexivity.
  - cbn [legal] in Hl. destruct vals as [|z r]; [discriminate|]. cbn [hd existsb]. rewrite Z.eqb_refl. reflexivity.
  - pose proof Hl as Hl0. apply legal_struct in Hl. destruct Hl as [Hne Hok].
    assert (Hsizers : forall i, is_sizer fs i = true -> exists k, nth_error fs i = Some (FPlain, TScalar k)).
    { intros i Hs. cbn [legal] in Hl0. destruct fs as [|f0 r0]; [congruence|].
      destruct (PyEncodeFacts.legal_sizer [] _ Hl0 i Hs) as [ts [Hn Hi]]. cbn [app] in Hn. destruct ts; try discriminate. eauto. }
    assert (G : forall sfx pre, fs = pre ++ sfx -> Forall (fun f => legal (snd f) = true -> valid (snd f) (default (snd f)) = true) sfx ->
                Forall fok sfx ->
                valid_fields valid fs (map (default_field default) fs) (length pre) sfx (map (default_field default) sfx) = true).
    { induction sfx as [|f r IHr]; intros pre E HI Hk; [reflexivity|].
      pose proof (Forall_inv HI) as Hdf. pose proof (Forall_inv_tail HI) as IHt. cbn beta in Hdf.
      pose proof (Forall_inv Hk) as Hf. pose proof (Forall_inv_tail Hk) as Hkr.
      cbn [map valid_fields].
      specialize (IHr (pre ++ [f]) ltac:(rewrite E, <- app_assoc; reflexivity) IHt Hkr).
      rewrite app_length in IHr. cbn [length] in IHr. replace (length pre + 1)%nat with (S (length pre)) in IHr by lia.
      rewrite IHr, andb_true_r.
      destruct Hf as [Hlf Hkf]. specialize (Hdf Hlf).
      unfold valid_member.
      destruct (is_sizer fs (length pre)) eqn:Es; [rewrite (fbl_default _ _ Es)|]; unfold default_field, wt_field.
      - destruct (Hsizers _ Es) as [k Hn]. rewrite E, nth_error_app2, Nat.sub_diag in Hn by lia. cbn in Hn. injection Hn as ->. reflexivity.
      - destruct (fst f); try reflexivity.
        + exact Hdf.
        + destruct Hkf as [Hn _]. rewrite forallb_repeat by exact Hdf. unfold len. rewrite repeat_length.
          assert (E2 : (Z.of_nat (Z.to_nat n) =? n) = true) by lia. rewrite E2. reflexivity.
        + destruct Hkf as [Hn _]. cbn [forallb]. assert (E2 : (len (@nil value) <=? n) = true) by (unfold len; cbn; lia). rewrite E2. reflexivity. }
    apply (G fs [] eq_refl IH Hok).
  - apply legal_union in Hl. destruct Hl as [Hne [Hok _]].
    destruct arms as [|a r]; [congruence|]. cbn [default_arm valid valid_arms].
    pose proof (Forall_inv IH) as Ha. pose proof (Forall_inv Hok) as Hoa. cbn beta in Ha. apply Ha. apply Hoa.
Qed.

(* ---- an operation on an array member keeps the member valid ---- *)
Definition len_ok (k : fkind) (m : Z) : Prop :=
  match k with FFixed n => m = n | FLimited n _ => m <= n | FBound _ | FGreedy => True | _ => False end.

Definition arr_ok (f : field) (xs : list value) : Prop :=
  forallb (valid (snd f)) xs = true /\ len_ok (fst f) (len xs).

Lemma valid_not_list t xs : valid t (VList xs) = false.
Proof. destruct t; reflexivity. Qed.

Lemma arr_ok_wt f xs : wt_field valid f (VList xs) = true <-> arr_ok f xs.
Proof.
  unfold arr_ok, wt_field, len_ok. destruct (fst f).
  - rewrite valid_not_list. split; [discriminate|intros [_ []]].
  - split; [discriminate|intros [_ []]].
  - rewrite andb_true_iff. split; intros [H1 H2]; split; try assumption; lia.
  - split; [intros H; split; [exact H|exact I]|intros [H _]; exact H].
  - rewrite andb_true_iff. split; intros [H1 H2]; split; try assumption; lia.
  - split; [intros H; split; [exact H|exact I]|intros [H _]; exact H].
Qed.

Lemma over_limit_ok k m : over_limit k m = false -> (forall n, k <> FFixed n) -> is_array_kind k = true ->
  (match k with FLimited n _ => 0 < n | _ => True end) -> len_ok k m.
Proof.
  unfold over_limit, len_ok. destruct k; cbn [max_len is_array_kind]; intros H Hf Ha Hn; try discriminate; try exact I.
  - exfalso. apply (Hf n). reflexivity.
  - lia.
Qed.

Lemma len_ok_le k m m' : len_ok k m -> m' <= m -> (forall n, k <> FFixed n) -> len_ok k m'.
Proof. unfold len_ok. destruct k; intros H Hle Hf; try assumption; try lia. exfalso. apply (Hf n). reflexivity. Qed.

Lemma fixed_flag k : (match k with FFixed _ => true | _ => false end) = false -> forall n, k <> FFixed n.
Proof. intros H n E. rewrite E in H. discriminate. Qed.

Lemma forallb_splice {A} (p : A -> bool) (xs mid : list A) i j :
  forallb p xs = true -> forallb p mid = true -> forallb p (take i xs ++ mid ++ drop j xs) = true.
Proof.
  intros H1 H2. unfold take, drop. rewrite !forallb_app', forallb_firstn, forallb_skipn, H2 by assumption. reflexivity.
Qed.

Lemma remove_first_sub v eqb l r : remove_first v eqb l = Some r ->
  len r = len l - 1 /\ forall p : value -> bool, forallb p l = true -> forallb p r = true.
Proof.
  revert r. induction l as [|x l IH]; intros r; cbn [remove_first]; [discriminate|].
  destruct (eqb x v).
  - intros H. injection H as <-. rewrite len_cons. split; [lia|]. intros p Hp. cbn [forallb] in Hp. apply andb_prop in Hp. apply Hp.
  - destruct (remove_first v eqb l) as [r'|]; [|discriminate]. intros H. injection H as <-.
    destruct (IH r' eq_refl) as [Hl Hp]. rewrite !len_cons. split; [lia|].
    intros p Hx. cbn [forallb] in *. apply andb_prop in Hx. destruct Hx as [Hx1 Hx2]. rewrite Hx1, (Hp p Hx2). reflexivity.
Qed.

Lemma kind_pos f : fok f -> match fst f with FLimited n _ => 0 < n | _ => True end.
Proof. intros [_ Hk]. destruct (fst f); try exact I. apply Hk. Qed.

Lemma array_op_valid f xs o nv : fok f -> is_array_kind (fst f) = true -> arr_ok f xs ->
  array_op f xs o = ADone nv -> wt_field valid f nv = true.
Proof.
  intros Hf Hak [Hall Hlen]. pose proof (kind_pos f Hf) as Hpos. destruct Hf as [Hl _].
  pose proof (len_nonneg xs) as Hn0.
  unfold array_op. cbn zeta.
  destruct (match snd f with TByte => true | _ => false end); [discriminate|].
  destruct o as [fi x|x|fi x|fi idx x|fi x|fi idx x|fi a b step x|fi idx|fi a b|fi x|fi|fi vs]; try discriminate.
  - (* append *)
    destruct (_ || _) eqn:Ef; [discriminate|]. apply orb_false_iff in Ef. destruct Ef as [Ef _].
    destruct (check_scalar (snd f) x) as [v|] eqn:Ec; [|discriminate].
    destruct (over_limit _ _) eqn:Eo; [discriminate|]. intros H. injection H as <-.
    apply arr_ok_wt. split.
    + rewrite forallb_app'. cbn [forallb]. rewrite Hall, (check_scalar_valid _ _ _ Ec). reflexivity.
    + rewrite len_app, len_cons, len_nil. replace (len xs + (1 + 0)) with (len xs + 1) by lia.
      apply over_limit_ok; try assumption. apply fixed_flag. exact Ef.
  - (* insert *)
    destruct (_ || _) eqn:Ef; [discriminate|]. apply orb_false_iff in Ef. destruct Ef as [Ef _].
    destruct (check_scalar (snd f) x) as [v|] eqn:Ec; [|discriminate].
    destruct (over_limit _ _) eqn:Eo; [discriminate|]. intros H. injection H as <-.
    set (i := clamp (len xs) _). assert (Hi : 0 <= i <= len xs) by (apply clamp_range; assumption).
    apply arr_ok_wt. split.
    + apply (forallb_splice _ xs [v] i i Hall). cbn [forallb]. rewrite (check_scalar_valid _ _ _ Ec). reflexivity.
    + rewrite len_app, len_cons, len_take, len_drop by assumption.
      replace (i + (1 + (len xs - i))) with (len xs + 1) by lia.
      apply over_limit_ok; try assumption. apply fixed_flag. exact Ef.
  - (* extend *)
    destruct (_ || _) eqn:Ef; [discriminate|]. apply orb_false_iff in Ef. destruct Ef as [Ef _].
    destruct (seq_items x) as [items|] eqn:Es.
    + destruct (over_limit _ _) eqn:Eo; [discriminate|].
      destruct (check_all (snd f) items) as [vs|] eqn:Ec; [|discriminate]. intros H. injection H as <-.
      destruct (check_all_valid _ _ _ Ec) as [Hv Hlv]. apply arr_ok_wt. split.
      * rewrite forallb_app', Hall, Hv. reflexivity.
      * rewrite len_app, Hlv. apply over_limit_ok; try assumption. apply fixed_flag. exact Ef.
    + assert (G : ADone (VList xs) = ADone nv -> wt_field valid f nv = true) by (intros H; injection H as <-; apply arr_ok_wt; split; assumption).
      destruct x as [z|b|w bits|bits|k|bs| |l|l]; try discriminate; try exact G.
      * destruct z; try discriminate; exact G.
      * destruct b; try discriminate; exact G.
      * destruct bs; try discriminate; exact G.
  - (* setitem *)
    destruct (is_comp (snd f)); [discriminate|].
    destruct (check_scalar (snd f) x) as [v|] eqn:Ec; [|discriminate].
    destruct (norm_index (len xs) idx) as [i|] eqn:En; [|discriminate]. intros H. injection H as <-.
    apply norm_index_range in En. apply arr_ok_wt. split.
    + apply (forallb_splice _ xs [v] i (i + 1) Hall). cbn [forallb]. rewrite (check_scalar_valid _ _ _ Ec). reflexivity.
    + rewrite len_app, len_cons, len_take, len_drop by lia.
      replace (i + (1 + (len xs - (i + 1)))) with (len xs) by lia. exact Hlen.
  - (* setslice *)
    destruct (is_comp (snd f)); [discriminate|].
    destruct step as [s|]; [destruct (s =? 1); discriminate|].
    destruct (seq_items x) as [items|]; [|discriminate].
    destruct (slice_bounds (len xs) a b) as [lo hi] eqn:Esb.
    destruct (slice_bounds_range _ _ _ _ _ Hn0 Esb) as [Hlo Hhi].
    assert (G : forall vs, check_all (snd f) items = Some vs ->
                len_ok (fst f) (len xs + len items - (hi - lo)) ->
                arr_ok f (take lo xs ++ vs ++ drop hi xs)).
    { intros vs Ec Hk. destruct (check_all_valid _ _ _ Ec) as [Hv Hlv]. split.
      - apply forallb_splice; assumption.
      - rewrite !len_app, len_take, len_drop, Hlv by lia.
        replace (lo + (len items + (len xs - hi))) with (len xs + len items - (hi - lo)) by lia. exact Hk. }
    destruct (match fst f with FFixed _ => true | _ => false end) eqn:Ef.
    + destruct (negb _) eqn:En; [discriminate|].
      destruct (check_all (snd f) items) as [vs|] eqn:Ec; [|discriminate]. intros H. injection H as <-. apply arr_ok_wt.
      apply (G vs eq_refl). apply negb_false_iff in En.
      replace (len xs + len items - (hi - lo)) with (len xs) by lia. exact Hlen.
    + destruct (over_limit _ _) eqn:Eo; [discriminate|].
      destruct (check_all (snd f) items) as [vs|] eqn:Ec; [|discriminate]. intros H. injection H as <-. apply arr_ok_wt.
      apply (G vs eq_refl). apply over_limit_ok; try assumption. apply fixed_flag. exact Ef.
  - (* delitem *)
    destruct (match fst f with FFixed _ => true | _ => false end) eqn:Ef; [discriminate|].
    destruct (norm_index (len xs) idx) as [i|] eqn:En; [|discriminate]. intros H. injection H as <-.
    apply norm_index_range in En. apply arr_ok_wt. split.
    + apply (forallb_splice _ xs [] i (i + 1) Hall). reflexivity.
    + rewrite len_app, len_take, len_drop by lia. apply (len_ok_le _ (len xs)); [exact Hlen|lia|apply fixed_flag; exact Ef].
  - (* delslice *)
    destruct (match fst f with FFixed _ => true | _ => false end) eqn:Ef; [discriminate|].
    destruct (slice_bounds (len xs) a b) as [lo hi] eqn:Esb.
    destruct (slice_bounds_range _ _ _ _ _ Hn0 Esb) as [Hlo Hhi]. intros H. injection H as <-. apply arr_ok_wt. split.
    + apply (forallb_splice _ xs [] lo hi Hall). reflexivity.
    + rewrite len_app, len_take, len_drop by lia. apply (len_ok_le _ (len xs)); [exact Hlen|lia|apply fixed_flag; exact Ef].
  - (* remove *)
    destruct (_ || _) eqn:Ef; [discriminate|]. apply orb_false_iff in Ef. destruct Ef as [Ef _].
    destruct (match x, snd f with PStr _, TEnum _ => true | _, _ => false end); [discriminate|].
    destruct (check_scalar (snd f) x) as [v|]; [|discriminate].
    destruct (remove_first v vint_eqb xs) as [r|] eqn:Er; [|discriminate]. intros H. injection H as <-.
    destruct (remove_first_sub _ _ _ _ Er) as [Hlr Hpr]. apply arr_ok_wt. split.
    + apply Hpr. exact Hall.
    + apply (len_ok_le _ (len xs)); [exact Hlen|lia|apply fixed_flag; exact Ef].
  - (* add *)
    destruct (_ || _) eqn:Ef; [discriminate|]. apply orb_false_iff in Ef. destruct Ef as [Ef _].
    destruct (over_limit _ _) eqn:Eo; [discriminate|]. intros H. injection H as <-. apply arr_ok_wt. split.
    + rewrite forallb_app'. cbn [forallb]. rewrite Hall, default_valid by assumption. reflexivity.
    + rewrite len_app, len_cons, len_nil. replace (len xs + (1 + 0)) with (len xs + 1) by lia.
      apply over_limit_ok; try assumption. apply fixed_flag. exact Ef.
  - (* extend with copies *)
    destruct (_ || _) eqn:Ef; [discriminate|]. apply orb_false_iff in Ef. destruct Ef as [Ef Ev].
    apply orb_false_iff in Ef. destruct Ef as [Ef _]. apply negb_false_iff in Ev.
    destruct (over_limit _ _) eqn:Eo; [discriminate|]. intros H. injection H as <-. apply arr_ok_wt. split.
    + rewrite forallb_app', Hall, Ev. reflexivity.
    + rewrite len_app. apply over_limit_ok; try assumption. apply fixed_flag. exact Ef.
Qed.

(* ---- pointwise view of struct validity ---- *)
Lemma valid_fields_nth all allv i fs vs :
  valid_fields valid all allv i fs vs = true <->
  length fs = length vs /\
  forall j f v, nth_error fs j = Some f -> nth_error vs j = Some v ->
                valid_member valid (is_sizer all (i + j)) (first_bound_len (i + j) all allv) f v = true.
Proof.
  revert i vs. induction fs as [|f r IH]; intros i [|v vr]; cbn [valid_fields length].
  - split; [intros _; split; [reflexivity|]; intros [|j] ? ? H; discriminate H|reflexivity].
  - split; [discriminate|intros [H _]; discriminate H].
  - split; [discriminate|intros [H _]; discriminate H].
  - rewrite andb_true_iff, IH. split.
    + intros [H0 [Hlen Hr]]. split; [lia|]. intros [|j] f' v' Hf Hv; cbn [nth_error] in Hf, Hv.
      * injection Hf as <-. injection Hv as <-. rewrite Nat.add_0_r. exact H0.
      * replace (i + S j)%nat with (S i + j)%nat by lia. eapply Hr; eassumption.
    + intros [Hlen Hr]. split; [|split; [lia|]].
      * specialize (Hr O f v eq_refl eq_refl). rewrite Nat.add_0_r in Hr. exact Hr.
      * intros j f' v' Hf Hv. replace (S i + j)%nat with (i + S j)%nat by lia. apply Hr; assumption.
Qed.

Lemma nth_error_set_nth {A} (l : list A) i x j :
  nth_error (set_nth l i x) j = if Nat.eqb j i then (if Nat.ltb i (length l) then Some x else None) else nth_error l j.
Proof.
  revert i j. induction l as [|a l IH]; intros [|i] [|j]; cbn [set_nth nth_error length]; try reflexivity.
  - cbn [Nat.eqb]. destruct (Nat.eqb j i); reflexivity.
  - rewrite IH. cbn [Nat.eqb]. destruct (Nat.eqb j i); [|reflexivity].
    change (Nat.ltb (S i) (S (length l))) with (Nat.ltb i (length l)). reflexivity.
Qed.

Lemma length_set_nth {A} (l : list A) i x : length (set_nth l i x) = length l.
Proof. revert i. induction l as [|a l IH]; intros [|i]; cbn [set_nth length]; try reflexivity. rewrite IH. reflexivity. Qed.

Lemma nth_error_derive A V i vs j :
  nth_error (derive_counts A V i vs) j =
  option_map (fun v => if is_sizer A (i + j)
                       then match first_bound_len (i + j) A V with Some n => VInt n | None => v end
                       else v) (nth_error vs j).
Proof.
  revert i j. induction vs as [|v vr IH]; intros i [|j]; cbn [derive_counts nth_error option_map]; try reflexivity.
  - rewrite Nat.add_0_r. reflexivity.
  - rewrite IH. replace (S i + j)%nat with (i + S j)%nat by lia. reflexivity.
Qed.

Lemma length_derive A V i vs : length (derive_counts A V i vs) = length vs.
Proof. revert i. induction vs as [|v vr IH]; intros i; cbn [derive_counts length]; [reflexivity|]. rewrite IH. reflexivity. Qed.

(* arrays that name a counter are not counters themselves *)
Lemma bound_not_sizer fs p f j : legal (TStruct fs) = true -> nth_error fs p = Some f -> bound_to j f = true ->
  is_sizer fs p = false.
Proof.
  intros Hl Hf Hb. destruct (is_sizer fs p) eqn:Es; [|reflexivity].
  destruct (sizer_is_scalar _ _ Hl Es) as [k Hk].
  assert (E : Some f = Some (FPlain, TScalar k)) by (rewrite <- Hf; exact Hk). injection E as ->. discriminate Hb.
Qed.

Lemma fbl_derive_gen A V j fsuf : forall k vsuf,
  (forall p f, nth_error fsuf p = Some f -> bound_to j f = true -> is_sizer A (k + p) = false) ->
  first_bound_len j fsuf (derive_counts A V k vsuf) = first_bound_len j fsuf vsuf.
Proof.
  induction fsuf as [|f r IH]; intros k [|v vr] H; cbn [derive_counts first_bound_len]; try reflexivity.
  destruct (bound_to j f) eqn:Eb.
  - pose proof (H O f eq_refl Eb) as Hs. rewrite Nat.add_0_r in Hs. rewrite Hs. reflexivity.
  - apply IH. intros p f' Hf' Hb'. replace (S k + p)%nat with (k + S p)%nat by lia. apply (H (S p) f' Hf' Hb').
Qed.

Lemma fbl_some j fsuf : forall vsuf, existsb (bound_to j) fsuf = true -> length fsuf = length vsuf ->
  (forall p f v, nth_error fsuf p = Some f -> nth_error vsuf p = Some v -> bound_to j f = true -> exists xs, v = VList xs) ->
  exists n, first_bound_len j fsuf vsuf = Some n.
Proof.
  induction fsuf as [|f r IH]; intros [|v vr] He Hlen H; cbn [existsb length first_bound_len] in *; try discriminate.
  destruct (bound_to j f) eqn:Eb.
  - destruct (H O f v eq_refl eq_refl Eb) as [xs ->]. eauto.
  - cbn [orb] in He. apply IH; [exact He|lia|]. intros p f' v' Hf' Hv' Hb'. apply (H (S p) f' v' Hf' Hv' Hb').
Qed.

Lemma wt_field_list f v j : bound_to j f = true -> wt_field valid f v = true -> exists xs, v = VList xs.
Proof.
  unfold bound_to, wt_field. destruct (fst f); cbn [sizer_of]; try discriminate; intros _; destruct v; try discriminate; eauto.
Qed.

(* replacing one non-counter member by a valid value and re-deriving the counters keeps a struct valid *)
Lemma rebuild_valid fs vs i f nv :
  legal (TStruct fs) = true ->
  valid (TStruct fs) (VStruct vs) = true ->
  nth_error fs i = Some f -> is_sizer fs i = false -> wt_field valid f nv = true ->
  valid (TStruct fs) (rebuild fs (set_nth vs i nv)) = true.
Proof.
  intros Hl. cbn [valid]. unfold rebuild. rewrite !valid_fields_nth. intros [Hlen Hall] Hf Hs Hnv.
  split; [rewrite length_derive, length_set_nth; exact Hlen|].
  cbn [Nat.add] in *. set (V := set_nth vs i nv).
  (* every array that names a counter holds a list in V *)
  assert (HV : forall p f' v', nth_error fs p = Some f' -> nth_error V p = Some v' ->
               is_sizer fs p = false -> wt_field valid f' v' = true).
  { intros p f' v' Hf' Hv' Hsp. unfold V in Hv'. rewrite nth_error_set_nth in Hv'.
    destruct (Nat.eqb p i) eqn:Epi.
    - apply Nat.eqb_eq in Epi. subst p. change (fkind * ty)%type with field in *.
      assert (E : Some f' = Some f) by (rewrite <- Hf, <- Hf'; reflexivity). injection E as ->.
      destruct (Nat.ltb i (length vs)); [|discriminate]. injection Hv' as <-. exact Hnv.
    - specialize (Hall p f' v' Hf' Hv'). rewrite Hsp in Hall. exact Hall. }
  assert (Hfbl : forall j, first_bound_len j fs (derive_counts fs V 0 V) = first_bound_len j fs V).
  { intros j. apply fbl_derive_gen. intros p f' Hf' Hb'. cbn [Nat.add]. eapply bound_not_sizer; eassumption. }
  intros j f' v' Hf' Hv'. rewrite Hfbl.
  rewrite nth_error_derive in Hv'. cbn [Nat.add] in Hv'.
  destruct (nth_error V j) as [v|] eqn:Ev; cbn [option_map] in Hv'; [|discriminate]. injection Hv' as <-.
  unfold valid_member. destruct (is_sizer fs j) eqn:Esj.
  - destruct (fbl_some j fs V) as [n Hn].
    + exact Esj.
    + unfold V. rewrite length_set_nth. exact Hlen.
    + intros p g w Hg Hw Hb. eapply wt_field_list; [exact Hb|]. eapply HV; try eassumption. eapply bound_not_sizer; eassumption.
    + rewrite Hn. apply Z.eqb_refl.
  - eapply HV; eassumption.
Qed.

(* ---- assignment to a member ---- *)
Lemma forallb_is_byte_valid bs : forallb is_byte bs = true -> forallb (valid TByte) (map VInt bs) = true.
Proof. induction bs as [|b r IH]; cbn [forallb map]; [reflexivity|]. intros H. apply andb_prop in H. destruct H as [H1 H2]. rewrite (IH H2). change (valid TByte (VInt b)) with (is_byte b). rewrite H1. reflexivity. Qed.

Lemma forallb_is_byte_ljust bs n : forallb is_byte bs = true -> forallb is_byte (ljust bs n) = true.
Proof. intros H. unfold ljust, zeros. rewrite forallb_app', H, forallb_repeat by reflexivity. reflexivity. Qed.

Lemma bytes_set_valid f x nv : snd f = TByte -> is_array_kind (fst f) = true ->
  bytes_set (fst f) x = ADone nv -> wt_field valid f nv = true.
Proof.
  intros Et Hk. unfold bytes_set. destruct x as [z|b|w bits|bits|k|bs| |l|l]; try discriminate.
  destruct (negb (forallb is_byte bs)) eqn:Eb; [discriminate|]. apply negb_false_iff in Eb.
  destruct (fst f) as [| |n|s|n s|] eqn:Ek; try discriminate.
  - destruct (n <? len bs) eqn:En; [discriminate|]. intros H. injection H as <-.
    apply arr_ok_wt. split; rewrite ?Et, ?Ek.
    + apply forallb_is_byte_valid, forallb_is_byte_ljust, Eb.
    + cbn [len_ok]. rewrite len_map. apply len_ljust. lia.
  - intros H. injection H as <-. apply arr_ok_wt. split; rewrite ?Et, ?Ek; [apply forallb_is_byte_valid, Eb|exact I].
  - destruct (n <? len bs) eqn:En; [discriminate|]. intros H. injection H as <-.
    apply arr_ok_wt. split; rewrite ?Et, ?Ek; [apply forallb_is_byte_valid, Eb|]. cbn [len_ok]. rewrite len_map. lia.
  - intros H. injection H as <-. apply arr_ok_wt. split; rewrite ?Et, ?Ek; [apply forallb_is_byte_valid, Eb|exact I].
Qed.

Lemma field_set_valid f old x nv : fok f -> field_set f old x = ADone nv -> wt_field valid f nv = true.
Proof.
  intros [Hl Hk]. unfold field_set. cbn zeta. destruct (fst f) as [| |n|s|n s|] eqn:Ek.
  - destruct (is_comp (snd f)); [discriminate|]. destruct (check_scalar (snd f) x) as [v|] eqn:Ec; [|discriminate].
    intros H. injection H as <-. unfold wt_field. rewrite Ek. eapply check_scalar_valid; exact Ec.
  - unfold wt_field. rewrite Ek. destruct (is_comp (snd f)).
    + destruct x as [z|b|w bits|bits|k|bs| |l|l]; try discriminate.
      * destruct b; [|discriminate]. intros H. injection H as <-. apply default_valid. exact Hl.
      * intros H. injection H as <-. reflexivity.
    + destruct x as [z|b|w bits|bits|k|bs| |l|l];
        try (intros H; injection H as <-; reflexivity);
        (match goal with |- context [check_scalar ?t ?y] => destruct (check_scalar t y) as [v|] eqn:Ec; [|discriminate] end;
         intros H; injection H as <-; eapply check_scalar_valid; exact Ec).
  - destruct (snd f) eqn:Et; try discriminate. rewrite <- Ek. apply bytes_set_valid; [exact Et|rewrite Ek; reflexivity].
  - destruct (snd f) eqn:Et; try discriminate. rewrite <- Ek. apply bytes_set_valid; [exact Et|rewrite Ek; reflexivity].
  - destruct (snd f) eqn:Et; try discriminate. rewrite <- Ek. apply bytes_set_valid; [exact Et|rewrite Ek; reflexivity].
  - destruct (snd f) eqn:Et; try discriminate. rewrite <- Ek. apply bytes_set_valid; [exact Et|rewrite Ek; reflexivity].
Qed.

(* ---- an operation on one object ---- *)
Lemma nth_valid_member fs vs i f v : valid (TStruct fs) (VStruct vs) = true ->
  nth_error fs i = Some f -> nth_error vs i = Some v -> valid_member valid (is_sizer fs i) (first_bound_len i fs vs) f v = true.
Proof. cbn [valid]. rewrite valid_fields_nth. intros [_ H] Hf Hv. apply (H i f v Hf Hv). Qed.

Lemma nth_fok fs i f : legal (TStruct fs) = true -> nth_error fs i = Some f -> fok f.
Proof.
  intros Hl Hf. apply legal_struct in Hl. destruct Hl as [_ Hok]. rewrite Forall_forall in Hok.
  apply Hok. eapply nth_error_In. exact Hf.
Qed.

Lemma valid_arms_nth arms i x : valid_arms valid arms i x = true <-> exists a, nth_error arms i = Some a /\ valid (snd a) x = true.
Proof.
  revert i. induction arms as [|a r IH]; intros [|i]; cbn [valid_arms nth_error].
  - split; [discriminate|intros [a [H _]]; discriminate H].
  - split; [discriminate|intros [a [H _]]; discriminate H].
  - split; [intros H; exists a; split; [reflexivity|exact H]|intros [a' [H1 H2]]; injection H1 as <-; exact H2].
  - apply IH.
Qed.

Lemma find_arm_nth d j0 l j ta : find_arm d j0 l = Some (j, ta) ->
  exists a, nth_error l (j - j0) = Some a /\ snd a = ta /\ (j0 <= j)%nat.
Proof.
  revert j0. induction l as [|a r IH]; intros j0; cbn [find_arm]; [discriminate|].
  destruct (disc_matches d j0 a).
  - intros H. injection H as <- <-. exists a. rewrite Nat.sub_diag. repeat split. lia.
  - intros H. destruct (IH _ H) as [a' [Hn [Ha Hj]]]. exists a'.
    replace (j - j0)%nat with (S (j - S j0)) by lia. cbn [nth_error]. repeat split; try assumption. lia.
Qed.

Lemma nth_aok arms i a : legal (TUnion arms) = true -> nth_error arms i = Some a -> aok a.
Proof.
  intros Hl Ha. apply legal_union in Hl. destruct Hl as [_ [Hok _]]. rewrite Forall_forall in Hok.
  apply Hok. eapply nth_error_In. exact Ha.
Qed.

Lemma object_op_valid t v o nv : legal t = true -> valid t v = true ->
  object_op t v o = ADone nv -> valid t nv = true.
Proof.
  intros Hl Hv. unfold object_op. destruct t as [k| |vals|fs|arms]; try discriminate; destruct v as [z| |y|ys|vs|cur y]; try discriminate.
  - destruct (op_index o) as [i|] eqn:Eo; [|discriminate].
    destruct (nth_error fs i) as [f|] eqn:Ef; [|discriminate].
    destruct (nth_error vs i) as [old|] eqn:Eold; [|discriminate].
    destruct (is_sizer fs i) eqn:Es; [discriminate|].
    pose proof (nth_fok _ _ _ Hl Ef) as Hfok.
    pose proof (nth_valid_member _ _ _ _ _ Hv Ef Eold) as Hm. rewrite Es in Hm. unfold valid_member in Hm.
    match goal with |- match ?r with _ => _ end = _ -> _ => destruct r as [nv'| |] eqn:Er; try discriminate end.
    intros H. injection H as <-. eapply rebuild_valid; try eassumption.
    destruct o; try (eapply field_set_valid; eassumption);
      (destruct (is_array_kind (fst f)) eqn:Ek; [|discriminate]; destruct old as [z| |y|xs|ws|cur y]; try discriminate;
       eapply array_op_valid; try eassumption; apply arr_ok_wt; exact Hm).
  - destruct o as [i x|x| | | | | | | | | | ]; try discriminate.
    + destruct (nth_error arms i) as [a|] eqn:Ea; [|discriminate].
      destruct (negb (Nat.eqb i cur)) eqn:Ei; [discriminate|]. apply negb_false_iff, Nat.eqb_eq in Ei. subst i.
      destruct (is_comp (snd a)); [discriminate|].
      destruct (check_scalar (snd a) x) as [w|] eqn:Ec; [|discriminate]. intros H. injection H as <-.
      cbn [valid]. apply valid_arms_nth. exists a. split; [exact Ea|]. eapply check_scalar_valid; exact Ec.
    + destruct (find_arm x 0 arms) as [[j ta]|] eqn:Efa; [|discriminate].
      destruct (Nat.eqb j cur).
      * intros H. injection H as <-. exact Hv.
      * intros H. injection H as <-. cbn [valid]. apply valid_arms_nth.
        destruct (find_arm_nth _ _ _ _ _ Efa) as [a [Hn [Ha _]]]. rewrite Nat.sub_0_r in Hn.
        exists a. split; [exact Hn|]. rewrite Ha. apply default_valid.
        pose proof (nth_aok _ _ _ Hl Hn) as [_ [Hla _]]. rewrite <- Ha. exact Hla.
Qed.

(* ---- navigation ---- *)
Lemma apply_at_scalar fu k v p o : apply_at fu (TScalar k) v p o = AStuck.
Proof. destruct fu as [|fu]; [reflexivity|]. destruct p as [|s r]; cbn [apply_at object_op]; [reflexivity|]. destruct v; reflexivity. Qed.

Lemma forallb_nth {A} (p : A -> bool) l j x : forallb p l = true -> nth_error l j = Some x -> p x = true.
Proof. intros H Hn. rewrite forallb_forall in H. apply H. eapply nth_error_In. exact Hn. Qed.

Lemma forallb_set_nth {A} (p : A -> bool) l j x : forallb p l = true -> p x = true -> forallb p (set_nth l j x) = true.
Proof.
  revert j. induction l as [|a l IH]; intros [|j] H Hx; cbn [set_nth forallb] in *; try reflexivity.
  - apply andb_prop in H. destruct H as [_ H]. rewrite Hx, H. reflexivity.
  - apply andb_prop in H. destruct H as [Ha H]. rewrite Ha, (IH j H Hx). reflexivity.
Qed.

Lemma apply_at_valid fuel : forall t v path o nv, legal t = true -> valid t v = true ->
  apply_at fuel t v path o = ADone nv -> valid t nv = true.
Proof.
  induction fuel as [|fu IH]; intros t v path o nv Hl Hv; cbn [apply_at]; [discriminate|].
  destruct path as [|s rest]; [apply object_op_valid; assumption|].
  destruct t as [k| |vals|fs|arms]; try discriminate; destruct v as [z| |y|ys|vs|cur y]; try discriminate.
  - destruct s as [i|i idx].
    + destruct (nth_error fs i) as [f|] eqn:Ef; [|discriminate].
      destruct (nth_error vs i) as [fv|] eqn:Efv; [|discriminate].
      pose proof (nth_fok _ _ _ Hl Ef) as [Hlf Hkf].
      pose proof (nth_valid_member _ _ _ _ _ Hv Ef Efv) as Hm.
      destruct (is_sizer fs i) eqn:Es.
      { destruct (sizer_is_scalar _ _ Hl Es) as [k Hk].
        assert (E : Some f = Some (FPlain, TScalar k)) by (rewrite <- Ef; exact Hk). injection E as ->.
        cbn [fst snd]. rewrite apply_at_scalar. discriminate. }
      unfold valid_member in Hm. unfold wt_field in Hm.
      destruct (fst f) eqn:Ek; try discriminate.
      * destruct (apply_at fu (snd f) fv rest o) as [nv'| |] eqn:Ea; try discriminate.
        intros H. injection H as <-. eapply rebuild_valid; try eassumption.
        unfold wt_field. rewrite Ek. eapply IH; eassumption.
      * destruct fv as [z| |x|xs|ws|c x]; try discriminate.
        destruct (apply_at fu (snd f) x rest o) as [nv'| |] eqn:Ea; try discriminate.
        intros H. injection H as <-. eapply rebuild_valid; try eassumption.
        unfold wt_field. rewrite Ek. eapply IH; eassumption.
    + destruct (nth_error fs i) as [f|] eqn:Ef; [|discriminate].
      destruct (nth_error vs i) as [fv|] eqn:Efv; [|discriminate].
      destruct fv as [z| |x|xs|ws|c x]; try discriminate.
      destruct (is_array_kind (fst f) && is_comp (snd f)) eqn:Eac; [|discriminate].
      apply andb_prop in Eac. destruct Eac as [Eak _].
      destruct (norm_index (len xs) idx) as [j|] eqn:En; [|discriminate].
      destruct (nth_error xs (Z.to_nat j)) as [x|] eqn:Ex; [|discriminate].
      destruct (apply_at fu (snd f) x rest o) as [nv'| |] eqn:Ea; try discriminate.
      intros H. injection H as <-.
      pose proof (nth_fok _ _ _ Hl Ef) as [Hlf Hkf].
      pose proof (nth_valid_member _ _ _ _ _ Hv Ef Efv) as Hm.
      destruct (is_sizer fs i) eqn:Es.
      { destruct (sizer_is_scalar _ _ Hl Es) as [k Hk].
        assert (E : Some f = Some (FPlain, TScalar k)) by (rewrite <- Ef; exact Hk). injection E as ->. discriminate Eak. }
      unfold valid_member in Hm. apply arr_ok_wt in Hm. destruct Hm as [Hall Hlen].
      eapply rebuild_valid; try eassumption. apply arr_ok_wt. split.
      * apply forallb_set_nth; [exact Hall|]. eapply IH; try eassumption. eapply forallb_nth; eassumption.
      * unfold len. rewrite length_set_nth. exact Hlen.
  - destruct s as [i|i idx]; [|discriminate].
    destruct (nth_error arms i) as [a|] eqn:Ea; [|discriminate].
    destruct (negb (Nat.eqb i cur)) eqn:Ei; [discriminate|]. apply negb_false_iff, Nat.eqb_eq in Ei. subst i.
    destruct (apply_at fu (snd a) y rest o) as [nv'| |] eqn:Eap; try discriminate.
    intros H. injection H as <-. cbn [valid] in *. apply valid_arms_nth. exists a. split; [exact Ea|].
    apply valid_arms_nth in Hv. destruct Hv as [a' [Ha' Hva]].
    assert (a' = a) by congruence. subst a'.
    eapply IH; try eassumption. pose proof (nth_aok _ _ _ Hl Ea) as [_ [Hla _]]. exact Hla.
Qed.

(* ---- C10: every state reachable through the API is valid; a rejected operation changes nothing ---- *)
Definition run_ops (t : ty) (ops : list (list sel * aop)) (v : value) : value :=
  fold_left (fun s op => fst (api_step t s op)) ops v.

Lemma api_step_valid t v op : legal t = true -> valid t v = true -> valid t (fst (api_step t v op)) = true.
Proof.
  intros Hl Hv. unfold api_step. destruct (apply_at _ t v (fst op) (snd op)) as [nv| |] eqn:E; cbn [fst]; try exact Hv.
  eapply apply_at_valid; eassumption.
Qed.

Theorem api_reachable_valid t ops : legal t = true -> valid t (run_ops t ops (default t)) = true.
Proof.
  intros Hl. unfold run_ops. assert (H0 : valid t (default t) = true) by (apply default_valid; exact Hl).
  revert H0. generalize (default t). induction ops as [|op r IH]; intros v Hv; cbn [fold_left]; [exact Hv|].
  apply IH. apply api_step_valid; assumption.
Qed.

Theorem api_rejected_unchanged t v op : (forall nv, snd (api_step t v op) <> ADone nv) -> fst (api_step t v op) = v.
Proof.
  unfold api_step. destruct (apply_at _ t v (fst op) (snd op)) as [nv| |]; cbn [fst snd]; intros H; try reflexivity.
  exfalso. apply (H nv). reflexivity.
Qed.

Theorem api_performed_reported t v op nv : snd (api_step t v op) = ADone nv -> fst (api_step t v op) = nv.
Proof.
  unfold api_step. destruct (apply_at _ t v (fst op) (snd op)) as [nv'| |]; cbn [fst snd]; intros H; try discriminate.
  injection H as <-. reflexivity.
Qed.

(* ---- histories over two messages (C10 and C11) ---- *)
Definition run_hist (t : ty) (hs : list hop) (st : value * value) : value * value :=
  fold_left (fun s h => fst (hstep t s h)) hs st.

Lemma hstep_valid t st h : legal t = true -> valid t (fst st) = true -> valid t (snd st) = true ->
  valid t (fst (fst (hstep t st h))) = true /\ valid t (snd (fst (hstep t st h))) = true.
Proof.
  intros Hl Ha Hb. destruct st as [a b]. cbn [fst snd] in *. unfold hstep.
  destruct h as [on_b path o|dst_b|dst_b dpath i src_b spath si].
  - destruct (api_step t (if on_b then b else a) (path, o)) as [nv r] eqn:E.
    assert (Hnv : valid t nv = true).
    { change nv with (fst (nv, r)). rewrite <- E. apply api_step_valid; [exact Hl|]. destruct on_b; assumption. }
    destruct on_b; cbn [fst snd]; split; assumption.
  - unfold api_copy_from. destruct dst_b; cbn [fst snd]; split; assumption.
  - destruct (get_at _ t _ spath) as [[ts vs]|]; [|cbn [fst snd]; split; assumption].
    destruct ts; try (cbn [fst snd]; split; assumption).
    destruct vs; try (cbn [fst snd]; split; assumption).
    destruct (nth_error vs si) as [e|]; [|cbn [fst snd]; split; assumption].
    destruct e as [z| |x|xs|ws|c x]; try (cbn [fst snd]; split; assumption).
    destruct (api_step t (if dst_b then b else a) (dpath, AExtendVals i xs)) as [nv r] eqn:E.
    assert (Hnv : valid t nv = true).
    { change nv with (fst (nv, r)). rewrite <- E. apply api_step_valid; [exact Hl|]. destruct dst_b; assumption. }
    destruct dst_b; cbn [fst snd]; split; assumption.
Qed.

Theorem hist_reachable_valid t hs : legal t = true ->
  valid t (fst (run_hist t hs (default t, default t))) = true /\
  valid t (snd (run_hist t hs (default t, default t))) = true.
Proof.
  intros Hl. unfold run_hist. assert (H0 : valid t (default t) = true) by (apply default_valid; exact Hl).
  assert (G : forall st, valid t (fst st) = true -> valid t (snd st) = true ->
              valid t (fst (fold_left (fun s h => fst (hstep t s h)) hs st)) = true /\
              valid t (snd (fold_left (fun s h => fst (hstep t s h)) hs st)) = true).
  { induction hs as [|h r IH]; intros st Ha Hb; cbn [fold_left]; [split; assumption|].
    destruct (hstep_valid t st h Hl Ha Hb) as [Ha' Hb']. apply IH; assumption. }
  apply G; exact H0.
Qed.

(* C11 in the reference model: after copy_from both messages are the same tree ... *)
Theorem copy_from_equal t a b dst_b :
  let st' := fst (hstep t (a, b) (HCopy dst_b)) in fst st' = snd st' /\ (if dst_b then fst st' = a else snd st' = b).
Proof. cbn zeta. unfold hstep, api_copy_from. destruct dst_b; cbn [fst snd]; split; reflexivity. Qed.

(* ... and an operation on one message, performed or rejected, never changes the other one,
   whatever they shared before (here: everything, as values) *)
Theorem op_leaves_other t a b on_b path o :
  let st' := fst (hstep t (a, b) (HOp on_b path o)) in if on_b then fst st' = a else snd st' = b.
Proof.
  cbn zeta. unfold hstep. destruct (api_step t (if on_b then b else a) (path, o)) as [nv r].
  destruct on_b; reflexivity.
Qed.

Theorem extend_from_leaves_source t a b dpath i spath si :
  snd (fst (hstep t (a, b) (HExtendFrom false dpath i true spath si))) = b /\
  fst (fst (hstep t (a, b) (HExtendFrom true dpath i false spath si))) = a.
Proof.
  unfold hstep. split.
  - destruct (get_at _ t b spath) as [[ts vs]|]; [|reflexivity].
    destruct ts; try reflexivity. destruct vs; try reflexivity.
    destruct (nth_error vs si) as [e|]; [|reflexivity]. destruct e; try reflexivity.
    destruct (api_step t a _) as [nv r]. reflexivity.
  - destruct (get_at _ t a spath) as [[ts vs]|]; [|reflexivity].
    destruct ts; try reflexivity. destruct vs; try reflexivity.
    destruct (nth_error vs si) as [e|]; [|reflexivity]. destruct e; try reflexivity.
    destruct (api_step t b _) as [nv r]. reflexivity.
Qed.

(* ---- "can be encoded": a valid state is well-typed for the encoder unless it runs into one of
   the two encode-time refusals: arrays sharing a counter differ in length (documented), or a
   count does not fit the type of its counter (KF-F) ---- *)
Section Guard.
  Variable gT : ty -> value -> bool.
  Definition guard_field (f : field) (v : value) : bool :=
    match fst f, v with
    | FPlain, _ => gT (snd f) v
    | FOpt, VSome x => gT (snd f) x
    | _, VList xs => forallb (gT (snd f)) xs
    | _, _ => true
    end.
  Fixpoint guard_fields (all_fs : list field) (i : nat) (fs : list field) (vs : list value) : bool :=
    match fs, vs with
    | f :: r, v :: vr =>
        (if is_sizer all_fs i then match snd f, v with TScalar k, VInt z => in_range k z | _, _ => false end
         else guard_field f v) && guard_fields all_fs (S i) r vr
    | _, _ => true
    end.
  Fixpoint guard_arms (arms : list (Z * ty)) (i : nat) (x : value) : bool :=
    match arms, i with
    | a :: _, O => gT (snd a) x
    | _ :: r, S j => guard_arms r j x
    | _, _ => true
    end.
End Guard.

Fixpoint enc_guard (t : ty) (v : value) {struct t} : bool :=
  match t, v with
  | TStruct fs, VStruct vs => counts_ok vs fs vs && guard_fields enc_guard fs 0 fs vs
  | TUnion arms, VUnion i x => guard_arms enc_guard arms i x
  | _, _ => true
  end.

Lemma wt_fields_nth fs : forall vs,
  wt_fields wt fs vs = true <->
  length fs = length vs /\ forall j f v, nth_error fs j = Some f -> nth_error vs j = Some v -> wt_field wt f v = true.
Proof.
  induction fs as [|f r IH]; intros [|v vr]; cbn [wt_fields length].
  - split; [intros _; split; [reflexivity|]; intros [|j] ? ? H; discriminate H|reflexivity].
  - split; [discriminate|intros [H _]; discriminate H].
  - split; [discriminate|intros [H _]; discriminate H].
  - rewrite andb_true_iff, IH. split.
    + intros [H0 [Hlen Hr]]. split; [lia|]. intros [|j] f' v' Hf Hv; cbn [nth_error] in Hf, Hv.
      * injection Hf as <-. injection Hv as <-. exact H0.
      * eapply Hr; eassumption.
    + intros [Hlen Hr]. split; [|split; [lia|]].
      * apply (Hr O f v eq_refl eq_refl).
      * intros j f' v' Hf Hv. apply (Hr (S j) f' v' Hf Hv).
Qed.

Lemma guard_fields_nth all : forall fs k vs i f v, guard_fields enc_guard all k fs vs = true ->
  nth_error fs i = Some f -> nth_error vs i = Some v ->
  (if is_sizer all (k + i) then match snd f, v with TScalar s, VInt z => in_range s z | _, _ => false end
   else guard_field enc_guard f v) = true.
Proof.
  induction fs as [|f0 r IH]; intros k [|v0 vr] [|i] f v H Hf Hv; cbn [nth_error guard_fields] in *; try discriminate.
  - injection Hf as <-. injection Hv as <-. apply andb_prop in H. rewrite Nat.add_0_r. apply H.
  - apply andb_prop in H. destruct H as [_ H]. replace (k + S i)%nat with (S k + i)%nat by lia. eapply IH; eassumption.
Qed.

Lemma forallb_impl {A} (p q : A -> bool) l : (forall x, In x l -> p x = true -> q x = true) -> forallb p l = true -> forallb q l = true.
Proof.
  induction l as [|x l IH]; cbn [forallb]; intros H Hp; [reflexivity|]. apply andb_prop in Hp. destruct Hp as [H1 H2].
  rewrite (H x (or_introl eq_refl) H1), IH; [reflexivity| |exact H2]. intros y Hy. apply H. right. exact Hy.
Qed.

Theorem valid_encodable t : forall v, legal t = true -> valid t v = true -> enc_guard t v = true -> wt t v = true.
Proof.
  induction t as [k| |vals|fs IH|arms IH] using ty_ind'; intros v Hl Hv Hg; destruct v as [z| |y|ys|vs|cur y]; try discriminate Hv;
    try exact Hv.
  - cbn [enc_guard] in Hg. apply andb_prop in Hg. destruct Hg as [Hc Hg]. cbn [wt]. rewrite Hc, andb_true_r.
    pose proof Hv as Hv0. cbn [valid] in Hv. rewrite valid_fields_nth in Hv. destruct Hv as [Hlen Hall]. cbn [Nat.add] in Hall.
    apply wt_fields_nth. split; [exact Hlen|]. intros j f w Hf Hw.
    pose proof (guard_fields_nth fs fs O vs j f w Hg Hf Hw) as Hgj. cbn [Nat.add] in Hgj.
    specialize (Hall j f w Hf Hw). unfold valid_member in Hall.
    rewrite Forall_forall in IH. pose proof (IH f (nth_error_In _ _ Hf)) as IHf. cbn beta in IHf.
    pose proof (nth_fok _ _ _ Hl Hf) as [Hlf _].
    destruct (is_sizer fs j) eqn:Es.
    + destruct (sizer_is_scalar _ _ Hl Es) as [s Hs].
      assert (E : Some f = Some (FPlain, TScalar s)) by (change (fkind * ty)%type with field in *; rewrite <- Hf; exact Hs).
      injection E as ->. cbn [snd] in Hgj. unfold wt_field. cbn [fst snd]. destruct w; try discriminate. exact Hgj.
    + unfold wt_field in *. unfold guard_field in Hgj.
      destruct (fst f); destruct w as [z| |y|ys|ws|c y]; try discriminate Hall; try reflexivity.
      all: try (apply IHf; assumption).
      all: try (apply andb_prop in Hall; destruct Hall as [Hall1 Hall]; rewrite Hall1; cbn [andb]).
      all: (eapply forallb_impl; [|exact Hall]; intros x Hx Hvx; apply IHf; [exact Hlf|exact Hvx|];
            rewrite forallb_forall in Hgj; apply Hgj; exact Hx).
  - cbn [valid wt enc_guard] in *. apply valid_arms_nth in Hv. destruct Hv as [a [Ha Hva]].
    rewrite Forall_forall in IH. pose proof (IH a (nth_error_In _ _ Ha)) as IHa. cbn beta in IHa.
    pose proof (nth_aok _ _ _ Hl Ha) as [_ [Hla _]].
    assert (Hga : enc_guard (snd a) y = true).
    { clear - Hg Ha. revert cur Hg Ha. induction arms as [|b r IHr]; intros [|c] Hg Ha; cbn [guard_arms nth_error] in *; try discriminate.
      - injection Ha as <-. exact Hg.
      - eapply IHr; eassumption. }
    specialize (IHa y Hla Hva Hga).
    clear - IHa Ha. revert cur Ha. induction arms as [|b r IHr]; intros [|c] Ha; cbn [wt_arms nth_error] in *; try discriminate.
    + injection Ha as <-. exact IHa.
    + apply IHr. exact Ha.
Qed.

(* ---- arr.add(name=value, ...) and histories of items ---- *)
Lemma add_attrs_valid t b path st0 : legal t = true ->
  valid t (fst st0) = true -> valid t (snd st0) = true ->
  forall ks s r, valid t (fst s) = true -> valid t (snd s) = true ->
  valid t (fst (fst (add_attrs t b path st0 s r ks))) = true /\ valid t (snd (fst (add_attrs t b path st0 s r ks))) = true.
Proof.
  intros Hl H0a H0b ks. induction ks as [|k kr IH]; intros s r Ha Hb; cbn [add_attrs]; [split; assumption|].
  destruct (hstep t s (HOp b path k)) as [s2 r2] eqn:E.
  pose proof (hstep_valid t s (HOp b path k) Hl Ha Hb) as [V1 V2]. rewrite E in V1, V2. cbn [fst] in V1, V2.
  destruct r2; try (cbn [fst]; split; assumption). apply IH; assumption.
Qed.

Lemma add_attrs_rejected t b path st0 : forall ks s r,
  (forall nv, r = ADone nv -> True) ->
  (forall nv, snd (add_attrs t b path st0 s r ks) <> ADone nv) -> ks <> [] -> fst (add_attrs t b path st0 s r ks) = st0.
Proof.
  induction ks as [|k kr IH]; intros s r _ Hrej Hne; [congruence|]. cbn [add_attrs] in *.
  destruct (hstep t s (HOp b path k)) as [s2 r2] eqn:E.
  destruct r2 as [nv| |]; try reflexivity.
  destruct kr as [|k' kr']; [exfalso; cbn [add_attrs snd] in Hrej; apply (Hrej nv); reflexivity|].
  apply IH; [trivial|exact Hrej|discriminate].
Qed.

Lemma hitem_step_valid t st it : legal t = true -> valid t (fst st) = true -> valid t (snd st) = true ->
  valid t (fst (fst (hitem_step t st it))) = true /\ valid t (snd (fst (hitem_step t st it))) = true.
Proof.
  intros Hl Ha Hb. destruct it as [h|b path i attrs]; cbn [hitem_step]; [apply hstep_valid; assumption|].
  destruct (hstep t st (HOp b path (AAdd i))) as [st1 r1] eqn:E.
  pose proof (hstep_valid t st (HOp b path (AAdd i)) Hl Ha Hb) as [V1 V2]. rewrite E in V1, V2. cbn [fst] in V1, V2.
  destruct r1; try (cbn [fst]; split; assumption). apply add_attrs_valid; assumption.
Qed.

Theorem items_reachable_valid t hs : legal t = true ->
  valid t (fst (run_items t hs (default t, default t))) = true /\
  valid t (snd (run_items t hs (default t, default t))) = true.
Proof.
  intros Hl. unfold run_items. assert (H0 : valid t (default t) = true) by (apply default_valid; exact Hl).
  assert (G : forall st, valid t (fst st) = true -> valid t (snd st) = true ->
              valid t (fst (fold_left (fun s h => fst (hitem_step t s h)) hs st)) = true /\
              valid t (snd (fold_left (fun s h => fst (hitem_step t s h)) hs st)) = true).
  { induction hs as [|h r IH]; intros st Ha Hb; cbn [fold_left]; [split; assumption|].
    destruct (hitem_step_valid t st h Hl Ha Hb) as [V1 V2]. apply IH; assumption. }
  apply G; exact H0.
Qed.

(* add(name=value, ...) that is not performed leaves both messages as they were *)
Theorem add_with_rejected_unchanged t st b path i attrs :
  (forall nv, snd (hitem_step t st (HAddWith b path i attrs)) <> ADone nv) ->
  fst (hitem_step t st (HAddWith b path i attrs)) = st.
Proof.
  cbn [hitem_step]. destruct (hstep t st (HOp b path (AAdd i))) as [st1 r1] eqn:E. intros Hrej.
  destruct r1 as [nv| |]; try reflexivity.
  destruct attrs as [|k kr]; [exfalso; cbn [add_attrs snd] in Hrej; apply (Hrej nv); reflexivity|].
  apply add_attrs_rejected; [trivial|exact Hrej|discriminate].
Qed.
