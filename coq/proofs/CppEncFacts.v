(* proofs/CppEncFacts.v — C03 (model level): the segments the generated encode<E>() writes into a zeroed,
   aligned buffer render to the canonical encoding, in either byte order. *)
From Coq Require Import ZArith List Bool Lia ZifyBool.
From Prophy Require Import Bytes Schema Layout Wire Src PcModel CppFull Arith SpecAlign Views SpecLen SrcFacts PcFacts PcRawFacts CppSizeFacts.
Import ListNotations.
Local Open Scope Z_scope.

Definition encC (t : ty) : Prop :=
  forall v o, legal t = true -> wt t v = true -> o mod align t = 0 ->
    (forall e, render e (cpp_lay t v o) = render e (layout t v o)) /\
    segslen (cpp_lay t v o) = segslen (layout t v o).

(* the claim is about composites; scalars are written by do_encode directly (cpp_obj) *)
Definition encP (t : ty) : Prop := match t with TStruct _ | TUnion _ => encC t | _ => True end.

Lemma render_pad0 e l : render e (l ++ [SPad 0]) = render e l.
Proof. rewrite render_app. cbn [render map concat render_seg]. unfold zeros. cbn. rewrite !app_nil_r. reflexivity. Qed.

Lemma segslen_pad0 l : segslen (l ++ [SPad 0]) = segslen l.
Proof. rewrite segslen_app. cbn. lia. Qed.

Lemma kind_fixed_iff t : legal t = true -> (pc_kind t =? K_FIXED) = is_fixed t.
Proof.
  intros Hl. rewrite (pc_kind_eq t Hl). unfold is_fixed, K_FIXED. destruct (stiffness t); reflexivity.
Qed.

(* do_encode<E>(pos, x) of one object *)
Lemma cpp_obj_eq t v o : encP t -> legal t = true -> wt t v = true -> o mod align t = 0 ->
  (forall e, render e (cpp_obj cpp_lay t v o) = render e (layout t v o)) /\
  segslen (cpp_obj cpp_lay t v o) = segslen (layout t v o).
Proof.
  intros HP Hl Hw Ho. destruct t as [k| |vals|fs|arms]; destruct v as [z| |y|ys|vs|c y]; try discriminate Hw.
  - cbn [cpp_obj layout]. rewrite pc_builtin_size_spec. split; [intros; reflexivity|reflexivity].
  - cbn [cpp_obj layout]. rewrite pc_byte_size_spec. split; [intros; reflexivity|reflexivity].
  - cbn [cpp_obj layout]. rewrite pc_enum_size_spec. split; [intros; reflexivity|reflexivity].
  - unfold cpp_obj. destruct (HP _ o Hl Hw Ho) as [H1 H2]. rewrite (kind_fixed_iff _ Hl).
    destruct (is_fixed (TStruct fs)) eqn:Ef; [|split; assumption].
    destruct (layout_lengths_at _ _ o Hl Hw Ho) as [_ [_ H3]].
    destruct (pc_layout_eq _ Hl) as [_ Hs]. rewrite Hs, H2, (H3 Ef), Z.sub_diag.
    split; [intros e; rewrite render_pad0; apply H1|rewrite segslen_pad0, H2; apply H3; exact Ef].
  - unfold cpp_obj. destruct (HP _ o Hl Hw Ho) as [H1 H2]. rewrite (kind_fixed_iff _ Hl).
    destruct (is_fixed (TUnion arms)) eqn:Ef; [|split; assumption].
    destruct (layout_lengths_at _ _ o Hl Hw Ho) as [_ [_ H3]].
    destruct (pc_layout_eq _ Hl) as [_ Hs]. rewrite Hs, H2, (H3 Ef), Z.sub_diag.
    split; [intros e; rewrite render_pad0; apply H1|rewrite segslen_pad0, H2; apply H3; exact Ef].
Qed.

Lemma cpp_objs_nil t o : cpp_objs cpp_lay t [] o = [].
Proof. reflexivity. Qed.
Lemma cpp_objs_cons t x xr o :
  cpp_objs cpp_lay t (x :: xr) o = cpp_obj cpp_lay t x o ++ cpp_objs cpp_lay t xr (o + segslen (cpp_obj cpp_lay t x o)).
Proof. reflexivity. Qed.

Lemma cpp_objs_eq t : encP t -> legal t = true -> forall xs, Forall (fun x => wt t x = true) xs ->
  forall o, o mod align t = 0 ->
  (forall e, render e (cpp_objs cpp_lay t xs o) = render e (lay_elems layout t xs o)) /\
  segslen (cpp_objs cpp_lay t xs o) = segslen (lay_elems layout t xs o).
Proof.
  intros HP Hl xs Hxs. induction Hxs as [|x xr Hx Hr IH]; intros o Ho.
  - rewrite cpp_objs_nil, lay_elems_nil. split; [intros; reflexivity|reflexivity].
  - rewrite cpp_objs_cons, lay_elems_cons.
    destruct (cpp_obj_eq t x o HP Hl Hx Ho) as [H1 H2].
    destruct (layout_lengths_at t x o Hl Hx Ho) as [_ [L2 _]].
    rewrite H2.
    destruct (IH (o + segslen (layout t x o))) as [I1 I2]; [apply add_mod_keep; [apply align_ok|assumption|assumption]|].
    split; [intros e; rewrite !render_app, H1, I1; reflexivity|rewrite !segslen_app, H2, I2; reflexivity].
Qed.

(* one member *)
Lemma member_segs_eq f v o : encP (snd f) -> fok f ->
  pc_align (snd f) = align (snd f) -> pc_size (snd f) = size (snd f) ->
  wt_field wt f v = true -> o mod falign align f = 0 ->
  (forall e, render e (cpp_member_segs cpp_lay f (pc_member pc_size pc_align pc_kind f) v o) = render e (lay_body layout f v o)) /\
  segslen (cpp_member_segs cpp_lay f (pc_member pc_size pc_align pc_kind f) v o) = segslen (lay_body layout f v o).
Proof.
  intros HP Hfok Hal Hsz Hw Ho. pose proof Hfok as [Hl Hk].
  assert (Ho' : o mod align (snd f) = 0).
  { apply (mod_down _ (falign align f)); [apply align_ok|apply falign_ok|apply align_le_falign|exact Ho]. }
  pose proof (pc_member_size f Hfok Hal Hsz) as Hms.
  pose proof (pc_member_facts pc_size f Hfok Hal) as Hma.
  assert (Esz : match snd f with TByte => pc_byte_size | t => pc_size t end = size (snd f)).
  { clear -Hsz. destruct (snd f); try exact Hsz. }
  unfold cpp_member_segs, lay_body, wt_field in *.
  destruct (fst f) eqn:Ek.
  - apply cpp_obj_eq; assumption.
  - rewrite Hma. destruct v as [z| |y|ys|vs|c y]; try discriminate Hw.
    + rewrite Esz. split; [intros; reflexivity|reflexivity].
    + assert (Hov : (o + falign align f) mod align (snd f) = 0).
      { apply add_mod_keep; [apply align_ok|assumption|]. unfold falign. rewrite Ek. rewrite Z.max_comm. apply max_mod; [apply align_ok|apply okal_4]. }
      destruct (cpp_obj_eq (snd f) y _ HP Hl Hw Hov) as [H1 H2].
      split; [intros e; rewrite !render_cons, H1; reflexivity|rewrite !segslen_cons, H2; reflexivity].
  - destruct v as [z| |y|xs|ws|c y]; try discriminate Hw. apply andb_prop in Hw. destruct Hw as [_ Hw]. apply forallb_Forall in Hw.
    apply cpp_objs_eq; assumption.
  - destruct v as [z| |y|xs|ws|c y]; try discriminate Hw. apply forallb_Forall in Hw. apply cpp_objs_eq; assumption.
  - destruct v as [z| |y|xs|ws|c y]; try discriminate Hw. apply andb_prop in Hw. destruct Hw as [_ Hw]. apply forallb_Forall in Hw.
    destruct (cpp_objs_eq (snd f) HP Hl xs Hw o Ho') as [H1 H2].
    assert (Ems : pm_size (pc_member pc_size pc_align pc_kind f) = n * size (snd f)).
    { rewrite Hms. unfold fsize. rewrite Ek. reflexivity. }
    rewrite Ems, H2.
    split; [intros e; rewrite !render_app, H1; reflexivity|rewrite !segslen_app, H2; reflexivity].
  - destruct v as [z| |y|xs|ws|c y]; try discriminate Hw. apply forallb_Forall in Hw. apply cpp_objs_eq; assumption.
Qed.

(* ---- the padding statement after a member brings the position to the next member's wire offset ---- *)
Lemma fsize_mod f : fst f <> FOpt -> fsize size f mod falign align f = 0.
Proof.
  intros Hno. assert (Efa : falign align f = align (snd f)) by (unfold falign; destruct (fst f); try reflexivity; congruence).
  rewrite Efa. unfold fsize. destruct (fst f); try congruence; try reflexivity.
  - apply size_mod_align.
  - apply mul_mod_keep; [apply align_ok|apply size_mod_align].
  - apply mul_mod_keep; [apply align_ok|apply size_mod_align].
Qed.

Lemma ends_block_not_opt f : ends_block f = true -> fst f <> FOpt.
Proof. unfold ends_block, fstiff. intros H E. rewrite E in H. discriminate H. Qed.

Lemma walk_step pre f g r' (after : bool) bs o B v :
  legal_fields legal pre (f :: g :: r') = true ->
  Forall (fun f => pc_align (snd f) = align (snd f) /\ pc_size (snd f) = size (snd f)) (f :: g :: r') ->
  wt_field wt f v = true ->
  (if after then True else okal B /\ blockal (f :: g :: r') <= B /\ (bs - o) mod B = 0) ->
  let m := pc_member pc_size pc_align pc_kind f in
  let m' := if after then pm_set_align m (Z.max (pm_align m) (pc_part_max (m :: pcms (g :: r')))) else m in
  let mg := pc_member pc_size pc_align pc_kind g in
  let mg' := if ends_block f then pm_set_align mg (Z.max (pm_align mg) (pc_part_max (mg :: pcms r'))) else mg in
  let a := if after then blockal (f :: g :: r') else falign align f in
  let o1 := o + pad a o in
  let o' := o1 + segslen (lay_body layout f v o1) in
  let ag := if ends_block f then blockal (g :: r') else falign align g in
  let bs1 := bs + (pm_size m' + pc_member_padding (pm_align m') bs) in
  let pf := if pm_member_dynamic m' && (pm_align m' <? pm_align mg') then - pm_align mg' else pc_member_padding (pm_align mg') bs1 in
  (if pf <? 0 then cpp_align (- pf) o' - o' else pf) = pad ag o' /\
  (if ends_block f then True else
     okal (if after then blockal (f :: g :: r') else B) /\ blockal (g :: r') <= (if after then blockal (f :: g :: r') else B) /\
     (bs1 - o') mod (if after then blockal (f :: g :: r') else B) = 0).
Proof.
  intros Hl Ha Hwf Hinv. cbn zeta.
  pose proof (legal_fields_fok _ _ Hl) as Hok. inversion Hok as [|? ? Hokf Hokr]; subst.
  inversion Ha as [|? ? [Haf Hsf] Har]; subst.
  assert (Ha' : Forall (fun f => pc_align (snd f) = align (snd f)) (f :: g :: r')).
  { apply Forall_forall. intros y Hy. rewrite Forall_forall in Ha. apply (Ha y Hy). }
  assert (Har' : Forall (fun f => pc_align (snd f) = align (snd f)) (g :: r')).
  { apply Forall_forall. intros y Hy. rewrite Forall_forall in Har. apply (Har y Hy). }
  destruct (partial_head pre f (g :: r') after Hl Ha') as [_ [Eal [Esz [Edynm _]]]]. cbn zeta in Eal, Esz, Edynm.
  pose proof Hl as Hl0. cbn [legal_fields] in Hl. apply andb_prop in Hl. destruct Hl as [Hlf Hlr].
  destruct (partial_head (pre ++ [f]) g r' (ends_block f) Hlr Har') as [_ [Ealg _]]. cbn zeta in Ealg.
  set (m := pc_member pc_size pc_align pc_kind f) in *.
  set (m' := if after then pm_set_align m (Z.max (pm_align m) (pc_part_max (m :: pcms (g :: r')))) else m) in *.
  set (mg := pc_member pc_size pc_align pc_kind g) in *.
  set (mg' := if ends_block f then pm_set_align mg (Z.max (pm_align mg) (pc_part_max (mg :: pcms r'))) else mg) in *.
  set (a := if after then blockal (f :: g :: r') else falign align f).
  set (ag := if ends_block f then blockal (g :: r') else falign align g) in *.
  assert (Hao : okal a) by (unfold a; destruct after; [apply blockal_ok|apply falign_ok]).
  assert (Hago : okal ag) by (unfold ag; destruct (ends_block f); [apply blockal_ok|apply falign_ok]).
  pose proof (falign_ok f) as Hfo. pose proof (falign_le_blockal f (g :: r')) as Hfb.
  assert (Hfa : falign align f <= a) by (unfold a; destruct after; lia).
  set (o1 := o + pad a o).
  assert (Ho1 : o1 mod falign align f = 0).
  { apply (mod_down _ a); try assumption. apply pad_aligned. exact Hao. }
  set (bl := segslen (lay_body layout f v o1)). set (o' := o1 + bl).
  set (bs1 := bs + (pm_size m' + pc_member_padding (pm_align m') bs)).
  assert (Esz0 : pm_size m = fsize size f) by (apply pc_member_size; assumption).
  assert (Edf : pm_member_dynamic m = ends_block f) by (apply member_dynamic_ends; assumption).
  rewrite Edynm, Edf, Ealg.
  destruct (ends_block f) eqn:Eeb; cbn [andb].
  - (* f is dynamic *)
    split; [|exact I].
    assert (Ealf : pm_align m' = falign align f).
    { rewrite Eal. destruct after; [|reflexivity]. cbn [blockal]. rewrite Eeb. reflexivity. }
    rewrite Ealf.
    destruct (falign align f <? ag) eqn:Elt.
    + assert (E : (- ag <? 0) = true) by (apply okal_pos in Hago; lia). rewrite E.
      rewrite Z.opp_involutive, cpp_align_spec by exact Hago. lia.
    + rewrite pc_member_padding_spec by exact Hago.
      pose proof (pad_nonneg ag bs1 Hago) as Hnn.
      assert (E : (pad ag bs1 <? 0) = false) by lia. rewrite E.
      assert (Hno : fst f <> FOpt) by (apply ends_block_not_opt; exact Eeb).
      assert (Hom : o' mod falign align f = 0).
      { unfold o'. apply add_mod_keep; [exact Hfo|exact Ho1|]. apply body_mod; assumption. }
      assert (Hbm : bs1 mod falign align f = 0).
      { unfold bs1. rewrite Ealf, Esz, Esz0, pc_member_padding_spec by exact Hfo.
        replace (bs + (fsize size f + pad (falign align f) bs)) with ((bs + pad (falign align f) bs) + fsize size f) by lia.
        apply add_mod_keep; [exact Hfo|apply pad_aligned; exact Hfo|apply fsize_mod; exact Hno]. }
      rewrite (pad_zero ag o' Hago) by (apply (mod_down _ (falign align f)); try assumption; lia).
      apply pad_zero; [exact Hago|]. apply (mod_down _ (falign align f)); try assumption. lia.
  - (* f is static *)
    rewrite pc_member_padding_spec by exact Hago.
    pose proof (pad_nonneg ag bs1 Hago) as Hnn.
    assert (E : (pad ag bs1 <? 0) = false) by lia. rewrite E.
    assert (Hbl : bl = fsize size f).
    { unfold bl. destruct (body_len f v o1 (layout_lengths (snd f)) Hokf Hwf Ho1) as [_ Hb]. apply Hb.
      apply ends_block_false. exact Eeb. }
    set (B' := if after then blockal (f :: g :: r') else B).
    assert (HB' : okal B' /\ blockal (f :: g :: r') <= B' /\ (bs1 - o') mod B' = 0).
    { unfold B', bs1, o', o1, a. rewrite Hbl, Esz, Esz0, Eal. destruct after.
      - rewrite pc_member_padding_spec by (apply blockal_ok).
        split; [apply blockal_ok|]. split; [lia|].
        replace (bs + (fsize size f + pad (blockal (f :: g :: r')) bs) - (o + pad (blockal (f :: g :: r')) o + fsize size f))
          with ((bs + pad (blockal (f :: g :: r')) bs) - (o + pad (blockal (f :: g :: r')) o)) by lia.
        pose proof (pad_aligned (blockal (f :: g :: r')) bs (blockal_ok _)) as P1.
        pose proof (pad_aligned (blockal (f :: g :: r')) o (blockal_ok _)) as P2.
        pose proof (blockal_ok (f :: g :: r')) as Hbk. unfold okal in Hbk.
        destruct Hbk as [Hb|[Hb|[Hb|Hb]]]; rewrite Hb in *; lia.
      - destruct Hinv as [HBo [HBle HBm]]. rewrite pc_member_padding_spec by exact Hfo.
        split; [exact HBo|]. split; [exact HBle|].
        assert (Hpad : pad (falign align f) bs = pad (falign align f) o).
        { replace bs with (o + (bs - o)) by lia. apply pad_shift'; [exact Hfo|].
          apply (okal_divides (falign align f) B); try assumption. lia. }
        rewrite Hpad.
        replace (bs + (fsize size f + pad (falign align f) o) - (o + pad (falign align f) o + fsize size f)) with (bs - o) by lia.
        exact HBm. }
    destruct HB' as [HBo [HBle HBm]].
    assert (Hgle : blockal (g :: r') <= B').
    { cbn [blockal] in HBle. rewrite Eeb in HBle. cbn [blockal]. lia. }
    split; [|repeat split; assumption].
    pose proof (falign_le_blockal g r') as Hgb.
    replace bs1 with (o' + (bs1 - o')) by lia. apply pad_shift'; [exact Hago|].
    apply (okal_divides ag B'); try assumption. unfold ag. lia.
Qed.

Definition padn (p pos : Z) : Z := if p <? 0 then cpp_align (- p) pos - pos else p.

Lemma cpp_fields_segs_cons layV f fr m mr p pr v vr pos :
  cpp_fields_segs layV (f :: fr) (m :: mr) (p :: pr) (v :: vr) pos =
  cpp_member_segs layV f m v pos ++
  SPad (padn p (pos + segslen (cpp_member_segs layV f m v pos))) ::
  cpp_fields_segs layV fr mr pr vr (pos + segslen (cpp_member_segs layV f m v pos) + padn p (pos + segslen (cpp_member_segs layV f m v pos))).
Proof. reflexivity. Qed.

Lemma render_pad e n l : render e (SPad n :: l) = zeros n ++ render e l.
Proof. reflexivity. Qed.

Lemma enc_walk : forall fs pre, legal_fields legal pre fs = true ->
  Forall (fun f => pc_align (snd f) = align (snd f) /\ pc_size (snd f) = size (snd f)) fs ->
  Forall (fun f => encP (snd f)) fs ->
  fs <> [] ->
  forall vs, Forall2 (fun f v => wt_field wt f v = true) fs vs ->
  forall prev (after : bool) bs o B x sa,
  (if after then True else okal B /\ blockal fs <= B /\ (bs - o) mod B = 0) ->
  padn x (fields_end fs vs after o) = pad sa (fields_end fs vs after o) ->
  let a := if after then blockal fs else falign align (hd (FPlain, TByte) fs) in
  let cs := cpp_fields_segs cpp_lay fs (pcms fs)
              (tl (fst (fst (pc_walk prev (pc_partial (pcms fs) after) bs))) ++ [x]) vs (o + pad a o) in
  (forall e, render e (lay_fields layout sa fs vs after o) = zeros (pad a o) ++ render e cs) /\
  segslen (lay_fields layout sa fs vs after o) = pad a o + segslen cs.
Proof.
  induction fs as [|f r IH]; intros pre Hl Ha HP Hne vs H2 prev after bs o B x sa Hinv Hfin; [congruence|].
  pose proof (legal_fields_fok _ _ Hl) as Hok. inversion Hok as [|? ? Hokf Hokr]; subst.
  inversion Ha as [|? ? [Haf Hsf] Har]; subst. inversion HP as [|? ? HPf HPr]; subst.
  inversion H2 as [|? v ? vr Hwf H2r]; subst.
  assert (Ha' : Forall (fun f => pc_align (snd f) = align (snd f)) (f :: r)).
  { apply Forall_forall. intros y Hy. rewrite Forall_forall in Ha. apply (Ha y Hy). }
  destruct (partial_head pre f r after Hl Ha') as [Epar _]. cbn zeta in Epar. cbn [hd]. cbn zeta.
  set (m := pc_member pc_size pc_align pc_kind f) in *.
  set (m' := if after then pm_set_align m (Z.max (pm_align m) (pc_part_max (m :: pcms r))) else m) in *.
  set (a := if after then blockal (f :: r) else falign align f).
  assert (Hao : okal a) by (unfold a; destruct after; [apply blockal_ok|apply falign_ok]).
  pose proof (falign_ok f) as Hfo. pose proof (falign_le_blockal f r) as Hfb.
  assert (Hfa : falign align f <= a) by (unfold a; destruct after; lia).
  set (o1 := o + pad a o).
  assert (Ho1 : o1 mod falign align f = 0).
  { apply (mod_down _ a); try assumption. apply pad_aligned. exact Hao. }
  rewrite Epar, walk_cons. cbn [tl].
  change (pcms (f :: r)) with (m :: pcms r).
  cbn [lay_fields]. fold a. fold o1.
  destruct (member_segs_eq f v o1 HPf Hokf Haf Hsf Hwf Ho1) as [Mr Ml]. fold m in Mr, Ml.
  set (bl := segslen (lay_body layout f v o1)) in *.
  cbn [fields_end] in Hfin. fold a in Hfin. fold o1 in Hfin. fold bl in Hfin.
  destruct r as [|g r'].
  - (* the last member *)
    inversion H2r; subst. cbn [pcms map pc_partial pc_walk fst app].
    rewrite cpp_fields_segs_cons. cbn [cpp_fields_segs lay_fields fields_end] in *. rewrite Ml. fold bl.
    rewrite Hfin. split.
    + intros e. rewrite render_pad, !render_app, Mr. reflexivity.
    + rewrite segslen_cons, !segslen_app, Ml. cbn [seglen]. reflexivity.
  - (* a member followed by g *)
    inversion H2r as [|? w ? wr Hwg H2r']; subst.
    assert (Hlr : legal_fields legal (pre ++ [f]) (g :: r') = true).
    { cbn [legal_fields] in Hl. apply andb_prop in Hl. apply Hl. }
    assert (Har' : Forall (fun f => pc_align (snd f) = align (snd f)) (g :: r')).
    { apply Forall_forall. intros y Hy. rewrite Forall_forall in Har. apply (Har y Hy). }
    assert (Hu : fstiff stiffness f <> Unlimited).
    { eapply legal_unl_last with (pre := pre) (r := g :: r'); [exact Hl|discriminate]. }
    assert (Esp : pm_splits m = ends_block f) by (apply pc_member_splits; [assumption|left; assumption]).
    rewrite Esp.
    destruct (partial_head (pre ++ [f]) g r' (ends_block f) Hlr Har') as [Eparg _]. cbn zeta in Eparg.
    destruct (walk_step pre f g r' after bs o B v Hl Ha Hwf Hinv) as [Hpad Hnext]. cbn zeta in Hpad, Hnext.
    fold m in Hpad, Hnext. fold m' in Hpad, Hnext. fold a in Hpad, Hnext. fold o1 in Hpad, Hnext. fold bl in Hpad, Hnext.
    set (mg := pc_member pc_size pc_align pc_kind g) in *.
    set (mg' := if ends_block f then pm_set_align mg (Z.max (pm_align mg) (pc_part_max (mg :: pcms r'))) else mg) in *.
    set (ag := if ends_block f then blockal (g :: r') else falign align g) in *.
    set (bs1 := bs + (pm_size m' + pc_member_padding (pm_align m') bs)) in *.
    set (pf := if pm_member_dynamic m' && (pm_align m' <? pm_align mg') then - pm_align mg' else pc_member_padding (pm_align mg') bs1) in *.
    rewrite Eparg, walk_cons. cbn [app].
    change (m :: pcms (g :: r')) with (m :: mg :: pcms r').
    rewrite cpp_fields_segs_cons.
    change (mg :: pcms r') with (pcms (g :: r')).
    fold mg'. fold bs1. fold pf. rewrite Ml. fold bl.
    set (o' := o1 + bl) in *.
    assert (Epn : padn pf o' = pad ag o') by exact Hpad. rewrite Epn.
    cbn [fields_end] in Hfin.
    specialize (IH (pre ++ [f]) Hlr Har HPr ltac:(discriminate) (w :: wr) H2r m' (ends_block f) bs1 o'
                   (if after then blockal (f :: g :: r') else B) x sa Hnext Hfin).
    cbn [hd] in IH. cbn zeta in IH. fold ag in IH.
    rewrite Eparg, walk_cons in IH. cbn [tl] in IH. fold mg' in IH.
    destruct IH as [I1 I2].
    split.
    + intros e. rewrite render_pad, !render_app, render_pad, Mr, I1. reflexivity.
    + rewrite segslen_cons, !segslen_app, segslen_cons, I2, Ml. cbn [seglen]. fold bl. lia.
Qed.

Lemma salign_ge_tail f r : salign align r <= salign align (f :: r).
Proof. rewrite salign_cons. lia. Qed.

Lemma sz_fields_shift : forall fs, Forall (fun f => ends_block f = false) fs ->
  forall o d, d mod salign align fs = 0 -> sz_fields size fs false (o + d) = sz_fields size fs false o + d.
Proof.
  induction fs as [|f r IH]; intros Hst o d Hd; [reflexivity|].
  inversion Hst as [|? ? Hsf Hsr]; subst. cbn [sz_fields]. rewrite Hsf.
  pose proof (falign_ok f) as Hfo. pose proof (salign_ok (f :: r)) as Hso. pose proof (salign_ok r) as Hsr'.
  assert (Hdf : d mod falign align f = 0).
  { apply (mod_down _ (salign align (f :: r))); try assumption. rewrite salign_cons. lia. }
  rewrite (pad_shift' _ d o Hfo Hdf).
  replace (o + d + pad (falign align f) o + fsize size f) with ((o + pad (falign align f) o + fsize size f) + d) by lia.
  apply IH; [exact Hsr|]. apply (mod_down _ (salign align (f :: r))); try assumption. apply salign_ge_tail.
Qed.

Lemma cpp_arm_nth arms i x o a : nth_error arms i = Some a ->
  cpp_arm_segs cpp_lay arms i x o = Some (fst a, cpp_obj cpp_lay (snd a) x o).
Proof.
  revert i. induction arms as [|b r IH]; intros [|j] H; cbn in H; try discriminate.
  - injection H as ->. reflexivity.
  - cbn [cpp_arm_segs]. apply IH; exact H.
Qed.

Theorem cpp_lay_eq t : encP t.
Proof.
  induction t as [k| |vals|fs IH|arms IH] using ty_ind'; try exact I; intros v o Hl Hw Ho.
  - pose proof Hl as Hl0. pose proof Hw as Hw0. apply wt_struct in Hw. destruct Hw as [vs [-> [H2 _]]].
    apply legal_struct in Hl. destruct Hl as [Hne Hok].
    assert (Hboth : Forall (fun f => pc_align (snd f) = align (snd f) /\ pc_size (snd f) = size (snd f)) fs).
    { rewrite Forall_forall in *. intros f Hf. destruct (Hok f Hf) as [Hlf _]. apply (pc_layout_eq (snd f) Hlf). }
    assert (Ha : Forall (fun f => pc_align (snd f) = align (snd f)) fs).
    { apply Forall_forall. intros y Hy. rewrite Forall_forall in Hboth. apply (Hboth y Hy). }
    cbn [cpp_lay layout]. cbn [align] in Ho. fold (pcms fs).
    unfold pc_paddings, pc_struct_layout. fold (pcms fs).
    destruct fs as [|f0 r0]; [congruence|]. cbn [legal] in Hl0.
    destruct (pc_partial (pcms (f0 :: r0)) false) as [|m0 ms] eqn:Ep; [discriminate Ep|]. rewrite <- Ep. cbn zeta.
    destruct (pc_walk m0 (pc_partial (pcms (f0 :: r0)) false) 0) as [[ps lastm] bs] eqn:Ew. cbn [snd].
    assert (Eps : ps = fst (fst (pc_walk m0 (pc_partial (pcms (f0 :: r0)) false) 0))) by (rewrite Ew; reflexivity).
    assert (Elm : lastm = snd (fst (pc_walk m0 (pc_partial (pcms (f0 :: r0)) false) 0))) by (rewrite Ew; reflexivity).
    assert (Ebs : bs = snd (pc_walk m0 (pc_partial (pcms (f0 :: r0)) false) 0)) by (rewrite Ew; reflexivity).
    set (alignment := pc_max_align (pc_partial (pcms (f0 :: r0)) false)).
    assert (Ealn : alignment = salign align (f0 :: r0)).
    { unfold alignment. destruct (amax_pcms (f0 :: r0) Hok Ha) as [_ A2].
      rewrite pc_max_align_amax, amax_partial, A2 by (apply partial_align_ge, pcms_align_ge; assumption). reflexivity. }
    set (plast := if existsb pm_member_dynamic (pc_partial (pcms (f0 :: r0)) false)
                  then (if (pm_align lastm <? alignment) || pm_optional lastm then - alignment else 0)
                  else pc_final_padding alignment bs).
    rewrite Eps.
    pose proof (salign_ok (f0 :: r0)) as Hsa. pose proof (falign_ok f0) as Hf0.
    assert (Hof : o mod falign align f0 = 0).
    { apply (mod_down _ (salign align (f0 :: r0))); try assumption. rewrite salign_cons. lia. }
    (* the final padding statement *)
    assert (Hfin : padn plast (fields_end (f0 :: r0) vs false o) = pad (salign align (f0 :: r0)) (fields_end (f0 :: r0) vs false o)).
    { set (e := fields_end (f0 :: r0) vs false o).
      destruct (walk_last (f0 :: r0) [] Hl0 Ha ltac:(discriminate) m0 false 0) as [W1 [W2 W3]].
      rewrite <- Elm in W1, W2, W3.
      assert (Wal : pm_align lastm = falign align (last (f0 :: r0) (FPlain, TByte))).
      { destruct r0 as [|g r']; [exact W2|exact W1]. }
      clear W1 W2. unfold padn, plast. rewrite (dynamic_exists (f0 :: r0) [] false Hl0 Ha), Ealn, Wal, W3.
      change (fkind * ty)%type with field in *.
      remember (last (f0 :: r0) (FPlain, TByte)) as l eqn:El.
      destruct (existsb ends_block (f0 :: r0)) eqn:Edy.
      - destruct ((falign align l <? salign align (f0 :: r0)) || match fst l with FOpt => true | _ => false end) eqn:Ec.
        + assert (E : (- salign align (f0 :: r0) <? 0) = true) by (apply okal_pos in Hsa; lia). rewrite E.
          rewrite Z.opp_involutive, cpp_align_spec by exact Hsa. lia.
        + apply orb_false_iff in Ec. destruct Ec as [Ec1 Ec2]. change (0 <? 0) with false. cbn iota.
          assert (Hno : fst (last (f0 :: r0) (FPlain, TByte)) <> FOpt) by (rewrite <- El; intros E; rewrite E in Ec2; discriminate).
          pose proof (fields_end_mod (f0 :: r0) Hok ltac:(discriminate) vs H2 false o Hno) as Hm. rewrite <- El in Hm. fold e in Hm.
          assert (Hle : falign align l <= salign align (f0 :: r0)) by (apply falign_le_salign; rewrite El; apply last_in; discriminate).
          assert (Eeq : falign align l = salign align (f0 :: r0)) by lia.
          rewrite Eeq in Hm. symmetry. apply pad_zero; assumption.
      - pose proof (static_all _ Edy) as Hst.
        rewrite pc_final_padding_spec by exact Hsa.
        pose proof (pad_nonneg (salign align (f0 :: r0)) bs Hsa) as Hnn.
        assert (E : (pad (salign align (f0 :: r0)) bs <? 0) = false) by lia. rewrite E.
        rewrite Ebs, (sz_fields_walk [] (f0 :: r0) Hl0 Hboth).
        unfold e. rewrite (fields_end_static (f0 :: r0) Hok Hst vs H2 o).
        replace o with (0 + o) at 1 by lia. rewrite (sz_fields_shift (f0 :: r0) Hst 0 o Ho).
        rewrite (pad_shift' _ o _ Hsa Ho). reflexivity. }
    destruct (enc_walk (f0 :: r0) [] Hl0 Hboth IH ltac:(discriminate) vs H2 m0 false 0 o
                (salign align (f0 :: r0)) plast (salign align (f0 :: r0))) as [E1 E2].
    { split; [exact Hsa|]. split; [apply blockal_le|]. rewrite Z.sub_0_l.
      pose proof Hsa as Hx. unfold okal in Hx. destruct Hx as [Hx|[Hx|[Hx|Hx]]]; rewrite Hx in *; lia. }
    { exact Hfin. }
    cbn [hd] in E1, E2. cbn zeta in E1, E2.
    rewrite (pad_zero (falign align f0) o Hf0 Hof) in E1, E2. rewrite Z.add_0_r in E1, E2.
    split; [intros e; rewrite E1; reflexivity|rewrite E2; lia].
  - (* union *)
    pose proof Hl as Hl0. apply wt_union in Hw. destruct Hw as [i [x [-> Hw]]]. apply wt_arms_nth in Hw. destruct Hw as [a [Hn Hwa]].
    apply legal_union in Hl. destruct Hl as [_ [Hok _]].
    pose proof (nth_error_In _ _ Hn) as Hin.
    rewrite Forall_forall in Hok, IH. destruct (Hok a Hin) as [Hd [Hla [_ Hfa]]].
    cbn [cpp_lay layout]. cbn [align] in Ho.
    pose proof (ualign_ok arms) as Hua. pose proof (ualign_ge4 arms) as H4.
    destruct (pc_layout_eq _ Hl0) as [Eal Esz]. cbn [align] in Eal.
    rewrite Eal, Esz, pc_disc_size_spec.
    assert (Edp : (if 4 <? ualign align arms then ualign align arms - 4 else 0) = ualign align arms - 4) by (destruct (4 <? ualign align arms) eqn:E; lia).
    rewrite Edp. replace (o + 4 + (ualign align arms - 4)) with (o + ualign align arms) by lia.
    rewrite (cpp_arm_nth arms i x _ a Hn), (lay_arm_nth arms i x _ a Hn).
    assert (Hoa : (o + ualign align arms) mod align (snd a) = 0).
    { apply add_mod_keep; [apply align_ok| |].
      - apply (mod_down _ (ualign align arms)); [apply align_ok|assumption|apply arm_le_ualign; assumption|exact Ho].
      - apply (mod_down _ (ualign align arms)); [apply align_ok|assumption|apply arm_le_ualign; assumption|apply self_mod; assumption]. }
    destruct (cpp_obj_eq (snd a) x _ (IH a Hin) Hla Hwa Hoa) as [C1 C2].
    split.
    + intros e. rewrite !render_cons, !render_app, C1, C2.
      replace (size (TUnion arms) - 4 - (ualign align arms - 4) - segslen (layout (snd a) x (o + ualign align arms)))
        with (size (TUnion arms) - ualign align arms - segslen (layout (snd a) x (o + ualign align arms))) by lia.
      reflexivity.
    + rewrite !segslen_cons, !segslen_app, C2. cbn [segslen fold_right seglen]. lia.
Qed.
