(* proofs/PcPatchFacts.v — each patch rule turns the addressed member record into the record the prophy text
   front-end builds for the corresponding declaration, leaves every other member alone, and fails exactly in the
   documented cases. *)
From Coq Require Import ZArith List Bool Lia.
From Prophy Require Import PcPatch.
Import ListNotations.

Lemma find_member_spec ms name : forall k i m, find_member ms name k = Some (i, m) ->
  k <= i /\ nth_error ms (i - k) = Some m /\ m_name m = name.
Proof.
  induction ms as [|x r IH]; intros k i m H; cbn [find_member] in H; [discriminate|].
  destruct (Nat.eqb (m_name x) name) eqn:E.
  - injection H as <- <-. rewrite Nat.sub_diag. apply Nat.eqb_eq in E. repeat split; [lia|exact E].
  - destruct (IH (S k) i m H) as [Hk [Hn Hm]]. split; [lia|]. split; [|exact Hm].
    replace (i - k) with (S (i - S k)) by lia. exact Hn.
Qed.

Lemma find_member_none ms name : forall k, find_member ms name k = None ->
  Forall (fun m => m_name m <> name) ms.
Proof.
  induction ms as [|x r IH]; intros k H; [constructor|]. cbn [find_member] in H.
  destruct (Nat.eqb (m_name x) name) eqn:E; [discriminate|]. apply Nat.eqb_neq in E. constructor; [exact E|eapply IH; exact H].
Qed.

Lemma set_nth_other ms i x j : i <> j -> nth_error (set_nth ms i x) j = nth_error ms j.
Proof.
  revert i j. induction ms as [|m r IH]; intros [|i] [|j] H; cbn [set_nth nth_error]; try reflexivity; try congruence.
  apply IH. congruence.
Qed.

Lemma set_nth_same ms i x : i < length ms -> nth_error (set_nth ms i x) i = Some x.
Proof.
  revert i. induction ms as [|m r IH]; intros [|i] H; cbn [length] in H; cbn [set_nth nth_error]; try lia; [reflexivity|].
  apply IH. lia.
Qed.

Lemma set_nth_length ms i x : length (set_nth ms i x) = length ms.
Proof. revert i. induction ms as [|m r IH]; intros [|i]; cbn [set_nth length]; try reflexivity. rewrite IH. reflexivity. Qed.

(* the rules that re-shape a member: the result is the text front-end's record of the declaration *)
Theorem patch_dynamic ms x s i m :
  find_member ms x O = Some (i, m) -> sizer_before ms i s = true -> m_greedy m = false ->
  apply_action ms (ADynamic x s) = POk (set_nth ms i (text_member (DBound (m_type m) x s))).
Proof.
  intros Hf Hs Hg. destruct (find_member_spec ms x O i m Hf) as [_ [_ Hn]].
  cbn [apply_action]. rewrite Hf, Hs. cbn [text_member]. rewrite Hn, Hg. reflexivity.
Qed.

Theorem patch_greedy ms x i m :
  find_member ms x O = Some (i, m) ->
  apply_action ms (AGreedy x) = POk (set_nth ms i (text_member (DGreedy (m_type m) x))).
Proof.
  intros Hf. destruct (find_member_spec ms x O i m Hf) as [_ [_ Hn]].
  cbn [apply_action]. rewrite Hf. cbn [text_member]. rewrite Hn. reflexivity.
Qed.

Theorem patch_static ms x n i m :
  find_member ms x O = Some (i, m) -> m_greedy m = false ->
  apply_action ms (AStatic x n) = POk (set_nth ms i (text_member (DFixed (m_type m) x n))).
Proof.
  intros Hf Hg. destruct (find_member_spec ms x O i m Hf) as [_ [_ Hn]].
  cbn [apply_action]. rewrite Hf. cbn [text_member]. rewrite Hn, Hg. reflexivity.
Qed.

Theorem patch_limited ms x s n i m :
  find_member ms x O = Some (i, m) -> sizer_before ms i s = true -> m_size m = Some n -> m_greedy m = false ->
  apply_action ms (ALimited x s) = POk (set_nth ms i (text_member (DLimitedBy (m_type m) x n s))).
Proof.
  intros Hf Hs Hz Hg. destruct (find_member_spec ms x O i m Hf) as [_ [_ Hn]].
  cbn [apply_action]. rewrite Hf, Hs, Hz. cbn [text_member]. rewrite Hn, Hg. reflexivity.
Qed.

Theorem patch_type ms x tp i m :
  find_member ms x O = Some (i, m) ->
  exists m', apply_action ms (AType x tp) = POk (set_nth ms i m') /\ m_type m' = tp /\ mem_kind m' = mem_kind m
             /\ m_name m' = x.
Proof.
  intros Hf. destruct (find_member_spec ms x O i m Hf) as [_ [_ Hn]].
  cbn [apply_action]. rewrite Hf. eexists. split; [reflexivity|]. cbn. rewrite Hn. repeat split; reflexivity.
Qed.

(* the kinds the re-shaped members have for everything downstream *)
Theorem text_member_kinds t n s z :
  mem_kind (text_member (DPlain t n)) = KPlain /\ mem_kind (text_member (DFixed t n z)) = KFixed z /\
  mem_kind (text_member (DBound t n s)) = KBound s /\ mem_kind (text_member (DGreedy t n)) = KGreedy /\
  mem_kind (text_member (DOpt t n)) = KOpt /\ mem_kind (text_member (DLimitedBy t n z s)) = KLimited z s.
Proof. repeat split; reflexivity. Qed.

(* a rule touches the addressed member only *)
Theorem patch_reshape_frame ms a ms' x i m :
  (a = ADynamic x (match a with ADynamic _ s => s | _ => O end) \/ a = AGreedy x \/
   a = AStatic x (match a with AStatic _ n => n | _ => 0%Z end) \/ a = ALimited x (match a with ALimited _ s => s | _ => O end) \/
   a = AType x (match a with AType _ t => t | _ => O end)) ->
  find_member ms x O = Some (i, m) -> apply_action ms a = POk ms' ->
  length ms' = length ms /\ forall j, j <> i -> nth_error ms' j = nth_error ms j.
Proof.
  intros Ha Hf H.
  destruct Ha as [Ha|[Ha|[Ha|[Ha|Ha]]]]; rewrite Ha in H; cbn [apply_action] in H; rewrite Hf in H.
  - destruct (sizer_before ms i _); [|discriminate]. injection H as <-.
    split; [apply set_nth_length|intros j Hj; apply set_nth_other; congruence].
  - injection H as <-. split; [apply set_nth_length|intros j Hj; apply set_nth_other; congruence].
  - injection H as <-. split; [apply set_nth_length|intros j Hj; apply set_nth_other; congruence].
  - destruct (sizer_before ms i _); [|discriminate]. destruct (m_size m); [|discriminate]. injection H as <-.
    split; [apply set_nth_length|intros j Hj; apply set_nth_other; congruence].
  - injection H as <-. split; [apply set_nth_length|intros j Hj; apply set_nth_other; congruence].
Qed.

(* documented failures: a rule that cannot be applied fails the compilation *)
Theorem patch_member_absent ms x :
  find_member ms x O = None ->
  forall s n t, apply_action ms (ADynamic x s) = PErr /\ apply_action ms (AGreedy x) = PErr /\
                apply_action ms (AStatic x n) = PErr /\ apply_action ms (ALimited x s) = PErr /\
                apply_action ms (AType x t) = PErr /\ apply_action ms (ARemove x) = PErr.
Proof. intros Hf s n t. cbn [apply_action]. rewrite Hf. repeat split; reflexivity. Qed.

Theorem patch_sizer_absent ms x s i m :
  find_member ms x O = Some (i, m) -> sizer_before ms i s = false ->
  apply_action ms (ADynamic x s) = PErr /\ apply_action ms (ALimited x s) = PErr.
Proof. intros Hf Hs. cbn [apply_action]. rewrite Hf, Hs. split; reflexivity. Qed.

Theorem patch_limited_needs_array ms x s i m :
  find_member ms x O = Some (i, m) -> m_size m = None -> apply_action ms (ALimited x s) = PErr.
Proof. intros Hf Hz. cbn [apply_action]. rewrite Hf, Hz. destruct (sizer_before ms i s); reflexivity. Qed.

Theorem patch_failure_propagates ms a r : apply_action ms a = PErr -> apply_actions ms (a :: r) = PErr.
Proof. intros H. cbn [apply_actions]. rewrite H. reflexivity. Qed.

(* a rule naming an absent message is ignored *)
Theorem patch_absent_message node ms patches :
  Forall (fun p => fst p <> node) patches -> patch_node node ms patches = POk ms.
Proof.
  intros H. unfold patch_node.
  assert (E : find (fun p => Nat.eqb (fst p) node) patches = None).
  { induction H as [|p r Hp _ IH]; [reflexivity|]. cbn [find]. apply Nat.eqb_neq in Hp. rewrite Hp. exact IH. }
  rewrite E. reflexivity.
Qed.

(* rename: the renamed member carries its new name, every array that was counted by the old name is counted by
   the new one, nothing else changes (types, sizes, flags, order, member count) *)
Theorem patch_rename ms old new i m :
  find_member ms old O = Some (i, m) ->
  exists ms', apply_action ms (ARename old new) = POk ms' /\ length ms' = length ms /\
    (forall j mj', nth_error ms' j = Some mj' ->
       exists mj, nth_error ms j = Some mj /\ m_name mj' = (if Nat.eqb j i then new else m_name mj) /\
         m_bound mj' = (match m_bound mj with Some b => Some (if Nat.eqb b old then new else b) | None => None end) /\
         m_type mj' = m_type mj /\ m_size mj' = m_size mj /\ m_greedy mj' = m_greedy mj /\ m_opt mj' = m_opt mj).
Proof.
  intros Hf. destruct (find_member_spec ms old O i m Hf) as [_ [Hn _]]. rewrite Nat.sub_0_r in Hn.
  cbn [apply_action]. rewrite Hf. eexists. split; [reflexivity|]. split; [rewrite map_length, set_nth_length; reflexivity|].
  intros j mj' Hj. rewrite nth_error_map in Hj.
  destruct (nth_error (set_nth ms i _) j) as [x|] eqn:Ex; [|discriminate]. injection Hj as <-.
  assert (Hx : exists mj, nth_error ms j = Some mj /\ m_name x = (if Nat.eqb j i then new else m_name mj) /\
             m_bound x = m_bound mj /\ m_type x = m_type mj /\ m_size x = m_size mj /\ m_greedy x = m_greedy mj /\ m_opt x = m_opt mj).
  { destruct (Nat.eqb j i) eqn:Eji.
    - apply Nat.eqb_eq in Eji. subst j. rewrite set_nth_same in Ex by (apply nth_error_Some; congruence).
      injection Ex as <-. exists m. repeat split; assumption || reflexivity.
    - apply Nat.eqb_neq in Eji. rewrite set_nth_other in Ex by congruence. exists x. repeat split; assumption || reflexivity. }
  destruct Hx as [mj [H1 [H2 [H3 [H4 [H5 [H6 H7]]]]]]]. exists mj. split; [exact H1|].
  unfold rebind. rewrite H3. destruct (m_bound mj) as [b|] eqn:Eb.
  - destruct (Nat.eqb b old); cbn; repeat split; assumption.
  - repeat split; assumption.
Qed.

(* remove and insert *)
Theorem patch_remove ms x i m : find_member ms x O = Some (i, m) -> apply_action ms (ARemove x) = POk (del_nth ms i).
Proof. intros Hf. cbn [apply_action]. rewrite Hf. reflexivity. Qed.

Theorem patch_insert ms idx x t : (0 <= idx <= Z.of_nat (length ms))%Z ->
  apply_action ms (AInsert idx x t) = POk (firstn (Z.to_nat idx) ms ++ text_member (DPlain t x) :: skipn (Z.to_nat idx) ms).
Proof.
  intros H. cbn [apply_action]. unfold py_insert. destruct (idx <? 0)%Z eqn:E; [apply Z.ltb_lt in E; lia|].
  rewrite Z.min_l by lia. reflexivity.
Qed.

(* ---- isar: the records built from the <dimension> forms are the text front-end's records ---- *)
From Prophy Require Import PcIsar.
Section IsarFacts.
  Variables has_name numof_name len_name : nat -> nat.
  Variable u32 : nat.
  Local Notation members := (isar_members has_name numof_name len_name u32).

  Definition dim0 : dimension :=
    {| d_size := None; d_size2 := None; d_this_is_variable := false; d_var_name := None; d_is_variable := false; d_var_type := None |}.

  Theorem isar_plain n t : members n t false None false = [text_member (DPlain t n)].
  Proof. reflexivity. Qed.
  Theorem isar_optional n t : members n t true None false = [text_member (DOpt t n)].
  Proof. reflexivity. Qed.
  (* <dimension size="N"/> and size="N" size2="M" *)
  Theorem isar_fixed n t a dyn :
    members n t false (Some {| d_size := Some a; d_size2 := None; d_this_is_variable := false; d_var_name := None;
                               d_is_variable := false; d_var_type := None |}) dyn = [text_member (DFixed t n a)].
  Proof. reflexivity. Qed.
  Theorem isar_fixed_2d n t a b dyn :
    members n t false (Some {| d_size := Some a; d_size2 := Some b; d_this_is_variable := false; d_var_name := None;
                               d_is_variable := false; d_var_type := None |}) dyn = [text_member (DFixed t n (a * b))].
  Proof. reflexivity. Qed.
  (* variableSizeFieldName="@s": T x<@s> *)
  Theorem isar_bound n t s sz sz2 tiv iv vt dyn :
    members n t false (Some {| d_size := sz; d_size2 := sz2; d_this_is_variable := tiv; d_var_name := Some (true, s);
                               d_is_variable := iv; d_var_type := vt |}) dyn = [text_member (DBound t n s)].
  Proof. reflexivity. Qed.
  (* isVariableSize with a size: the counter and T x<N> (N = size, or size*size2) counted by it *)
  Theorem isar_limited n t a ob vn vt :
    (forall s, vn <> Some (true, s)) ->
    let sizer := match vn with Some (_, s) => s | None => len_name n end in
    let ct := match vt with Some c => c | None => u32 end in
    let cap := match ob with Some b => (a * b)%Z | None => a end in
    members n t false (Some {| d_size := Some a; d_size2 := ob; d_this_is_variable := false; d_var_name := vn;
                               d_is_variable := true; d_var_type := vt |}) false
    = [text_member (DPlain ct sizer); text_member (DLimitedBy t n cap sizer)].
  Proof.
    intros Hv. cbv zeta. unfold isar_members, isar_size. cbn [d_size d_size2 d_var_name d_this_is_variable d_is_variable d_var_type app].
    destruct vn as [[[|] s]|]; [exfalso; apply (Hv s); reflexivity| |]; destruct ob; reflexivity.
  Qed.
  (* the last array of a message (dynamic_array): the counter and T x<@counter> *)
  Theorem isar_message_tail n t sz ob vn vt :
    (forall s, vn <> Some (true, s)) ->
    let sizer := match vn with Some (_, s) => s | None => len_name n end in
    let ct := match vt with Some c => c | None => u32 end in
    members n t false (Some {| d_size := sz; d_size2 := ob; d_this_is_variable := false; d_var_name := vn;
                               d_is_variable := true; d_var_type := vt |}) true
    = [text_member (DPlain ct sizer); text_member (DBound t n sizer)].
  Proof.
    intros Hv. cbv zeta. unfold isar_members. cbn [d_var_name d_this_is_variable d_is_variable d_var_type app].
    destruct vn as [[[|] s]|]; [exfalso; apply (Hv s); reflexivity| |]; reflexivity.
  Qed.
End IsarFacts.
