(* proofs/PyDecodeWt.v — C06, second half (model level): whatever the decoder model returns for a byte string
   is a well-typed value within the decoder's guard — every scalar in range, enums among their enumerators,
   array lengths equal to their counters, limits kept, the discriminated arm only. Together with C01 (encode
   is canonical) and C02 (decode inverts encode) this gives the fixpoint statement of C06 for messages
   without a greedy tail. *)
From Coq Require Import ZArith List Bool Lia ZifyBool.
From Prophy Require Import Bytes Schema Layout Wire Src PyStatics PyEncode PyDecode
  ApiSpec Arith SpecAlign Views SpecLen BytesFacts SrcFacts PyStaticsFacts PyEncodeFacts PyDecodeFacts PyRoundtrip ApiFacts.
Import ListNotations.
Local Open Scope Z_scope.
Ltac Zify.zify_post_hook ::= Z.to_euclidean_division_equations.

(* ---- bytes to integers ---- *)
Lemma unle_range bs : forallb is_byte bs = true -> 0 <= unle bs < 256 ^ len bs.
Proof.
  induction bs as [|b r IH]; intros H; cbn [unle].
  - cbn. lia.
  - cbn [forallb] in H. apply andb_prop in H. destruct H as [Hb Hr]. specialize (IH Hr).
    rewrite len_cons. pose proof (len_nonneg r) as Hn.
    replace (1 + len r) with (Z.succ (len r)) by lia. rewrite Z.pow_succ_r by exact Hn.
    unfold is_byte in Hb. lia.
Qed.

Lemma forallb_rev {A} (p : A -> bool) l : forallb p (rev l) = forallb p l.
Proof.
  induction l as [|x l IH]; [reflexivity|]. cbn [rev forallb]. rewrite forallb_app. cbn [forallb]. rewrite IH, andb_true_r, andb_comm. reflexivity.
Qed.

Lemma dec_uint_range e bs : forallb is_byte bs = true -> 0 <= dec_uint e bs < 256 ^ len bs.
Proof.
  intros H. destruct e; unfold dec_uint, unbe; [apply unle_range; exact H|].
  rewrite <- (len_rev bs). apply unle_range. rewrite forallb_rev. exact H.
Qed.

Lemma forallb_firstn' {A} (p : A -> bool) n l : forallb p l = true -> forallb p (firstn n l) = true.
Proof. revert n. induction l as [|x l IH]; intros [|n] H; cbn [firstn forallb] in *; try reflexivity. apply andb_prop in H. destruct H as [H1 H2]. rewrite H1, (IH n H2). reflexivity. Qed.
Lemma forallb_skipn' {A} (p : A -> bool) n l : forallb p l = true -> forallb p (skipn n l) = true.
Proof. revert n. induction l as [|x l IH]; intros [|n] H; cbn [skipn forallb] in *; try reflexivity; try assumption. apply andb_prop in H. destruct H as [H1 H2]. apply IH; assumption. Qed.

Lemma slice_bytes data pos n : forallb is_byte data = true -> forallb is_byte (slice data pos n) = true.
Proof. intros H. unfold slice. apply forallb_firstn', forallb_skipn'. exact H. Qed.

Lemma len_slice data pos n : 0 <= pos -> 0 <= n -> pos + n <= len data -> len (slice data pos n) = n.
Proof. intros Hp Hn Hl. unfold slice, len in *. rewrite firstn_length, skipn_length. lia. Qed.

Lemma len_slice_le data pos n : 0 <= n -> len (slice data pos n) <= n.
Proof. intros Hn. unfold slice, len. rewrite firstn_length. lia. Qed.

(* ---- no counter is shared by two arrays (what the text syntax x<> / x<N> always gives; an explicit
   x<@n> may share): under it the counters derived after decoding are consistent by construction ---- *)
Fixpoint count_bound (i : nat) (fs : list field) : nat :=
  match fs with [] => O | f :: r => ((if bound_to i f then 1 else 0) + count_bound i r)%nat end.

Definition unshared_fs (fs : list field) : Prop := forall i, (count_bound i fs <= 1)%nat.

Inductive unshared : ty -> Prop :=
| un_scalar k : unshared (TScalar k)
| un_byte : unshared TByte
| un_enum vals : unshared (TEnum vals)
| un_struct fs : unshared_fs fs -> Forall (fun f => unshared (snd f)) fs -> unshared (TStruct fs)
| un_union arms : Forall (fun a => unshared (snd a)) arms -> unshared (TUnion arms).

Lemma fbl_unshared s : forall fs vs j f xs, (count_bound s fs <= 1)%nat ->
  nth_error fs j = Some f -> bound_to s f = true -> nth_error vs j = Some (VList xs) ->
  PyDecode.first_bound_len s fs vs = Some (len xs).
Proof.
  induction fs as [|g r IH]; intros vs j f xs Hc Hf Hb Hv; [destruct j; discriminate|].
  destruct vs as [|w wr]; [destruct j; discriminate|]. cbn [PyDecode.first_bound_len]. cbn [count_bound] in Hc.
  destruct j as [|j]; cbn [nth_error] in Hf, Hv.
  - injection Hf as ->. injection Hv as ->. rewrite Hb. reflexivity.
  - destruct (bound_to s g) eqn:Eg.
    + exfalso. assert (Hpos : (1 <= count_bound s r)%nat).
      { clear -Hf Hb. revert j Hf. induction r as [|h r IHr]; intros [|j] Hf; cbn in Hf; try discriminate; cbn [count_bound].
        - injection Hf as ->. rewrite Hb. lia.
        - specialize (IHr j Hf). lia. }
      lia.
    + eapply IH; try eassumption; try lia.
Qed.

Lemma counts_ok_intro all : forall fs vs, length fs = length vs ->
  (forall j f v s, nth_error fs j = Some f -> nth_error vs j = Some v -> sizer_of (fst f) = Some s ->
     exists xs, v = VList xs /\ nth_error all s = Some (VInt (len xs))) ->
  counts_ok all fs vs = true.
Proof.
  induction fs as [|f r IH]; intros [|v vr] Hlen H; cbn [length] in Hlen; try lia; cbn [counts_ok]; [reflexivity|].
  rewrite IH; [|lia|intros j g w s Hg Hw Hs; apply (H (S j) g w s Hg Hw Hs)].
  rewrite andb_true_r. destruct (sizer_of (fst f)) as [s|] eqn:Es; [|reflexivity].
  destruct (H O f v s eq_refl eq_refl Es) as [xs [-> Hn]]. rewrite Hn. apply Z.eqb_refl.
Qed.

Lemma guard_fields_intro : forall fs vs,
  (forall j f v, nth_error fs j = Some f -> nth_error vs j = Some v -> PyRoundtrip.guard_field within_guard f v = true) ->
  PyRoundtrip.guard_fields within_guard fs vs = true.
Proof.
  induction fs as [|f r IH]; intros [|v vr] H; cbn [PyRoundtrip.guard_fields]; try reflexivity.
  rewrite (H O f v eq_refl eq_refl), IH; [reflexivity|]. intros j g w Hg Hw. apply (H (S j) g w Hg Hw).
Qed.

Lemma in_range_down k z y : in_range k z = true -> 0 <= y <= z -> in_range k y = true.
Proof.
  unfold in_range, sk_min, sk_max. intros H Hy.
  destruct k; cbn [sk_signed sk_is_int sk_size] in *;
    change (8 * 1 - 1) with 7 in *; change (8 * 2 - 1) with 15 in *; change (8 * 4 - 1) with 31 in *; change (8 * 8 - 1) with 63 in *;
    change (8 * 1) with 8 in *; change (8 * 2) with 16 in *; change (8 * 4) with 32 in *; change (8 * 8) with 64 in *;
    change (2 ^ 7) with 128 in *; change (2 ^ 15) with 32768 in *; change (2 ^ 31) with 2147483648 in *;
    change (2 ^ 63) with 9223372036854775808 in *;
    change (2 ^ 8) with 256 in *; change (2 ^ 16) with 65536 in *; change (2 ^ 32) with 4294967296 in *;
    change (2 ^ 64) with 18446744073709551616 in *; lia.
Qed.

(* what the struct decoder has collected when its loop ends *)
Definition finv (all_fs fs' : list field) (vs' : list value) : Prop :=
  length vs' = length fs' /\
  forall j f v, nth_error fs' j = Some f -> nth_error vs' j = Some v ->
    wt_field wt f v = true /\ PyRoundtrip.guard_field within_guard f v = true /\
    (fst f = FPlain -> is_sizer all_fs j = true -> exists z, v = VInt z /\ 0 <= z <= 65536) /\
    (forall s, sizer_of (fst f) = Some s -> (s < j)%nat /\ exists xs, v = VList xs /\ forall h, nth_error vs' s = Some (VInt h) -> len xs <= h).

(* deriving the counters from the arrays (what reading a decoded message shows) gives a well-typed value *)
Lemma derive_wt fs vs : legal (TStruct fs) = true -> unshared_fs fs -> finv fs fs vs ->
  wt (TStruct fs) (VStruct (PyDecode.derive_counts fs vs 0 vs)) = true /\
  within_guard (TStruct fs) (VStruct (PyDecode.derive_counts fs vs 0 vs)) = true.
Proof.
  intros Hl Hun [Hlen Hall].
  change (PyDecode.derive_counts fs vs 0 vs) with (ApiSpec.derive_counts fs vs 0 vs).
  set (dv := ApiSpec.derive_counts fs vs 0 vs).
  assert (Hdl : length dv = length vs) by apply length_derive.
  (* value of every member after deriving *)
  assert (Hdv : forall j f v, nth_error fs j = Some f -> nth_error vs j = Some v ->
            exists w, nth_error dv j = Some w /\
              (is_sizer fs j = false -> w = v) /\
              (is_sizer fs j = true -> exists k z p g xs, f = (FPlain, TScalar k) /\ v = VInt z /\ in_range k z = true /\
                   nth_error fs p = Some g /\ bound_to j g = true /\ nth_error vs p = Some (VList xs) /\ len xs <= z /\ w = VInt (len xs))).
  { intros j f v Hf Hv. unfold dv. rewrite nth_error_derive, Hv. cbn [option_map Nat.add].
    destruct (is_sizer fs j) eqn:Es.
    - destruct (sizer_is_scalar fs j Hl Es) as [k Hk].
      assert (Ef : f = (FPlain, TScalar k)) by (change (fkind * ty)%type with field in *; congruence). subst f.
      destruct (Hall j _ v Hf Hv) as [Hw [_ [Hz _]]]. destruct (Hz eq_refl Es) as [z [-> Hz']].
      unfold is_sizer in Es. apply existsb_exists in Es. destruct Es as [g [Hg Hb]].
      apply In_nth_error in Hg. destruct Hg as [p Hp].
      assert (Hpv : exists w, nth_error vs p = Some w).
      { assert (p < length vs)%nat by (rewrite Hlen; apply nth_error_Some; change (fkind * ty)%type with field in *; rewrite Hp; discriminate).
        destruct (nth_error vs p) eqn:E; [eauto|]. apply nth_error_None in E. lia. }
      destruct Hpv as [w Hw'].
      destruct (Hall p g w Hp Hw') as [_ [_ [_ Hs]]].
      assert (Hsz : sizer_of (fst g) = Some j) by (apply bound_to_sizer; exact Hb).
      destruct (Hs j Hsz) as [_ [xs [-> Hle]]]. specialize (Hle z Hv).
      change ApiSpec.first_bound_len with PyDecode.first_bound_len.
      rewrite (fbl_unshared j fs vs p g xs (Hun j) Hp Hb Hw').
      eexists. split; [reflexivity|]. split; [discriminate|]. intros _.
      exists k, z, p, g, xs. cbn [wt_field fst snd wt] in Hw. repeat split; try assumption; try reflexivity.
    - eexists. split; [reflexivity|]. split; [reflexivity|discriminate]. }
  split.
  - cbn [wt]. apply andb_true_intro. split.
    + apply wt_fields_nth. split; [rewrite Hdl; symmetry; exact Hlen|]. intros j f w Hf Hw.
      assert (Hv : exists v, nth_error vs j = Some v).
      { destruct (nth_error vs j) eqn:E; [eauto|]. apply nth_error_None in E. assert (j < length dv)%nat by (apply nth_error_Some; rewrite Hw; discriminate). lia. }
      destruct Hv as [v Hv]. destruct (Hdv j f v Hf Hv) as [w' [Hw' [Hns Hsz]]].
      assert (w' = w) by congruence. subst w'.
      destruct (is_sizer fs j) eqn:Es.
      * destruct (Hsz eq_refl) as [k [z [p [g [xs [-> [-> [Hr [_ [_ [_ [Hle ->]]]]]]]]]]]].
        cbn [wt_field fst snd wt]. apply (in_range_down k z); [exact Hr|]. pose proof (len_nonneg xs). lia.
      * rewrite (Hns eq_refl). apply (Hall j f v Hf Hv).
    + apply counts_ok_intro; [rewrite Hdl; symmetry; exact Hlen|]. intros j f w s Hf Hw Hs.
      assert (Hv : exists v, nth_error vs j = Some v).
      { destruct (nth_error vs j) eqn:E; [eauto|]. apply nth_error_None in E. assert (j < length dv)%nat by (apply nth_error_Some; rewrite Hw; discriminate). lia. }
      destruct Hv as [v Hv]. destruct (Hdv j f v Hf Hv) as [w' [Hw' [Hns _]]].
      assert (w' = w) by congruence. subst w'.
      assert (Hb : bound_to s f = true) by (unfold bound_to; rewrite Hs; apply Nat.eqb_refl).
      rewrite (Hns (bound_not_sizer fs j f s Hl Hf Hb)).
      destruct (Hall j f v Hf Hv) as [_ [_ [_ Hss]]]. destruct (Hss s Hs) as [Hlt [xs [-> _]]].
      exists xs. split; [reflexivity|].
      (* the counter member s after deriving *)
      assert (Hss' : is_sizer fs s = true).
      { unfold is_sizer. apply existsb_exists. exists f. split; [eapply nth_error_In; exact Hf|exact Hb]. }
      destruct (sizer_is_scalar fs s Hl Hss') as [k Hk].
      assert (Hsv : exists u, nth_error vs s = Some u).
      { assert (s < length vs)%nat by (rewrite Hlen; apply nth_error_Some; change (fkind * ty)%type with field in *; rewrite Hk; discriminate).
        destruct (nth_error vs s) eqn:E; [eauto|]. apply nth_error_None in E. lia. }
      destruct Hsv as [u Hu]. unfold dv. rewrite nth_error_derive, Hu. cbn [option_map Nat.add]. rewrite Hss'.
      change ApiSpec.first_bound_len with PyDecode.first_bound_len.
      rewrite (fbl_unshared s fs vs j f xs (Hun s) Hf Hb Hv). reflexivity.
  - cbn [within_guard]. apply guard_fields_intro. intros j f w Hf Hw.
    assert (Hv : exists v, nth_error vs j = Some v).
    { destruct (nth_error vs j) eqn:E; [eauto|]. apply nth_error_None in E. assert (j < length dv)%nat by (apply nth_error_Some; rewrite Hw; discriminate). lia. }
    destruct Hv as [v Hv]. destruct (Hdv j f v Hf Hv) as [w' [Hw' [Hns Hsz]]].
    assert (w' = w) by congruence. subst w'.
    destruct (is_sizer fs j) eqn:Es.
    + destruct (Hsz eq_refl) as [k [z [p [g [xs [-> [_ [_ [_ [_ [_ [_ ->]]]]]]]]]]]]. reflexivity.
    + rewrite (Hns eq_refl). apply (Hall j f v Hf Hv).
Qed.

Section Wt.
  Variable e : endian.
  Variable data : bytes.
  Hypothesis Hbytes : forallb is_byte data = true.

  Lemma unpack_range k pos z w : 0 <= pos -> py_unpack e k data pos = Ok (z, w) -> in_range k z = true /\ w = sk_size k.
  Proof.
    intros Hp. unfold py_unpack. rewrite (py_num_short_spec _ _ _), !(py_size_spec k), (py_fmt_signed_spec k), (py_fmt_size_spec k).
    destruct (len data - pos <? sk_size k) eqn:E; [discriminate|]. intros H. injection H as <- <-. split; [|reflexivity].
    pose proof (sk_size_pos k) as Hk.
    pose proof (dec_uint_range e (slice data pos (sk_size k)) (slice_bytes data pos (sk_size k) Hbytes)) as Hr.
    rewrite (len_slice data pos (sk_size k)) in Hr by lia.
    set (u := dec_uint e (slice data pos (sk_size k))) in *.
    unfold in_range, sk_min, sk_max, to_signed.
    destruct k; cbn [sk_signed sk_is_int sk_size] in *;
      change (256 ^ 1) with 256 in *; change (256 ^ 2) with 65536 in *; change (256 ^ 4) with 4294967296 in *;
      change (256 ^ 8) with 18446744073709551616 in *;
      change (8 * 1 - 1) with 7 in *; change (8 * 2 - 1) with 15 in *; change (8 * 4 - 1) with 31 in *; change (8 * 8 - 1) with 63 in *;
      change (8 * 1) with 8 in *; change (8 * 2) with 16 in *; change (8 * 4) with 32 in *; change (8 * 8) with 64 in *;
      change (2 ^ 7) with 128 in *; change (2 ^ 15) with 32768 in *; change (2 ^ 31) with 2147483648 in *;
      change (2 ^ 63) with 9223372036854775808 in *;
      change (2 ^ 8) with 256 in *; change (2 ^ 16) with 65536 in *; change (2 ^ 32) with 4294967296 in *;
      change (2 ^ 64) with 18446744073709551616 in *;
      try (match goal with |- context [if ?c then u else _] => destruct c eqn:E2 end); lia.
  Qed.

  Variable decT : ty -> Z -> bool -> res (value * Z).

  Definition vok (t : ty) (v : value) : Prop := wt t v = true /\ within_guard t v = true.

  (* what the induction hypothesis says about composite element/member/arm types *)
  Definition wtP (t : ty) : Prop :=
    legal t = true -> PyDecode.is_comp t = true -> forall pos terminal v n, 0 <= pos ->
      decT t pos terminal = Ok (v, n) -> vok t v /\ 0 <= n.

  Lemma dec_scalar_wt t pos v n : 0 <= pos -> py_dec_scalar e data t pos = Ok (v, n) -> vok t v /\ 0 <= n.
  Proof.
    intros Hp. destruct t as [k| |vals|fs|arms]; cbn [py_dec_scalar]; try discriminate.
    - destruct (py_unpack e k data pos) as [[z w]|] eqn:Eu; [|discriminate]. cbn [bind fst snd]. intros H. injection H as <- <-.
      destruct (unpack_range k pos z w Hp Eu) as [Hr ->]. pose proof (sk_size_pos k). repeat split; [exact Hr|lia].
    - destruct (py_unpack e py_enum_base data pos) as [[z w]|] eqn:Eu; [|discriminate]. cbn [bind fst snd].
      destruct (existsb (Z.eqb z) vals) eqn:Ex; [|discriminate]. intros H. injection H as <- <-.
      rewrite py_enum_base_spec in Eu. destruct (unpack_range U32 pos z w Hp Eu) as [_ ->].
      repeat split; [exact Ex|cbn; lia].
  Qed.

  Lemma dec_base_wt t pos v n : wtP t -> legal t = true -> 0 <= pos ->
    py_dec_base e data decT t pos = Ok (v, n) -> vok t v /\ 0 <= n.
  Proof.
    intros HP Hl Hp. destruct t as [k| |vals|fs|arms]; cbn [py_dec_base].
    - apply dec_scalar_wt; assumption.
    - cbn [py_dec_scalar]. discriminate.
    - apply dec_scalar_wt; assumption.
    - apply HP; try assumption; reflexivity.
    - apply HP; try assumption; reflexivity.
  Qed.

  Lemma dec_n_wt t : wtP t -> legal t = true -> forall n pos vs c, 0 <= pos ->
    py_dec_n e data decT t n pos = Ok (vs, c) ->
    length vs = n /\ forallb (wt t) vs = true /\ forallb (within_guard t) vs = true /\ 0 <= c.
  Proof.
    intros HP Hl. induction n as [|m IH]; intros pos vs c Hp; cbn [py_dec_n].
    - intros H. injection H as <- <-. repeat split. lia.
    - change (py_dec_n e data decT t (S m) pos) with
        (bind (py_dec_base e data decT t pos) (fun r => bind (py_dec_n e data decT t m (pos + snd r)) (fun rs => Ok (fst r :: fst rs, snd r + snd rs)))).
      destruct (py_dec_base e data decT t pos) as [[x s]|] eqn:Eb; [|discriminate]. cbn [bind fst snd].
      destruct (dec_base_wt t pos x s HP Hl Hp Eb) as [[Hw Hg] Hs].
      destruct (py_dec_n e data decT t m (pos + s)) as [[xs c']|] eqn:En; [|discriminate]. cbn [bind fst snd].
      intros H. injection H as <- <-.
      destruct (IH (pos + s) xs c' ltac:(lia) En) as [I1 [I2 [I3 I4]]].
      cbn [length forallb]. rewrite Hw, Hg, I1, I2, I3. repeat split. lia.
  Qed.

  Lemma dec_greedy_wt t pos : wtP t -> legal t = true -> PyDecode.is_comp t = true -> 0 <= pos ->
    forall fuel cursor vs c, 0 <= cursor ->
    py_dec_greedy data decT t pos fuel cursor = Ok (vs, c) ->
    forallb (wt t) vs = true /\ forallb (within_guard t) vs = true /\ 0 <= c.
  Proof.
    intros HP Hl Hc Hp. induction fuel as [|f IH]; intros cursor vs c Hcur; cbn [py_dec_greedy].
    - destruct (pos + cursor <? len data); [discriminate|]. intros H. injection H as <- <-. repeat split. exact Hcur.
    - destruct (pos + cursor <? len data); [|intros H; injection H as <- <-; repeat split; exact Hcur].
      destruct (decT t (pos + cursor) false) as [[x s]|] eqn:Ed; [|discriminate]. cbn [bind fst snd].
      destruct (HP Hl Hc (pos + cursor) false x s ltac:(lia) Ed) as [[Hw Hg] Hs].
      destruct (py_dec_greedy data decT t pos f (cursor + s)) as [[xs c']|] eqn:Eg; [|discriminate]. cbn [bind fst snd].
      intros H. injection H as <- <-.
      destruct (IH (cursor + s) xs c' ltac:(lia) Eg) as [I1 [I2 I3]].
      cbn [forallb]. rewrite Hw, Hg, I1, I2. repeat split. exact I3.
  Qed.

  Lemma vints_wt bs : forallb is_byte bs = true -> forallb (wt TByte) (vints bs) = true.
  Proof. induction bs as [|b r IH]; cbn [vints map forallb]; [reflexivity|]. intros H. apply andb_prop in H. destruct H as [H1 H2].
         change (wt TByte (VInt b)) with (is_byte b). rewrite H1. apply IH. exact H2. Qed.
  Lemma vints_guard bs : forallb (within_guard TByte) (vints bs) = true.
  Proof. induction bs as [|b r IH]; cbn [vints map forallb]; [reflexivity|]. exact IH. Qed.
  Lemma len_vints bs : len (vints bs) = len bs.
  Proof. unfold vints. apply len_map. Qed.

  (* one member *)
  Lemma dec_field_wt fuel all_fs decoded i f pos v n :
    wtP (snd f) -> fok f -> 0 <= pos ->
    (forall s, sizer_of (fst f) = Some s -> exists h, nth_error decoded s = Some (VInt h) /\ 0 <= h <= 65536) ->
    (fst f = FPlain -> is_sizer all_fs i = true -> exists k, snd f = TScalar k) ->
    py_dec_field e data decT fuel all_fs decoded i f pos = Ok (v, n) ->
    wt_field wt f v = true /\ PyRoundtrip.guard_field within_guard f v = true /\ 0 <= n /\
    (fst f = FPlain -> is_sizer all_fs i = true -> exists z, v = VInt z /\ 0 <= z <= 65536) /\
    (forall s, sizer_of (fst f) = Some s -> exists xs, v = VList xs /\ forall h, nth_error decoded s = Some (VInt h) -> len xs <= h).
  Proof.
    intros HP Hok Hp Hhint Hsc. pose proof Hok as [Hl Hk].
    unfold py_dec_field, wt_field, PyRoundtrip.guard_field. cbn zeta.
    destruct (fst f) as [| |m|s|m s|] eqn:Ek.
    - (* plain *)
      destruct (is_sizer all_fs i) eqn:Es.
      + destruct (Hsc eq_refl eq_refl) as [k Et]. rewrite Et.
        destruct (py_unpack e k data pos) as [[z w]|] eqn:Eu; [|discriminate]. cbn [bind fst snd].
        rewrite py_guard_exceeded_spec, py_len_negative_spec.
        destruct (65536 <? z) eqn:E1; [discriminate|]. destruct (z <? 0) eqn:E2; [discriminate|].
        intros H. injection H as <- <-. destruct (unpack_range k pos z w Hp Eu) as [Hr ->]. pose proof (sk_size_pos k).
        repeat split; try exact Hr; try lia; try discriminate. intros _ _. exists z. split; [reflexivity|lia].
      + intros H. destruct (dec_base_wt _ _ _ _ HP Hl Hp H) as [[Hw Hg] Hn].
        repeat split; try assumption; try discriminate.
    - (* optional *)
      destruct Hk as [Hnb Hfx].
      destruct (py_unpack e U32 data pos) as [[z w]|] eqn:Eu; [|discriminate]. cbn [bind fst snd].
      rewrite py_opt_alignment_spec, py_align_eq.
      pose proof (align_ok (snd f)) as Hao. apply okal_pos in Hao.
      destruct (z =? 0).
      + intros H. injection H as <- <-. rewrite (py_sizeof_eq _ Hl Hfx). pose proof (size_nonneg _ Hl).
        repeat split; try discriminate. lia.
      + destruct (py_dec_base e data decT (snd f) (pos + Z.max 4 (align (snd f)))) as [[x c]|] eqn:Eb; [|discriminate].
        cbn [bind fst snd]. intros H. injection H as <- <-.
        destruct (dec_base_wt (snd f) (pos + Z.max 4 (align (snd f))) x c HP Hl ltac:(lia) Eb) as [[Hw Hg] Hn].
        repeat split; try assumption; try discriminate. lia.
    - (* fixed array *)
      destruct Hk as [Hm Hfx].
      destruct (snd f) eqn:Et.
      2:{ destruct (len data - pos <? m) eqn:E1; [discriminate|]. intros H. injection H as <- <-.
          rewrite len_vints, (len_slice data pos m) by lia. rewrite Z.eqb_refl, vints_wt by (apply slice_bytes; exact Hbytes).
          rewrite vints_guard. repeat split; try discriminate. lia. }
      all: rewrite <- Et in *;
        (destruct (py_dec_n e data decT (snd f) (Z.to_nat m) pos) as [[xs c]|] eqn:En; [|discriminate]);
        cbn [bind fst snd]; intros H; injection H as <- <-;
        destruct (dec_n_wt _ HP Hl _ _ _ _ Hp En) as [I1 [I2 [I3 I4]]];
        (assert (El : (len xs =? m) = true) by (unfold len; rewrite I1; lia)); rewrite El, I2, I3;
        repeat split; try discriminate; exact I4.
    - (* bound array *)
      destruct (Hhint s eq_refl) as [h [Eh Hh]]. rewrite Eh. cbn [bind].
      destruct (snd f) eqn:Et.
      2:{ destruct (len data - pos <? 0) eqn:E0; [discriminate|]. destruct (len data - pos <? h) eqn:E1; [discriminate|].
          intros H. injection H as <- <-.
          rewrite len_vints, (len_slice data pos h) by lia. rewrite vints_wt by (apply slice_bytes; exact Hbytes).
          rewrite vints_guard. assert (E : (h <=? 65536) = true) by lia. rewrite E.
          repeat split; try discriminate; try lia. intros s' Hs'. injection Hs' as <-. eexists. split; [reflexivity|]. intros h' Hh'. rewrite Eh in Hh'. injection Hh' as <-. rewrite len_vints, (len_slice data pos h) by lia. lia. }
      all: rewrite <- Et in *;
        (destruct (0 >? len data - pos); [discriminate|]);
        (destruct (py_dec_n e data decT (snd f) (Z.to_nat h) pos) as [[xs c]|] eqn:En; [|discriminate]);
        cbn [bind fst snd]; intros H; injection H as <- <-;
        destruct (dec_n_wt _ HP Hl _ _ _ _ Hp En) as [I1 [I2 [I3 I4]]];
        (assert (El : (len xs <=? 65536) = true) by (unfold len; rewrite I1; lia)); rewrite El, I2, I3;
        repeat split; try discriminate; try lia; intros s' Hs'; injection Hs' as <-; eexists; (split; [reflexivity|]); intros h' Hh'; rewrite Eh in Hh'; injection Hh' as <-; unfold len; rewrite I1; lia.
    - (* limited array *)
      destruct Hk as [Hm Hfx].
      destruct (Hhint s eq_refl) as [h [Eh Hh]]. rewrite Eh. cbn [bind].
      destruct (snd f) eqn:Et.
      2:{ destruct (len data - pos <? m) eqn:E0; [discriminate|]. destruct (m <? len (slice data pos h)) eqn:E1; [discriminate|].
          intros H. injection H as <- <-.
          pose proof (len_slice_le data pos h ltac:(lia)) as Hle.
          rewrite len_vints. rewrite vints_wt by (apply slice_bytes; exact Hbytes). rewrite vints_guard.
          assert (E : (len (slice data pos h) <=? m) = true) by lia. rewrite E.
          assert (E' : (len (slice data pos h) <=? 65536) = true) by lia. rewrite E'.
          repeat split; try discriminate; try lia. intros s' Hs'. injection Hs' as <-. eexists. split; [reflexivity|]. intros h' Hh'. rewrite Eh in Hh'. injection Hh' as <-. rewrite len_vints. exact Hle. }
      all: rewrite <- Et in *;
        (destruct (_ >? len data - pos); [discriminate|]);
        (destruct (PyDecode.is_comp (snd f) && (m <? h)); [discriminate|]);
        (destruct (py_dec_n e data decT (snd f) (Z.to_nat h) pos) as [[xs c]|] eqn:En; [|discriminate]);
        cbn [bind fst snd]; (destruct (m <? h) eqn:Emh; [discriminate|]); intros H; injection H as <- <-;
        destruct (dec_n_wt _ HP Hl _ _ _ _ Hp En) as [I1 [I2 [I3 I4]]];
        (assert (El : (len xs <=? m) = true) by (unfold len; rewrite I1; lia));
        (assert (El' : (len xs <=? 65536) = true) by (unfold len; rewrite I1; lia)); rewrite El, El', I2, I3;
        repeat split; try discriminate; try lia; intros s' Hs'; injection Hs' as <-; eexists; (split; [reflexivity|]); intros h' Hh'; rewrite Eh in Hh'; injection Hh' as <-; unfold len; rewrite I1; lia.
    - (* greedy array *)
      destruct (snd f) eqn:Et.
      2:{ destruct (len data - pos <? 0) eqn:E0; [discriminate|]. intros H. injection H as <- <-.
          rewrite vints_wt by (apply forallb_skipn'; exact Hbytes). rewrite vints_guard.
          repeat split; try discriminate. lia. }
      1,2: rewrite <- Et in *;
        (destruct (0 >? len data - pos); [discriminate|]);
        (destruct (py_dec_n e data decT (snd f) _ pos) as [[xs c]|] eqn:En; [|discriminate]);
        cbn [bind fst snd]; intros H; injection H as <- <-;
        destruct (dec_n_wt _ HP Hl _ _ _ _ Hp En) as [I1 [I2 [I3 I4]]]; rewrite I2, I3;
        repeat split; try discriminate; lia.
      all: rewrite <- Et in *;
        (assert (Hc : PyDecode.is_comp (snd f) = true) by (rewrite Et; reflexivity));
        (destruct (0 >? len data - pos); [discriminate|]);
        (destruct (py_dec_greedy data decT (snd f) pos fuel 0) as [[xs c]|] eqn:Eg; [|discriminate]);
        cbn [bind fst snd]; intros H; injection H as <- <-;
        destruct (dec_greedy_wt (snd f) pos HP Hl Hc Hp fuel 0 xs c ltac:(lia) Eg) as [I2 [I3 I4]]; rewrite I2, I3;
        repeat split; try discriminate; lia.
  Qed.

  (* the loop over the members *)
  Lemma dec_fields_wt fuel sa all_fs : okal sa ->
    (forall i, is_sizer all_fs i = true -> exists k, nth_error all_fs i = Some (FPlain, TScalar k)) ->
    forall fs pre, all_fs = pre ++ fs -> legal_fields legal pre fs = true ->
    Forall (fun f => wtP (snd f)) fs ->
    forall decoded pos vs endpos, finv all_fs pre decoded -> 0 <= pos ->
    py_dec_fields e data decT fuel sa all_fs fs (fst (py_scan fs)) (length pre) decoded pos = Ok (vs, endpos) ->
    finv all_fs all_fs vs /\ pos <= endpos.
  Proof.
    intros Hsa Hsizers fs. induction fs as [|f r IH]; intros pre Eall Hl HIH decoded pos vs endpos Hinv Hp.
    - cbn [py_scan fst py_dec_fields]. rewrite py_dist_pad by assumption. intros H. injection H as <- <-.
      rewrite app_nil_r in Eall. subst pre. pose proof (pad_nonneg sa pos Hsa). split; [exact Hinv|lia].
    - rewrite py_scan_cons.
      inversion HIH as [|? ? HPf HIHr]; subst.
      pose proof (legal_fields_fok _ _ Hl) as Hok. inversion Hok as [|? ? Hokf Hokr]; subst.
      cbn [legal_fields] in Hl. apply andb_prop in Hl. destruct Hl as [Hlf Hlr].
      pose proof (pad_nonneg _ pos (falign_ok f)) as Hpad.
      set (pos1 := pos + pad (falign align f) pos).
      destruct Hinv as [Hdl Hdall].
      assert (Hnth : nth_error (pre ++ f :: r) (length pre) = Some f).
      { rewrite nth_error_app2 by lia. rewrite Nat.sub_diag. reflexivity. }
      assert (Hslt : forall s, sizer_of (fst f) = Some s -> (s < length pre)%nat).
      { intros s Hs. eapply legal_field_sizer_ref; eassumption. }
      assert (Hhint : forall s, sizer_of (fst f) = Some s -> exists h, nth_error decoded s = Some (VInt h) /\ 0 <= h <= 65536).
      { intros s Hs. pose proof (Hslt s Hs) as Hlt.
        assert (Hss : is_sizer (pre ++ f :: r) s = true).
        { unfold is_sizer. rewrite existsb_app. cbn [existsb]. unfold bound_to at 2. rewrite Hs, Nat.eqb_refl. rewrite orb_true_r. reflexivity. }
        destruct (Hsizers s Hss) as [k Hk]. rewrite nth_error_app1 in Hk by exact Hlt.
        assert (Hv : exists v, nth_error decoded s = Some v).
        { destruct (nth_error decoded s) eqn:E; [eauto|]. apply nth_error_None in E. lia. }
        destruct Hv as [v Hv]. destruct (Hdall s _ v Hk Hv) as [_ [_ [Hz _]]].
        destruct (Hz eq_refl Hss) as [z [-> Hz']]. exists z. split; [exact Hv|exact Hz']. }
      assert (Hsc : fst f = FPlain -> is_sizer (pre ++ f :: r) (length pre) = true -> exists k, snd f = TScalar k).
      { intros _ Hs. destruct (Hsizers _ Hs) as [k Hk]. rewrite Hnth in Hk. injection Hk as Hk. exists k. rewrite Hk. reflexivity. }
      assert (Estep : forall p pr,
        py_dec_fields e data decT fuel sa (pre ++ f :: r) (f :: r) (p :: pr) (length pre) decoded pos =
        bind (py_dec_field e data decT fuel (pre ++ f :: r) decoded (length pre) f pos1) (fun x =>
          let pos2 := pos1 + snd x in
          let pos3 := match p with Some a => pos2 + py_dist pos2 a | None => pos2 end in
          py_dec_fields e data decT fuel sa (pre ++ f :: r) r pr (S (length pre)) (decoded ++ [fst x]) pos3)).
      { intros p pr. cbn [py_dec_fields]. rewrite py_falign_eq', py_dist_pad by apply falign_ok. reflexivity. }
      assert (Hnext : forall v n pos3, pos1 + n <= pos3 ->
                py_dec_field e data decT fuel (pre ++ f :: r) decoded (length pre) f pos1 = Ok (v, n) ->
                py_dec_fields e data decT fuel sa (pre ++ f :: r) r (fst (py_scan r)) (S (length pre)) (decoded ++ [v]) pos3 = Ok (vs, endpos) ->
                finv (pre ++ f :: r) (pre ++ f :: r) vs /\ pos <= endpos).
      { intros v n pos3 H3 Ef Er.
        destruct (dec_field_wt fuel (pre ++ f :: r) decoded (length pre) f pos1 v n HPf Hokf ltac:(unfold pos1; lia) Hhint Hsc Ef)
          as [Fw [Fg [Fn [Fz Fs]]]].
        specialize (IH (pre ++ [f]) ltac:(rewrite <- app_assoc; reflexivity) Hlr HIHr (decoded ++ [v]) pos3 vs endpos).
        rewrite app_length in IH. cbn [length] in IH. replace (length pre + 1)%nat with (S (length pre)) in IH by lia.
        destruct IH as [I1 I2]; [| unfold pos1 in *; lia | exact Er | split; [exact I1|unfold pos1 in *; lia]].
        split; [rewrite !app_length; cbn [length]; lia|].
        intros j g w Hg Hw.
        destruct (Nat.eq_dec j (length pre)) as [->|Hne].
        - rewrite nth_error_app2 in Hg by lia. rewrite Nat.sub_diag in Hg. cbn [nth_error] in Hg. injection Hg as <-.
          rewrite nth_error_app2 in Hw by lia. rewrite Hdl, Nat.sub_diag in Hw. cbn [nth_error] in Hw. injection Hw as <-.
          repeat split; try assumption.
          + eapply Hslt; eassumption.
          + destruct (Fs s H) as [xs [-> Hle]]. exists xs. split; [reflexivity|]. intros h Hh.
            rewrite nth_error_app1 in Hh by (rewrite Hdl; eapply Hslt; eassumption). apply Hle. exact Hh.
        - assert (Hjl : (j < length pre)%nat).
          { assert (j < length (pre ++ [f]))%nat by (apply nth_error_Some; rewrite Hg; discriminate). rewrite app_length in H. cbn [length] in H. lia. }
          rewrite nth_error_app1 in Hg by exact Hjl. rewrite nth_error_app1 in Hw by lia.
          destruct (Hdall j g w Hg Hw) as [D1 [D2 [D3 D4]]]. repeat split; try assumption.
          + apply (D4 s H).
          + destruct (D4 s H) as [Hlt [xs [-> Hle]]]. exists xs. split; [reflexivity|]. intros h Hh.
            rewrite nth_error_app1 in Hh by lia. apply Hle. exact Hh. }
      destruct (ends_block f); cbn [fst]; rewrite Estep;
        (destruct (py_dec_field e data decT fuel (pre ++ f :: r) decoded (length pre) f pos1) as [[v n]|] eqn:Ef; [|discriminate]);
        cbn [bind fst snd]; cbn zeta; intros Er.
      + apply (Hnext v n (pos1 + n + py_dist (pos1 + n) (blockal r))); [|reflexivity|exact Er].
        rewrite py_dist_pad by apply blockal_ok. pose proof (pad_nonneg (blockal r) (pos1 + n) (blockal_ok r)). lia.
      + apply (Hnext v n (pos1 + n)); [lia|reflexivity|exact Er].
  Qed.

  Lemma dec_arm_wt arms : Forall (fun a => wtP (snd a)) arms -> Forall aok arms ->
    forall i disc pos v, 0 <= pos -> py_dec_arm e data decT arms i disc pos = Ok v ->
    exists j x a, v = VUnion (i + j) x /\ nth_error arms j = Some a /\ wt (snd a) x = true /\ within_guard (snd a) x = true.
  Proof.
    intros HP Hok. induction arms as [|a r IH]; intros i disc pos v Hp; cbn [py_dec_arm]; [discriminate|].
    inversion HP as [|? ? HPa HPr]; subst. inversion Hok as [|? ? Hoa Hor]; subst.
    destruct (fst a =? disc).
    - destruct (py_dec_base e data decT (snd a) pos) as [[x c]|] eqn:Eb; [|discriminate]. cbn [bind fst].
      intros H. injection H as <-. destruct Hoa as [_ [Hla _]].
      destruct (dec_base_wt _ _ _ _ HPa Hla Hp Eb) as [[Hw Hg] _].
      exists O, x, a. rewrite Nat.add_0_r. repeat split; assumption.
    - intros H. destruct (IH HPr Hor (S i) disc pos v Hp H) as [j [x [b [-> [Hn [Hw Hg]]]]]].
      exists (S j), x, b. replace (i + S j)%nat with (S i + j)%nat by lia. repeat split; assumption.
  Qed.
End Wt.

Lemma wt_arms_intro arms : forall j x a, nth_error arms j = Some a -> wt (snd a) x = true -> wt_arms wt arms j x = true.
Proof.
  induction arms as [|b r IH]; intros [|j] x a Hn Hw; cbn in Hn; try discriminate; cbn [wt_arms].
  - injection Hn as ->. exact Hw.
  - eapply IH; eassumption.
Qed.

Lemma guard_arm_intro arms : forall j x a, nth_error arms j = Some a -> within_guard (snd a) x = true ->
  PyRoundtrip.guard_arm within_guard arms j x = true.
Proof.
  induction arms as [|b r IH]; intros [|j] x a Hn Hw; cbn in Hn; try discriminate; cbn [PyRoundtrip.guard_arm].
  - injection Hn as ->. exact Hw.
  - eapply IH; eassumption.
Qed.

(* ---- every value the decoder returns is well-typed and within the guard ---- *)
Theorem py_dec_wt e data fuel : forallb is_byte data = true ->
  forall t, unshared t -> wtP (py_dec e data fuel) t.
Proof.
  intros Hbytes t. induction t as [k| |vals|fs IH|arms IH] using ty_ind'; intros Hun Hl Hc pos terminal v n Hp; try discriminate Hc.
  - (* struct *)
    inversion Hun as [| | |? Hufs Huf|]; subst.
    assert (HIH : Forall (fun f => wtP (py_dec e data fuel) (snd f)) fs).
    { clear -IH Huf. induction IH as [|f r Hf Hr IHr]; [constructor|]. inversion Huf as [|? ? U1 U2]; subst.
      constructor; [apply Hf; exact U1|apply IHr; exact U2]. }
    cbn [py_dec].
    destruct (py_dec_fields e data (py_dec e data fuel) fuel (py_salign py_align fs) fs fs (fst (py_scan fs)) 0 [] pos)
      as [[vs endpos]|] eqn:Ef; [|discriminate].
    cbn [bind fst snd]. destruct (terminal && (endpos <? len data)); [discriminate|]. intros H. injection H as <- <-.
    assert (Hsa : okal (py_salign py_align fs)) by (rewrite py_salign_eq; apply salign_ok).
    pose proof Hl as Hl0. cbn [legal] in Hl. destruct fs as [|f0 r0]; [discriminate|].
    destruct (dec_fields_wt e data Hbytes (py_dec e data fuel) fuel _ (f0 :: r0) Hsa (fun i => sizer_is_scalar (f0 :: r0) i Hl0)
                (f0 :: r0) [] eq_refl Hl HIH [] pos vs endpos) as [Hinv Hle].
    { split; [reflexivity|]. intros j f v Hf. destruct j; discriminate Hf. }
    { exact Hp. }
    { exact Ef. }
    destruct (derive_wt (f0 :: r0) vs Hl0 Hufs Hinv) as [W1 W2].
    repeat split; try assumption. lia.
  - (* union *)
    inversion Hun as [| | | |? Hua]; subst.
    assert (HIH : Forall (fun a => wtP (py_dec e data fuel) (snd a)) arms).
    { clear -IH Hua. induction IH as [|a r Ha Hr IHr]; [constructor|]. inversion Hua as [|? ? U1 U2]; subst.
      constructor; [apply Ha; exact U1|apply IHr; exact U2]. }
    pose proof Hl as Hl0. apply legal_union in Hl. destruct Hl as [_ [Hok _]].
    assert (Hsz : 0 <= py_sizeof (TUnion arms)) by (rewrite (py_sizeof_eq _ Hl0 eq_refl); apply size_nonneg; exact Hl0).
    cbn [py_dec].
    destruct (py_unpack e U32 data pos) as [[d w]|] eqn:Eu; [|discriminate]. cbn [bind fst snd].
    destruct (py_dec_arm e data (py_dec e data fuel) arms 0 d (pos + py_align (TUnion arms))) as [u|] eqn:Ea; [|discriminate].
    cbn [bind]. destruct (len data - pos <? py_sizeof (TUnion arms)); [discriminate|].
    destruct (terminal && (len data - pos >? py_sizeof (TUnion arms))); [discriminate|].
    intros H. injection H as <- <-.
    assert (Hpa : 0 <= pos + py_align (TUnion arms)).
    { rewrite py_align_eq. pose proof (align_ok (TUnion arms)) as Ha. apply okal_pos in Ha. lia. }
    destruct (dec_arm_wt e data Hbytes (py_dec e data fuel) arms HIH Hok 0 d _ u Hpa Ea) as [j [x [a [-> [Hn [Hw Hg]]]]]].
    cbn [Nat.add]. split; [split|].
    + cbn [wt]. eapply wt_arms_intro; eassumption.
    + cbn [within_guard]. eapply guard_arm_intro; eassumption.
    + exact Hsz.
Qed.
