(* proofs/PrintFacts.v — the Python and the C++ text renderer models produce the text of spec/Text.v. *)
From Coq Require Import ZArith List Bool Lia.
From Prophy Require Import Bytes Schema Text Print Views.
Import ListNotations.
Local Open Scope Z_scope.

(* ---------------- rendering of line lists ---------------- *)
Lemma render_lines_app a b : render_lines (a ++ b) = render_lines a ++ render_lines b.
Proof. unfold render_lines. apply flat_map_app. Qed.

Lemma render_lines_cons l r : render_lines (l :: r) = spaces (fst l) ++ snd l ++ 10 :: render_lines r.
Proof. unfold render_lines, render_line. cbn [flat_map]. rewrite <- !app_assoc. reflexivity. Qed.

Lemma render_lines_one i s : render_lines [(i, s)] = spaces i ++ s ++ [10].
Proof. rewrite render_lines_cons. reflexivity. Qed.

Definition line_ok (l : line) : Prop := no_nl (snd l) = true /\ snd l <> [].

Lemma no_nl_app a b : no_nl (a ++ b) = no_nl a && no_nl b.
Proof. unfold no_nl. apply forallb_app. Qed.

Lemma no_nl_spaces n : no_nl (spaces n) = true.
Proof. induction n as [|n IH]; [reflexivity|]. cbn. exact IH. Qed.

Lemma split_nl_nonempty s : split_nl s <> [].
Proof.
  induction s as [|c r IH]; cbn [split_nl]; [discriminate|].
  destruct (c =? 10); [discriminate|]. destruct (split_nl r); discriminate.
Qed.

Lemma split_nl_line s rest : no_nl s = true -> split_nl (s ++ 10 :: rest) = s :: split_nl rest.
Proof.
  induction s as [|c r IH]; intros H.
  - cbn. reflexivity.
  - cbn [no_nl forallb] in H. apply andb_prop in H. destruct H as [Hc Hr].
    cbn [app split_nl]. apply negb_true_iff in Hc. rewrite Hc. rewrite (IH Hr). reflexivity.
Qed.

Lemma bump_ok l : line_ok l -> line_ok (bump l).
Proof. intros H. exact H. Qed.

Lemma py_indent_cons s rest : no_nl s = true -> s <> [] ->
  py_indent (s ++ 10 :: rest) = 32 :: 32 :: s ++ 10 :: py_indent rest.
Proof.
  intros Hn Hne. unfold py_indent. rewrite (split_nl_line s rest Hn). cbn [map].
  destruct (split_nl rest) as [|h t] eqn:Hs; [exfalso; exact (split_nl_nonempty _ Hs)|].
  cbn [map join_nl]. destruct s as [|c cs]; [contradiction|]. reflexivity.
Qed.

Lemma py_indent_lines ls : Forall line_ok ls -> py_indent (render_lines ls) = render_lines (map bump ls).
Proof.
  induction ls as [|l r IH]; intros H.
  - reflexivity.
  - inversion H as [|? ? [Hn Hne] Hr]; subst. specialize (IH Hr).
    rewrite render_lines_cons. cbn [map]. rewrite render_lines_cons. cbn [bump fst snd].
    rewrite app_assoc. rewrite py_indent_cons.
    + rewrite IH. cbn [spaces app]. rewrite <- app_assoc. reflexivity.
    + rewrite no_nl_app, no_nl_spaces, Hn. reflexivity.
    + intros Hl. apply app_eq_nil in Hl. destruct Hl as [_ Hl]. contradiction.
Qed.

(* ---------------- decimal digits hold no newline ---------------- *)
Lemma no_nl_uint u : no_nl (uint_digits u) = true.
Proof. induction u; cbn; try reflexivity; exact IHu. Qed.

Lemma no_nl_dec z : no_nl (dec z) = true.
Proof. unfold dec. destruct (Z.to_int z); cbn; apply no_nl_uint. Qed.

(* ---------------- bytes: the three escapers agree on 0..255 ---------------- *)
Definition all_bytes : list Z := map Z.of_nat (seq 0 256).

Lemma in_all_bytes c : is_byte c = true -> In c all_bytes.
Proof.
  unfold is_byte. intros H. apply andb_prop in H. destruct H as [H1 H2].
  apply Z.leb_le in H1. apply Z.ltb_lt in H2. unfold all_bytes. apply in_map_iff.
  exists (Z.to_nat c). split; [lia|]. apply in_seq. lia.
Qed.

Lemma sweep (p : Z -> bool) : forallb p all_bytes = true -> forall c, is_byte c = true -> p c = true.
Proof. intros H c Hc. rewrite forallb_forall in H. apply H. apply in_all_bytes. exact Hc. Qed.

Fixpoint beqb (a b : bytes) : bool :=
  match a, b with
  | [], [] => true
  | x :: a', y :: b' => (x =? y) && beqb a' b'
  | _, _ => false
  end.

Lemma beqb_eq a b : beqb a b = true -> a = b.
Proof.
  revert b. induction a as [|x a IH]; intros [|y b] H; cbn in H; try discriminate; [reflexivity|].
  apply andb_prop in H. destruct H as [H1 H2]. apply Z.eqb_eq in H1. subst. f_equal. apply IH. exact H2.
Qed.

Lemma py_esc_sq c : is_byte c = true -> py_esc 39 c = esc_byte c.
Proof.
  intros H. apply beqb_eq. revert c H. apply sweep. vm_compute. reflexivity.
Qed.

Lemma py_esc_dq c : is_byte c = true -> c <> 34 -> replace_sq (py_esc 34 c) = esc_byte c.
Proof.
  intros H Hn. assert (Hs : (c =? 34) || beqb (replace_sq (py_esc 34 c)) (esc_byte c) = true).
  { clear Hn. revert c H. apply sweep. vm_compute. reflexivity. }
  apply orb_prop in Hs. destruct Hs as [Hs|Hs]; [apply Z.eqb_eq in Hs; contradiction|apply beqb_eq; exact Hs].
Qed.

Lemma no_nl_esc c : is_byte c = true -> no_nl (esc_byte c) = true.
Proof. revert c. apply sweep. vm_compute. reflexivity. Qed.

Lemma hex_pad c : is_byte c = true ->
  let s := int_text {| f_hex := true; f_fill := 48 |} c in
  ((c <? 32) || (126 <? c) = true) ->
  repeat 48 (2 - length s) ++ s = [hexdigit (c / 16); hexdigit (c mod 16)].
Proof.
  intros H. cbv zeta. intros H2.
  assert (Hs : negb ((c <? 32) || (126 <? c)) ||
               beqb (repeat 48 (2 - length (int_text {| f_hex := true; f_fill := 48 |} c)) ++
                     int_text {| f_hex := true; f_fill := 48 |} c) [hexdigit (c / 16); hexdigit (c mod 16)] = true).
  { clear H2. revert c H. apply sweep. vm_compute. reflexivity. }
  rewrite H2 in Hs. cbn [negb orb] in Hs. apply beqb_eq. exact Hs.
Qed.

Lemma flat_map_flat_map {A B C} (f : A -> list B) (g : B -> list C) l :
  flat_map g (flat_map f l) = flat_map (fun x => flat_map g (f x)) l.
Proof. induction l as [|x r IH]; [reflexivity|]. cbn [flat_map]. rewrite flat_map_app, IH. reflexivity. Qed.

Lemma flat_map_ext_Forall {A B} (f g : A -> list B) l :
  Forall (fun x => f x = g x) l -> flat_map f l = flat_map g l.
Proof. induction 1 as [|x r Hx _ IH]; [reflexivity|]. cbn [flat_map]. rewrite Hx, IH. reflexivity. Qed.

Lemma has_false c bs : has c bs = false -> Forall (fun x => x <> c) bs.
Proof.
  unfold has. induction bs as [|x r IH]; intros H; [constructor|]. cbn [existsb] in H.
  apply orb_false_elim in H. destruct H as [H1 H2]. constructor; [|apply IH; exact H2].
  apply Z.eqb_neq in H1. congruence.
Qed.

Lemma py_repr_bytes_quoted bs : Forall (fun c => is_byte c = true) bs -> py_repr_bytes bs = quoted bs.
Proof.
  intros Hb. unfold py_repr_bytes, py_repr_tail, quoted.
  destruct (has 39 bs && negb (has 34 bs)) eqn:Hq.
  - apply andb_prop in Hq. destruct Hq as [_ H34]. apply negb_true_iff in H34. apply has_false in H34.
    rewrite removelast_last. f_equal. f_equal. unfold replace_sq at 1. rewrite flat_map_flat_map.
    apply flat_map_ext_Forall. rewrite Forall_forall in *. intros c Hc.
    apply (py_esc_dq c (Hb c Hc) (H34 c Hc)).
  - f_equal. f_equal. apply flat_map_ext_Forall. rewrite Forall_forall in *. intros c Hc. apply py_esc_sq. apply Hb. exact Hc.
Qed.

Lemma no_nl_flat_map (f : Z -> bytes) bs : Forall (fun c => no_nl (f c) = true) bs -> no_nl (flat_map f bs) = true.
Proof. induction 1 as [|x r Hx _ IH]; [reflexivity|]. cbn [flat_map]. rewrite no_nl_app, Hx, IH. reflexivity. Qed.

Lemma no_nl_quoted bs : Forall (fun c => is_byte c = true) bs -> no_nl (quoted bs) = true.
Proof.
  intros Hb. unfold quoted. change (39 :: flat_map esc_byte bs ++ [39]) with ([39] ++ flat_map esc_byte bs ++ [39]).
  rewrite !no_nl_app. rewrite no_nl_flat_map; [reflexivity|].
  rewrite Forall_forall in *. intros c Hc. apply no_nl_esc. apply Hb. exact Hc.
Qed.

(* bytes values of a well-typed bytes field *)
Lemma wt_bytes_are_bytes xs : forallb (wt TByte) xs = true -> Forall (fun c => is_byte c = true) (map byte_of xs).
Proof.
  induction xs as [|x r IH]; intros H; [constructor|]. cbn [forallb] in H. apply andb_prop in H. destruct H as [H1 H2].
  cbn [map]. constructor; [|apply IH; exact H2]. destruct x; cbn [wt] in H1; try discriminate. exact H1.
Qed.

(* ---------------- enumerator names ---------------- *)
Lemma enum_name_last_none es z : existsb (Z.eqb z) (map fst es) = false -> enum_name_last es z = None.
Proof.
  induction es as [|[v n] r IH]; intros H; [reflexivity|]. cbn [map fst existsb] in H.
  apply orb_false_elim in H. destruct H as [H1 H2]. cbn [enum_name_last]. rewrite (IH H2).
  rewrite Z.eqb_sym, H1. reflexivity.
Qed.

Lemma enum_name_last_first es z : nodupZ (map fst es) = true -> enum_name_last es z = enum_name es z.
Proof.
  induction es as [|[v n] r IH]; intros H; [reflexivity|]. cbn [map fst nodupZ] in H.
  apply andb_prop in H. destruct H as [H1 H2]. apply negb_true_iff in H1.
  cbn [enum_name_last enum_name]. destruct (v =? z) eqn:Hv.
  - apply Z.eqb_eq in Hv. subst. rewrite enum_name_last_none by exact H1. reflexivity.
  - rewrite (IH H2). destruct (enum_name r z); reflexivity.
Qed.

Lemma enum_name_some es vals z :
  forallb (fun e => no_nl (snd e)) es = true ->
  forallb (fun z => existsb (fun e => fst e =? z) es) vals = true ->
  existsb (Z.eqb z) vals = true ->
  exists s, enum_name es z = Some s /\ no_nl s = true.
Proof.
  intros Hn Hv Hz. apply existsb_exists in Hz. destruct Hz as [z' [Hin Hz]]. apply Z.eqb_eq in Hz. subst z'.
  rewrite forallb_forall in Hv. specialize (Hv z Hin). clear Hin vals.
  induction es as [|[v n] r IH]; cbn [existsb] in Hv; [discriminate|].
  cbn [forallb snd] in Hn. apply andb_prop in Hn. destruct Hn as [Hn1 Hn2]. cbn [fst] in Hv.
  cbn [enum_name]. destruct (v =? z).
  - exists n. split; [reflexivity|exact Hn1].
  - cbn [orb] in Hv. apply IH; assumption.
Qed.

(* ---------------- Python model = spec ---------------- *)
Definition PyP (t : ty) : Prop :=
  forall n v, names_ok t n = true -> wt t v = true ->
    py_str t n v = render_lines (body_lines t n v) /\ Forall line_ok (body_lines t n v).

Lemma line_ok_named name rest : no_nl name = true -> no_nl rest = true -> line_ok (O, name ++ colon ++ rest).
Proof.
  intros H1 H2. split; cbn [snd].
  - rewrite !no_nl_app, H1, H2. reflexivity.
  - intros H. apply app_eq_nil in H. destruct H as [_ H]. discriminate.
Qed.

Lemma py_elem_ok t : PyP t -> forall name n v, no_nl name = true -> names_ok t n = true -> wt t v = true ->
  py_fts_elem py_str name t n v = render_lines (elem_lines body_lines name t n v)
  /\ Forall line_ok (elem_lines body_lines name t n v).
Proof.
  intros IH name n v Hname Hn Hw.
  assert (Hcomp : forall t', t' = t -> (exists fs, t' = TStruct fs) \/ (exists arms, t' = TUnion arms) ->
     name ++ open_brace ++ [10] ++ py_indent (py_str t n v) ++ close_brace ++ [10]
       = render_lines ((O, name ++ open_brace) :: map bump (body_lines t n v) ++ [(O, close_brace)])
     /\ Forall line_ok ((O, name ++ open_brace) :: map bump (body_lines t n v) ++ [(O, close_brace)])).
  { intros t' _ _. destruct (IH n v Hn Hw) as [Heq Hok]. split.
    - rewrite Heq, (py_indent_lines _ Hok). rewrite render_lines_cons, render_lines_app, render_lines_one.
      cbn [fst snd spaces app]. rewrite <- !app_assoc. reflexivity.
    - constructor.
      + split; cbn [snd]; [rewrite no_nl_app, Hname; reflexivity|].
        intros H. apply app_eq_nil in H. destruct H as [_ H]. discriminate.
      + apply Forall_app. split.
        * apply Forall_forall. intros l Hl. apply in_map_iff in Hl. destruct Hl as [l0 [<- Hl0]].
          rewrite Forall_forall in Hok. apply bump_ok. apply Hok. exact Hl0.
        * constructor; [|constructor]. split; [reflexivity|discriminate]. }
  destruct t as [k| |vals|fs|arms].
  - destruct v; cbn [wt] in Hw; try discriminate. cbn [py_fts_elem elem_lines]. split.
    + rewrite render_lines_one. cbn [spaces app]. rewrite <- !app_assoc. reflexivity.
    + constructor; [|constructor]. apply line_ok_named; [exact Hname|apply no_nl_dec].
  - destruct v; cbn [wt] in Hw; try discriminate. cbn [py_fts_elem elem_lines]. split.
    + rewrite render_lines_one. cbn [spaces app]. rewrite <- !app_assoc. reflexivity.
    + constructor; [|constructor]. apply line_ok_named; [exact Hname|apply no_nl_dec].
  - destruct v; cbn [wt] in Hw; try discriminate.
    destruct n as [|es| |]; cbn [names_ok] in Hn; try discriminate.
    apply andb_prop in Hn. destruct Hn as [Hn Hnd]. apply andb_prop in Hn. destruct Hn as [Hn1 Hn2].
    cbn [py_fts_elem elem_lines]. rewrite (enum_name_last_first es z Hnd).
    destruct (enum_name_some es vals z Hn1 Hn2 Hw) as [s [Hs Hsn]]. rewrite Hs. split.
    + rewrite render_lines_one. cbn [spaces app]. rewrite <- !app_assoc. reflexivity.
    + constructor; [|constructor]. apply line_ok_named; assumption.
  - cbn [py_fts_elem elem_lines]. apply (Hcomp (TStruct fs) eq_refl). left. eauto.
  - cbn [py_fts_elem elem_lines]. apply (Hcomp (TUnion arms) eq_refl). right. eauto.
Qed.

Lemma py_elems_ok t : PyP t -> forall name n xs, no_nl name = true -> names_ok t n = true ->
  forallb (wt t) xs = true ->
  flat_map (py_fts_elem py_str name t n) xs = render_lines (flat_map (elem_lines body_lines name t n) xs)
  /\ Forall line_ok (flat_map (elem_lines body_lines name t n) xs).
Proof.
  intros IH name n xs Hname Hn. induction xs as [|x r IHx]; intros Hw.
  - split; [reflexivity|constructor].
  - cbn [forallb] in Hw. apply andb_prop in Hw. destruct Hw as [Hw1 Hw2]. specialize (IHx Hw2).
    destruct IHx as [E1 O1]. destruct (py_elem_ok t IH name n x Hname Hn Hw1) as [E2 O2].
    cbn [flat_map]. split; [rewrite render_lines_app, E1, E2; reflexivity|apply Forall_app; split; assumption].
Qed.

Lemma py_field_ok f : PyP (snd f) -> forall c name n v, no_nl name = true -> names_ok (snd f) n = true ->
  wt_field wt f v = true ->
  py_field_str py_str c name f n v = render_lines (field_lines body_lines c name f n v)
  /\ Forall line_ok (field_lines body_lines c name f n v).
Proof.
  intros IH c name n v Hname Hn Hw. destruct f as [k t]. cbn [snd fst] in *.
  assert (Harr : forall xs, forallb (wt t) xs = true ->
     match t with
     | TByte => name ++ colon ++ py_repr_bytes (map byte_of xs) ++ [10]
     | _ => flat_map (py_fts_elem py_str name t n) xs
     end = render_lines match t with
                        | TByte => [(O, name ++ colon ++ quoted (map byte_of xs))]
                        | _ => flat_map (elem_lines body_lines name t n) xs
                        end
     /\ Forall line_ok match t with
                        | TByte => [(O, name ++ colon ++ quoted (map byte_of xs))]
                        | _ => flat_map (elem_lines body_lines name t n) xs
                        end).
  { intros xs Hxs. destruct t; try (apply py_elems_ok; assumption).
    pose proof (wt_bytes_are_bytes xs Hxs) as Hb. rewrite (py_repr_bytes_quoted _ Hb). split.
    - rewrite render_lines_one. cbn [spaces app]. rewrite <- !app_assoc. reflexivity.
    - constructor; [|constructor]. apply line_ok_named; [exact Hname|apply no_nl_quoted; exact Hb]. }
  unfold py_field_str, field_lines, wt_field in *. cbn [fst snd] in *.
  destruct k as [| |m|s|m s|].
  - destruct c; [split; [reflexivity|constructor]|]. apply py_elem_ok; assumption.
  - destruct v; try discriminate; [split; [reflexivity|constructor]|]. apply py_elem_ok; assumption.
  - destruct v; try discriminate. apply andb_prop in Hw. destruct Hw as [_ Hw]. apply Harr. exact Hw.
  - destruct v; try discriminate. apply Harr. exact Hw.
  - destruct v; try discriminate. apply andb_prop in Hw. destruct Hw as [_ Hw]. apply Harr. exact Hw.
  - destruct v; try discriminate. apply Harr. exact Hw.
Qed.

Lemma py_fields_ok all : forall fs, Forall (fun f => PyP (snd f)) fs -> forall i ms vs,
  members_ok names_ok fs ms = true -> wt_fields wt fs vs = true ->
  py_fields_str py_str all i fs ms vs = render_lines (fields_lines body_lines all i fs ms vs)
  /\ Forall line_ok (fields_lines body_lines all i fs ms vs).
Proof.
  induction 1 as [|f r Hf _ IH]; intros i ms vs Hm Hw.
  - destruct ms; destruct vs; split; try reflexivity; constructor.
  - destruct ms as [|m mr]; cbn [members_ok] in Hm; try discriminate.
    destruct vs as [|v vr]; cbn [wt_fields] in Hw; try discriminate.
    apply andb_prop in Hm. destruct Hm as [Hm Hmr]. apply andb_prop in Hm. destruct Hm as [Hnm Hok].
    apply andb_prop in Hw. destruct Hw as [Hw Hwr].
    cbn [py_fields_str fields_lines].
    destruct (py_field_ok f Hf (is_sizer all i) (fst m) (snd m) v Hnm Hok Hw) as [E1 O1].
    destruct (IH (S i) mr vr Hmr Hwr) as [E2 O2].
    split; [rewrite render_lines_app, E1, E2; reflexivity|apply Forall_app; split; assumption].
Qed.

Lemma py_arm_ok : forall arms, Forall (fun a => PyP (snd a)) arms -> forall ms i x,
  members_ok names_ok arms ms = true -> wt_arms wt arms i x = true ->
  py_arm_str py_str arms ms i x = render_lines (arm_lines body_lines arms ms i x)
  /\ Forall line_ok (arm_lines body_lines arms ms i x).
Proof.
  induction 1 as [|a r Ha _ IH]; intros ms i x Hm Hw.
  - destruct i; cbn [wt_arms] in Hw; discriminate.
  - destruct ms as [|m mr]; cbn [members_ok] in Hm; try discriminate.
    apply andb_prop in Hm. destruct Hm as [Hm Hmr]. apply andb_prop in Hm. destruct Hm as [Hnm Hok].
    destruct i as [|j]; cbn [wt_arms] in Hw; cbn [py_arm_str arm_lines].
    + apply py_elem_ok; assumption.
    + apply IH; assumption.
Qed.

Theorem py_str_spec t : PyP t.
Proof.
  induction t using ty_ind'; intros n v Hn Hw.
  - destruct n, v; split; try reflexivity; constructor.
  - destruct n, v; split; try reflexivity; constructor.
  - destruct n, v; split; try reflexivity; constructor.
  - destruct n as [| |ms|]; cbn [names_ok] in Hn; try discriminate.
    destruct v; cbn [wt] in Hw; try discriminate. apply andb_prop in Hw. destruct Hw as [Hw _].
    cbn [py_str body_lines]. apply py_fields_ok; assumption.
  - destruct n as [| | |ms]; cbn [names_ok] in Hn; try discriminate.
    destruct v; cbn [wt] in Hw; try discriminate.
    cbn [py_str body_lines]. apply py_arm_ok; assumption.
Qed.

(* ---------------- C++ model = spec; the stream's formatting state is restored ---------------- *)
Definition bumpn (k : nat) (l : line) : line := ((k + fst l)%nat, snd l).

Lemma map_bumpn_bump k ls : map (bumpn k) (map bump ls) = map (bumpn (S k)) ls.
Proof.
  rewrite map_map. apply map_ext. intros [i s]. unfold bumpn, bump. cbn [fst snd]. f_equal. lia.
Qed.

Lemma map_bumpn_0 ls : map (bumpn 0) ls = ls.
Proof. induction ls as [|[i s] r IH]; [reflexivity|]. cbn [map]. rewrite IH. reflexivity. Qed.

Lemma put_int_fmt0 z s : put_int z (s, fmt0) = (s ++ dec z, fmt0).
Proof. reflexivity. Qed.

Lemma range_false c : (32 <=? c) && (c <=? 126) = false -> (c <? 32) || (126 <? c) = true.
Proof.
  intros H. destruct (c <? 32) eqn:H1; [reflexivity|]. destruct (126 <? c) eqn:H2; [reflexivity|].
  apply Z.ltb_ge in H1. apply Z.ltb_ge in H2. apply Z.leb_le in H1. apply Z.leb_le in H2. rewrite H1, H2 in H. discriminate.
Qed.

Lemma cpp_print_byte_spec c s f : is_byte c = true -> cpp_print_byte c (s, f) = (s ++ esc_byte c, f).
Proof.
  intros Hb. destruct f as [hx fl]. unfold cpp_print_byte, esc_byte.
  destruct (c =? 9); [reflexivity|]. destruct (c =? 10); [reflexivity|]. destruct (c =? 13); [reflexivity|].
  destruct (c =? 39); [reflexivity|]. destruct (c =? 92); [reflexivity|].
  destruct ((32 <=? c) && (c <=? 126)) eqn:Hr; [reflexivity|].
  apply range_false in Hr. unfold put_int_w, put. cbn [fst snd f_hex f_fill].
  rewrite (hex_pad c Hb Hr). rewrite <- app_assoc. reflexivity.
Qed.

Lemma cpp_bytes_loop bs : Forall (fun c => is_byte c = true) bs -> forall s f,
  fold_left (fun o c => cpp_print_byte c o) bs (s, f) = (s ++ flat_map esc_byte bs, f).
Proof.
  induction 1 as [|c r Hc _ IH]; intros s f; cbn [fold_left flat_map].
  - rewrite app_nil_r. reflexivity.
  - rewrite (cpp_print_byte_spec c s f Hc), IH, <- app_assoc. reflexivity.
Qed.

Lemma cpp_put_bytes_spec bs s f : Forall (fun c => is_byte c = true) bs ->
  cpp_put_bytes bs (s, f) = (s ++ quoted bs, f).
Proof.
  intros Hb. unfold cpp_put_bytes, quoted, put. cbn [fst snd]. rewrite (cpp_bytes_loop bs Hb). cbn [fst snd].
  rewrite <- !app_assoc. reflexivity.
Qed.

Definition CppP (t : ty) : Prop :=
  forall n v ind s, names_ok t n = true -> wt t v = true ->
    cpp_print t n v ind (s, fmt0) = (s ++ render_lines (map (bumpn ind) (body_lines t n v)), fmt0).

Lemma render_bumpn_one ind c : render_lines (map (bumpn ind) [(O, c)]) = spaces ind ++ c ++ [10].
Proof. cbn [map]. unfold bumpn. cbn [fst snd]. rewrite Nat.add_0_r. apply render_lines_one. Qed.

Lemma cpp_elem_ok t : CppP t -> forall ind name n v s, names_ok t n = true -> wt t v = true ->
  cpp_print_one cpp_print ind name t n v (s, fmt0)
  = (s ++ render_lines (map (bumpn ind) (elem_lines body_lines name t n v)), fmt0).
Proof.
  intros IH ind name n v s Hn Hw.
  assert (Hcomp : put [10] (put close_brace (put (spaces ind)
                    (cpp_print t n v (S ind) (put [10] (put open_brace (put name (put (spaces ind) (s, fmt0))))))))
       = (s ++ render_lines (map (bumpn ind) ((O, name ++ open_brace) :: map bump (body_lines t n v) ++ [(O, close_brace)])), fmt0)).
  { unfold put at 4 5 6 7. cbn [fst snd]. rewrite (IH n v (S ind) _ Hn Hw). unfold put. cbn [fst snd].
    f_equal. cbn [map]. rewrite map_app, map_bumpn_bump. rewrite render_lines_cons, render_lines_app, render_bumpn_one.
    unfold bumpn. cbn [fst snd]. rewrite Nat.add_0_r. rewrite <- !app_assoc. reflexivity. }
  destruct t as [k| |vals|fs|arms].
  - destruct v; cbn [wt] in Hw; try discriminate. cbn [cpp_print_one elem_lines].
    rewrite render_bumpn_one. unfold put at 2 3 4. cbn [fst snd]. rewrite put_int_fmt0. unfold put. cbn [fst snd].
    rewrite <- !app_assoc. reflexivity.
  - destruct v; cbn [wt] in Hw; try discriminate. cbn [cpp_print_one elem_lines].
    rewrite render_bumpn_one. unfold put at 2 3 4. cbn [fst snd]. rewrite put_int_fmt0. unfold put. cbn [fst snd].
    rewrite <- !app_assoc. reflexivity.
  - destruct v; cbn [wt] in Hw; try discriminate.
    destruct n as [|es| |]; cbn [names_ok] in Hn; try discriminate.
    apply andb_prop in Hn. destruct Hn as [Hn Hnd]. apply andb_prop in Hn. destruct Hn as [Hn1 Hn2].
    cbn [cpp_print_one elem_lines].
    destruct (enum_name_some es vals z Hn1 Hn2 Hw) as [x [Hx _]]. rewrite Hx.
    rewrite render_bumpn_one. unfold put. cbn [fst snd]. rewrite <- !app_assoc. reflexivity.
  - cbn [cpp_print_one elem_lines]. exact Hcomp.
  - cbn [cpp_print_one elem_lines]. exact Hcomp.
Qed.

Lemma cpp_elems_ok t : CppP t -> forall ind name n xs s, names_ok t n = true -> forallb (wt t) xs = true ->
  cpp_print_n cpp_print ind name t n xs (s, fmt0)
  = (s ++ render_lines (map (bumpn ind) (flat_map (elem_lines body_lines name t n) xs)), fmt0).
Proof.
  intros IH ind name n xs. unfold cpp_print_n. induction xs as [|x r IHx]; intros s Hn Hw.
  - cbn. rewrite app_nil_r. reflexivity.
  - cbn [forallb] in Hw. apply andb_prop in Hw. destruct Hw as [Hw1 Hw2].
    cbn [fold_left flat_map]. rewrite (cpp_elem_ok t IH ind name n x s Hn Hw1). rewrite (IHx _ Hn Hw2).
    rewrite map_app, render_lines_app, <- app_assoc. reflexivity.
Qed.

Lemma firstn_all_le {A} (xs : list A) m : len xs <=? m = true -> firstn (Z.to_nat m) xs = xs.
Proof. intros H. apply Z.leb_le in H. unfold len in H. apply firstn_all2. lia. Qed.

Lemma cpp_field_ok f : CppP (snd f) -> forall c ind name n v s, names_ok (snd f) n = true ->
  wt_field wt f v = true ->
  cpp_field_print cpp_print c ind name f n v (s, fmt0)
  = (s ++ render_lines (map (bumpn ind) (field_lines body_lines c name f n v)), fmt0).
Proof.
  intros IH c ind name n v s Hn Hw. destruct f as [k t]. cbn [snd fst] in *.
  assert (Harr : forall xs, forallb (wt t) xs = true ->
     match t with
     | TByte => put [10] (cpp_put_bytes (map byte_of xs) (put colon (put name (put (spaces ind) (s, fmt0)))))
     | _ => cpp_print_n cpp_print ind name t n xs (s, fmt0)
     end = (s ++ render_lines (map (bumpn ind) match t with
                        | TByte => [(O, name ++ colon ++ quoted (map byte_of xs))]
                        | _ => flat_map (elem_lines body_lines name t n) xs
                        end), fmt0)).
  { intros xs Hxs. destruct t; try (apply cpp_elems_ok; assumption).
    pose proof (wt_bytes_are_bytes xs Hxs) as Hb. unfold put at 2 3 4. cbn [fst snd].
    rewrite (cpp_put_bytes_spec _ _ _ Hb). unfold put. cbn [fst snd]. rewrite render_bumpn_one.
    rewrite <- !app_assoc. reflexivity. }
  unfold cpp_field_print, field_lines, wt_field in *. cbn [fst snd] in *.
  destruct k as [| |m|b|m b|].
  - destruct c; [cbn; rewrite app_nil_r; reflexivity|]. apply cpp_elem_ok; assumption.
  - destruct v; try discriminate; [cbn; rewrite app_nil_r; reflexivity|]. apply cpp_elem_ok; assumption.
  - destruct v; try discriminate. apply andb_prop in Hw. destruct Hw as [_ Hw]. apply Harr. exact Hw.
  - destruct v; try discriminate. apply Harr. exact Hw.
  - destruct v; try discriminate. apply andb_prop in Hw. destruct Hw as [Hl Hw].
    rewrite (firstn_all_le vs m Hl). apply Harr. exact Hw.
  - destruct v; try discriminate. apply Harr. exact Hw.
Qed.

Lemma cpp_fields_ok all ind : forall fs, Forall (fun f => CppP (snd f)) fs -> forall i ms vs s,
  members_ok names_ok fs ms = true -> wt_fields wt fs vs = true ->
  cpp_fields_print cpp_print all i ind fs ms vs (s, fmt0)
  = (s ++ render_lines (map (bumpn ind) (fields_lines body_lines all i fs ms vs)), fmt0).
Proof.
  induction 1 as [|f r Hf _ IH]; intros i ms vs s Hm Hw.
  - destruct ms; destruct vs; cbn; rewrite app_nil_r; reflexivity.
  - destruct ms as [|m mr]; cbn [members_ok] in Hm; try discriminate.
    destruct vs as [|v vr]; cbn [wt_fields] in Hw; try discriminate.
    apply andb_prop in Hm. destruct Hm as [Hm Hmr]. apply andb_prop in Hm. destruct Hm as [Hnm Hok].
    apply andb_prop in Hw. destruct Hw as [Hw Hwr].
    cbn [cpp_fields_print fields_lines].
    rewrite (cpp_field_ok f Hf (is_sizer all i) ind (fst m) (snd m) v s Hok Hw).
    rewrite (IH (S i) mr vr _ Hmr Hwr). rewrite map_app, render_lines_app, <- app_assoc. reflexivity.
Qed.

Lemma cpp_arm_ok ind : forall arms, Forall (fun a => CppP (snd a)) arms -> forall ms i x s,
  members_ok names_ok arms ms = true -> wt_arms wt arms i x = true ->
  cpp_arm_print cpp_print ind arms ms i x (s, fmt0)
  = (s ++ render_lines (map (bumpn ind) (arm_lines body_lines arms ms i x)), fmt0).
Proof.
  induction 1 as [|a r Ha _ IH]; intros ms i x s Hm Hw.
  - destruct i; cbn [wt_arms] in Hw; discriminate.
  - destruct ms as [|m mr]; cbn [members_ok] in Hm; try discriminate.
    apply andb_prop in Hm. destruct Hm as [Hm Hmr]. apply andb_prop in Hm. destruct Hm as [Hnm Hok].
    destruct i as [|j]; cbn [wt_arms] in Hw; cbn [cpp_arm_print arm_lines].
    + apply cpp_elem_ok; assumption.
    + apply IH; assumption.
Qed.

Theorem cpp_print_spec t : CppP t.
Proof.
  induction t using ty_ind'; intros n v ind s Hn Hw.
  - destruct n, v; cbn; rewrite app_nil_r; reflexivity.
  - destruct n, v; cbn; rewrite app_nil_r; reflexivity.
  - destruct n, v; cbn; rewrite app_nil_r; reflexivity.
  - destruct n as [| |ms|]; cbn [names_ok] in Hn; try discriminate.
    destruct v; cbn [wt] in Hw; try discriminate. apply andb_prop in Hw. destruct Hw as [Hw _].
    cbn [cpp_print body_lines]. apply cpp_fields_ok; assumption.
  - destruct n as [| | |ms]; cbn [names_ok] in Hn; try discriminate.
    destruct v; cbn [wt] in Hw; try discriminate.
    cbn [cpp_print body_lines]. apply cpp_arm_ok; assumption.
Qed.

Theorem cpp_text_spec t n v : names_ok t n = true -> wt t v = true -> cpp_text t n v = text_of t n v.
Proof.
  intros Hn Hw. pose proof (cpp_print_spec t n v O [] Hn Hw) as H. unfold cpp_text, text_of.
  etransitivity; [exact (f_equal fst H)|]. cbn [fst app]. rewrite map_bumpn_0. reflexivity.
Qed.

Theorem py_text_spec t n v : names_ok t n = true -> wt t v = true -> py_str t n v = text_of t n v.
Proof. intros Hn Hw. exact (proj1 (py_str_spec t n v Hn Hw)). Qed.

(* the text of a struct is the concatenation of texts each of which is a function of one member alone
   (its name, its type, its value, whether it is a counter) *)
Fixpoint fields_text (all : list field) (i : nat) (fs : list field) (ms : list (bytes * names)) (vs : list value) : bytes :=
  match fs, ms, vs with
  | f :: fr, m :: mr, v :: vr =>
      render_lines (field_lines body_lines (is_sizer all i) (fst m) f (snd m) v) ++ fields_text all (S i) fr mr vr
  | _, _, _ => []
  end.

Lemma fields_text_eq all i fs ms vs : render_lines (fields_lines body_lines all i fs ms vs) = fields_text all i fs ms vs.
Proof.
  revert i ms vs. induction fs as [|f r IH]; intros i [|m mr] [|v vr]; try reflexivity.
  cbn [fields_lines fields_text]. rewrite render_lines_app, IH. reflexivity.
Qed.
