(* proofs/CppSwapFacts.v — C09 (model level): the generated raw swap (model CppSwap.cpp_swap), applied to the
   foreign-endian canonical encoding of a well-typed value of a legal type without an unlimited part and outside
   the known finding KF-C, rewrites exactly those bytes into the native-endian canonical encoding, leaves every
   other byte of the buffer alone and returns the (aligned) end of the message. *)
From Coq Require Import ZArith List Bool Lia ZifyBool.
From Prophy Require Import Bytes Schema Layout Wire SwapSpec Src PyStatics PyEncode PyDecode PcModel CppFull CppSwap
  Arith SpecAlign Views SpecLen WireFacts BytesFacts SrcFacts PyStaticsFacts PyEncodeFacts PyDecodeFacts PyRoundtrip
  PyRoundtripGreedy TailFacts PcFacts PcRawFacts CppSizeFacts CppEncFacts CppDecFacts CppDecRoundtrip.
Import ListNotations.
Local Open Scope Z_scope.
Ltac Zify.zify_post_hook ::= Z.to_euclidean_division_equations.

(* ---- bytes ---- *)
Lemma rev_short {A} (l : list A) : len l <= 1 -> rev l = l.
Proof. destruct l as [|x [|y r]]; intros H; try reflexivity. rewrite !len_cons in H. pose proof (len_nonneg r). lia. Qed.

Lemma firstn_pre {A} (pre b : list A) : firstn (Z.to_nat (len pre)) (pre ++ b) = pre.
Proof.
  unfold len. rewrite Nat2Z.id. rewrite firstn_app, Nat.sub_diag, firstn_all. cbn [firstn]. apply app_nil_r.
Qed.

Lemma skipn_post {A} (pre b post : list A) n : n = len pre + len b -> skipn (Z.to_nat n) (pre ++ b ++ post) = post.
Proof.
  intros ->. rewrite <- len_app, app_assoc. unfold len. rewrite Nat2Z.id.
  rewrite skipn_app, Nat.sub_diag, skipn_all. reflexivity.
Qed.

Lemma sw_rev_mid pre b post w : len b = w -> sw_rev (pre ++ b ++ post) (len pre) w = Some (pre ++ rev b ++ post).
Proof.
  intros Hb. unfold sw_rev. destruct (w <=? 1) eqn:E1.
  - rewrite rev_short by lia. reflexivity.
  - pose proof (len_nonneg pre) as Hp. pose proof (len_nonneg post) as Hq.
    assert (E : (0 <=? len pre) && (len pre + w <=? len (pre ++ b ++ post)) = true) by (rewrite !len_app; lia).
    rewrite E. rewrite (slice_mid' pre b post) by (try reflexivity; lia).
    rewrite firstn_pre, (skipn_post pre b post) by lia. reflexivity.
Qed.

Lemma rev_enc e w z : rev (enc_int (flip e) w z) = enc_int e w z.
Proof. rewrite enc_int_flip. apply rev_involutive. Qed.

Lemma sw_rev_enc e pre post w z : 0 <= w ->
  sw_rev (pre ++ enc_int (flip e) w z ++ post) (len pre) w = Some (pre ++ enc_int e w z ++ post).
Proof. intros Hw. rewrite (sw_rev_mid pre _ post w) by (apply len_enc_int; exact Hw). rewrite rev_enc. reflexivity. Qed.

Lemma sw_read_mid e pre post w z : 0 <= w -> sw_read e (pre ++ enc_int e w z ++ post) (len pre) w = Some (z mod 256 ^ w).
Proof.
  intros Hw. unfold sw_read. pose proof (len_nonneg pre) as Hp. pose proof (len_nonneg post) as Hq.
  assert (E : (0 <=? len pre) && (len pre + w <=? len (pre ++ enc_int e w z ++ post)) = true)
    by (rewrite !len_app, len_enc_int by exact Hw; lia).
  rewrite E, (slice_mid' pre (enc_int e w z) post) by (try reflexivity; rewrite len_enc_int; lia).
  rewrite dec_enc_uint by exact Hw. reflexivity.
Qed.

Lemma enc_flip_1 e z : enc_int (flip e) 1 z = enc_int e 1 z.
Proof. rewrite enc_int_flip. apply rev_short. rewrite len_enc_int; lia. Qed.

Lemma render_flip_pad e n : render (flip e) [SPad n] = render e [SPad n].
Proof. reflexivity. Qed.

(* ---- one object ---- *)
Section SW.
  Variable e : endian.
  Let swV := cpp_swap e.
  Notation F := (render (flip e)).
  Notation N := (render e).

  Definition swP (t : ty) : Prop :=
    legal t = true -> PyDecode.is_comp t = true -> stiffness t <> Unlimited -> kfc_free t = true ->
    forall v pre post, wt t v = true -> len pre mod align t = 0 ->
      swV t (pre ++ F (layout t v (len pre)) ++ post) (len pre)
      = Some (pre ++ N (layout t v (len pre)) ++ post, len pre + segslen (layout t v (len pre))).

  Lemma sw_obj_rt t x pre post : swP t -> legal t = true -> stiffness t <> Unlimited -> kfc_free t = true ->
    wt t x = true -> len pre mod align t = 0 ->
    sw_obj swV t (pre ++ F (layout t x (len pre)) ++ post) (len pre)
    = Some (pre ++ N (layout t x (len pre)) ++ post, len pre + segslen (layout t x (len pre))).
  Proof.
    intros HP Hl Hu Hk Hw Ha. destruct t as [k| |vals|fs|arms]; cbn [sw_obj].
    - destruct x; try discriminate. cbn [layout]. rewrite !render_one. cbn [render_seg segslen fold_right seglen].
      change (pc_builtin_size k) with (sk_size k). pose proof (sk_size_pos k) as Hk0.
      rewrite sw_rev_enc by lia. do 2 f_equal; try lia.
    - destruct x; try discriminate. cbn [layout]. rewrite !render_one. cbn [render_seg segslen fold_right seglen].
      rewrite enc_flip_1, pc_byte_size_spec. do 2 f_equal; try lia.
    - destruct x; try discriminate. cbn [layout]. rewrite !render_one. cbn [render_seg segslen fold_right seglen].
      rewrite pc_enum_size_spec, sw_rev_enc by lia. do 2 f_equal; try lia.
    - apply (HP Hl eq_refl Hu Hk x pre post); assumption.
    - apply (HP Hl eq_refl Hu Hk x pre post); assumption.
  Qed.

  Lemma sw_loop_step dyn t m data pos : sw_loop swV dyn t (S m) data pos =
    match sw_obj swV t data pos with
    | Some (d, r) => sw_loop swV dyn t m d (if dyn then r else pos + cpp_elem_size t)
    | None => None
    end.
  Proof. reflexivity. Qed.

  Lemma cpp_elem_size_eq t : legal t = true -> cpp_elem_size t = size t.
  Proof.
    intros Hl. destruct t; cbn [cpp_elem_size size]; try reflexivity; try (destruct (pc_layout_eq _ Hl) as [_ Hs]; exact Hs).
  Qed.

  Lemma sw_loop_rt dyn t : swP t -> legal t = true -> stiffness t <> Unlimited -> kfc_free t = true ->
    (dyn = false -> is_fixed t = true) ->
    forall xs pre post, Forall (fun x => wt t x = true) xs -> len pre mod align t = 0 ->
    sw_loop swV dyn t (length xs) (pre ++ F (lay_elems layout t xs (len pre)) ++ post) (len pre)
    = Some (pre ++ N (lay_elems layout t xs (len pre)) ++ post, len pre + segslen (lay_elems layout t xs (len pre))).
  Proof.
    intros HP Hl Hu Hk Hfx xs. induction xs as [|x xr IH]; intros pre post Hw Ha.
    - rewrite lay_elems_nil. cbn [length sw_loop segslen fold_right]. rewrite !render_nil. cbn [app]. do 2 f_equal; try lia.
    - inversion Hw as [|? ? Hwx Hwr]; subst. rewrite lay_elems_cons, !render_app, <- !app_assoc.
      destruct (layout_lengths_at t x (len pre) Hl Hwx Ha) as [L1 [L2 L3]].
      cbn [length]. rewrite sw_loop_step.
      rewrite (sw_obj_rt t x pre (F (lay_elems layout t xr (len pre + segslen (layout t x (len pre)))) ++ post) HP Hl Hu Hk Hwx Ha).
      set (B := N (layout t x (len pre))).
      assert (HlB : len B = segslen (layout t x (len pre))) by (apply len_render; assumption).
      assert (Enext : (if dyn then len pre + segslen (layout t x (len pre)) else len pre + cpp_elem_size t)
                      = len (pre ++ B)).
      { rewrite len_app, HlB. destruct dyn; [reflexivity|]. rewrite (cpp_elem_size_eq t Hl), (L3 (Hfx eq_refl)). reflexivity. }
      rewrite Enext.
      assert (Ha' : len (pre ++ B) mod align t = 0).
      { rewrite len_app, HlB. apply add_mod_keep; [apply align_ok|assumption|assumption]. }
      assert (Epos : len pre + segslen (layout t x (len pre)) = len (pre ++ B)) by (rewrite len_app, HlB; reflexivity).
      rewrite Epos. rewrite (app_assoc pre B). rewrite (IH (pre ++ B) post Hwr Ha').
      rewrite segslen_app. rewrite <- Epos. rewrite <- !app_assoc. do 2 f_equal; try lia.
  Qed.

  Lemma untouched_elems t : sw_untouched t = true -> forall xs o, Forall (fun x => wt t x = true) xs ->
    F (lay_elems layout t xs o) = N (lay_elems layout t xs o) /\ segslen (lay_elems layout t xs o) = len xs.
  Proof.
    intros Hb xs. induction xs as [|x xr IH]; intros o Hw; [rewrite lay_elems_nil; split; reflexivity|].
    inversion Hw as [|? ? Hx Hr]; subst. rewrite lay_elems_cons, !render_app, segslen_app, len_cons.
    destruct (IH (o + segslen (layout t x o)) Hr) as [I1 I2]. rewrite I1, I2.
    destruct t as [k| | | |]; try discriminate Hb; destruct x; try discriminate Hx; cbn [layout]; rewrite !render_one; cbn [render_seg segslen fold_right seglen].
    - cbn [sw_untouched] in Hb. change (pc_builtin_size k) with (sk_size k) in Hb. apply Z.eqb_eq in Hb. rewrite Hb, enc_flip_1. split; [reflexivity|lia].
    - rewrite enc_flip_1. split; [reflexivity|lia].
  Qed.

  Lemma sw_n_rt dyn t : swP t -> legal t = true -> stiffness t <> Unlimited -> kfc_free t = true ->
    (dyn = false -> is_fixed t = true) ->
    forall xs pre post, Forall (fun x => wt t x = true) xs -> len pre mod align t = 0 ->
    sw_n swV dyn t (len xs) (pre ++ F (lay_elems layout t xs (len pre)) ++ post) (len pre)
    = Some (pre ++ N (lay_elems layout t xs (len pre)) ++ post, len pre + segslen (lay_elems layout t xs (len pre))).
  Proof.
    intros HP Hl Hu Hk Hfx xs pre post Hw Ha. unfold sw_n.
    destruct (sw_untouched t) eqn:Eb.
    { destruct (untouched_elems t Eb xs (len pre) Hw) as [U1 U2]. rewrite U1, U2. reflexivity. }
    pose proof (elems_at_least t Hl (layout_nonempty t Hl Hu) xs (len pre) Hw Ha) as Hge.
    destruct (elems_len t (layout_lengths t) Hl xs Hw (len pre) Ha) as [L1 _].
    pose proof (len_nonneg xs) as Hx. pose proof (len_nonneg pre) as Hp. pose proof (len_nonneg post) as Hq.
    assert (E : (len xs <? 0) || (len (pre ++ F (lay_elems layout t xs (len pre)) ++ post) <? len xs) = false).
    { rewrite !len_app, (len_render (flip e) _ L1). lia. }
    rewrite E. unfold len at 1. rewrite Nat2Z.id. apply sw_loop_rt; assumption.
  Qed.

  Lemma kind_dyn_fixed t : legal t = true -> stiffness t <> Unlimited -> (pc_kind t =? K_DYNAMIC) = false -> is_fixed t = true.
  Proof.
    intros Hl Hu E. rewrite (pc_kind_eq t Hl) in E. unfold is_fixed, K_DYNAMIC in *.
    destruct (stiffness t); cbn in *; try reflexivity; try discriminate. congruence.
  Qed.

  (* one member's statements at its address; [R]: the pointer gen_member's expression evaluates to *)
  Lemma sw_member_rt seen f v pre post :
    swP (snd f) -> fok f -> pc_align (snd f) = align (snd f) -> pc_size (snd f) = size (snd f) ->
    fstiff stiffness f <> Unlimited -> kfc_free (snd f) = true ->
    wt_field wt f v = true -> len pre mod falign align f = 0 ->
    (forall s, sizer_of (fst f) = Some s -> exists xs, v = VList xs /\ nth s seen 0 = len xs) ->
    exists R rec,
      sw_member e swV seen f (pc_member pc_size pc_align pc_kind f) (pre ++ F (lay_body layout f v (len pre)) ++ post)
                (len pre) (len pre + falign align f)
      = Some (pre ++ N (lay_body layout f v (len pre)) ++ post, R, rec) /\
      (ends_block f = true -> R = len pre + segslen (lay_body layout f v (len pre))) /\
      (forall k n, f = (FPlain, TScalar k) -> v = VInt n -> 0 <= n < 2 ^ 64 -> rec = n).
  Proof.
    intros HP Hok Hal Hsz Hu Hkf Hw Ha Hhint. pose proof Hok as [Hl Hk].
    assert (Ha' : len pre mod align (snd f) = 0).
    { apply (mod_down _ (falign align f)); [apply align_ok|apply falign_ok|apply align_le_falign|exact Ha]. }
    pose proof (len_nonneg pre) as Hpre. pose proof (len_nonneg post) as Hpost.
    pose proof (pc_member_size f Hok Hal Hsz) as Hms.
    pose proof (pc_member_facts pc_size f Hok Hal) as Hma.
    assert (Ekind : pm_kind (pc_member pc_size pc_align pc_kind f) = pc_kind (snd f)) by (unfold pc_member; destruct (fst f); reflexivity).
    unfold sw_member. cbn zeta. rewrite Ekind. unfold lay_body, wt_field, fstiff, ends_block, fstiff in *.
    revert Hk Hu Hw Hhint Hms Hma.
    destruct (fst f) as [| |m|s|m s|] eqn:Ek; intros Hk Hu Hw Hhint Hms Hma.
    - (* plain *)
      rewrite (sw_obj_rt (snd f) v pre post HP Hl Hu Hkf Hw Ha').
      destruct (snd f) as [k| |vals|fs|arms] eqn:Et.
      + destruct v as [z| | | | |]; try discriminate. cbn [layout]. rewrite !render_one. cbn [render_seg segslen fold_right seglen].
        change (pc_builtin_size k) with (sk_size k). pose proof (sk_size_pos k) as Hk0.
        rewrite sw_read_mid by lia. eexists _, _. split; [reflexivity|]. split; [intros _; reflexivity|].
        intros k' n Ef Ev Hn. injection Ev as <-. assert (k' = k) by (destruct f; cbn in *; congruence). subst k'.
        cbn [wt] in Hw. unfold cpp_reinterpret. rewrite (py_fmt_signed_spec k). change (pc_builtin_size k) with (sk_size k).
        rewrite (scalar_roundtrip k z Hw). unfold size_t. apply Z.mod_small. lia.
      + eexists _, _. split; [reflexivity|]. split; [intros _; reflexivity|]. intros k n Ef. destruct f; cbn in *; congruence.
      + eexists _, _. split; [reflexivity|]. split; [intros _; reflexivity|]. intros k n Ef. destruct f; cbn in *; congruence.
      + eexists _, _. split; [reflexivity|]. split; [intros _; reflexivity|]. intros k n Ef. destruct f; cbn in *; congruence.
      + eexists _, _. split; [reflexivity|]. split; [intros _; reflexivity|]. intros k n Ef. destruct f; cbn in *; congruence.
    - (* optional *)
      destruct Hk as [Hnb Hfx].
      assert (Efa : falign align f = Z.max 4 (align (snd f))) by (unfold falign; rewrite Ek; reflexivity).
      assert (Hus : stiffness (snd f) <> Unlimited).
      { unfold is_fixed in Hfx. apply stiff_eqb_eq in Hfx. rewrite Hfx. discriminate. }
      pose proof (falign_ok f) as Hfa. assert (H4 : 4 <= falign align f) by lia.
      destruct v as [z| |x|xs|ws|c x]; try discriminate Hw.
      + (* absent *)
        rewrite !render_cons, !render_nil. cbn [render_seg]. rewrite <- !app_assoc.
        rewrite sw_rev_enc by lia. rewrite sw_read_mid by lia. change (0 mod 256 ^ 4) with 0. cbn [Z.eqb].
        eexists _, _. split; [reflexivity|]. split; [intros E; discriminate E|]. intros k n Ef. destruct f; cbn in *; congruence.
      + (* present *)
        rewrite !render_cons. cbn [render_seg]. rewrite <- !app_assoc.
        rewrite sw_rev_enc by lia. rewrite sw_read_mid by lia. change (1 mod 256 ^ 4) with 1. change (1 =? 0) with false. cbn iota.
        set (pre' := pre ++ enc_int e 4 1 ++ zeros (falign align f - 4)).
        assert (Hl' : len pre' = len pre + falign align f).
        { unfold pre'. rewrite !len_app, len_enc_int, len_zeros by lia. lia. }
        assert (Hov : len pre' mod align (snd f) = 0).
        { rewrite Hl'. apply add_mod_keep; [apply align_ok|assumption|]. rewrite Efa, Z.max_comm. apply max_mod; [apply align_ok|apply okal_4]. }
        rewrite <- Hl'.
        replace (pre ++ enc_int e 4 1 ++ zeros (falign align f - 4) ++ F (layout (snd f) x (len pre')) ++ post)
          with (pre' ++ F (layout (snd f) x (len pre')) ++ post) by (unfold pre'; rewrite <- !app_assoc; reflexivity).
        rewrite (sw_obj_rt (snd f) x pre' post HP Hl Hus Hkf Hw Hov).
        eexists _, _. split; [unfold pre'; rewrite <- !app_assoc; reflexivity|]. split; [intros E; discriminate E|].
        intros k n Ef. destruct f; cbn in *; congruence.
    - (* fixed array *)
      destruct Hk as [Hn Hfx]. destruct v as [z| |x|xs|ws|c x]; try discriminate Hw. apply andb_prop in Hw. destruct Hw as [Hlen Hall].
      assert (Hus : stiffness (snd f) <> Unlimited).
      { unfold is_fixed in Hfx. apply stiff_eqb_eq in Hfx. rewrite Hfx. discriminate. }
      replace m with (len xs) by lia.
      rewrite (sw_n_rt _ (snd f) HP Hl Hus Hkf (fun _ => Hfx) xs pre post (forallb_Forall _ _ Hall) Ha').
      eexists _, _. split; [reflexivity|]. split; [intros _; reflexivity|]. intros k n Ef. destruct f; cbn in *; congruence.
    - (* dynamic array *)
      destruct v as [z| |x|xs|ws|c x]; try discriminate Hw.
      destruct (Hhint s eq_refl) as [xs' [Ev Hh]]. injection Ev as <-. rewrite Hh.
      rewrite (sw_n_rt _ (snd f) HP Hl Hk Hkf (kind_dyn_fixed _ Hl Hk) xs pre post (forallb_Forall _ _ Hw) Ha').
      eexists _, _. split; [reflexivity|]. split; [intros _; reflexivity|]. intros k n Ef. destruct f; cbn in *; congruence.
    - (* limited array *)
      destruct Hk as [Hn Hfx]. destruct v as [z| |x|xs|ws|c x]; try discriminate Hw. apply andb_prop in Hw. destruct Hw as [Hlen Hall].
      assert (Hus : stiffness (snd f) <> Unlimited).
      { unfold is_fixed in Hfx. apply stiff_eqb_eq in Hfx. rewrite Hfx. discriminate. }
      destruct (Hhint s eq_refl) as [xs' [Ev Hh]]. injection Ev as <-. rewrite Hh.
      rewrite !render_app, !render_one. cbn [render_seg]. rewrite <- !app_assoc.
      rewrite (sw_n_rt _ (snd f) HP Hl Hus Hkf (fun _ => Hfx) xs pre _ (forallb_Forall _ _ Hall) Ha').
      eexists _, _. split; [reflexivity|]. split; [intros E; discriminate E|]. intros k n Ef. destruct f; cbn in *; congruence.
    - exfalso. apply Hu. reflexivity.
  Qed.
End SW.

(* ---- alignment helpers ---- *)
Lemma align_twice a b x : okal a -> okal b -> a <= b -> cpp_align b (cpp_align a x) = cpp_align b x.
Proof.
  intros Ha Hb Hab. rewrite !cpp_align_spec by assumption.
  pose proof (pad_split a b x Ha Hb Hab). lia.
Qed.

Lemma member_not_greedy f : fok f -> fstiff stiffness f <> Unlimited ->
  let m := pc_member pc_size pc_align pc_kind f in pm_greedy m || (pm_kind m =? K_UNLIMITED) = false.
Proof.
  intros [Hl Hk] Hu. cbn zeta. unfold pc_member, fstiff in *. pose proof (pc_kind_eq (snd f) Hl) as Hkd.
  destruct (fst f); cbn [pm_greedy pm_kind orb]; try rewrite Hkd; unfold K_UNLIMITED.
  - destruct (stiffness (snd f)); cbn; try reflexivity. congruence.
  - destruct Hk as [_ Hfx]. rewrite (fixed_code _ Hfx). reflexivity.
  - destruct Hk as [_ Hfx]. rewrite (fixed_code _ Hfx). reflexivity.
  - destruct (stiffness (snd f)); cbn; try reflexivity. congruence.
  - destruct Hk as [_ Hfx]. rewrite (fixed_code _ Hfx). reflexivity.
  - congruence.
Qed.

Lemma is_sizer_mid pre_fs f r s : sizer_of (fst f) = Some s -> is_sizer (pre_fs ++ f :: r) s = true.
Proof.
  intros Hs. unfold is_sizer. rewrite existsb_app. cbn [existsb]. unfold bound_to at 2. rewrite Hs, Nat.eqb_refl.
  rewrite orb_true_r. reflexivity.
Qed.

Definition seen_ok (all_fs : list field) (decoded : list value) (seen : list Z) : Prop :=
  length seen = length decoded /\
  forall s n, is_sizer all_fs s = true -> nth_error decoded s = Some (VInt n) -> nth s seen 0 = n.

Section SWF.
  Variable e : endian.
  Let swV := cpp_swap e.
  Notation F := (render (flip e)).
  Notation N := (render e).

  Lemma sw_fields_last astruct sizeofX plast f m part off optoff seen later acur base data :
    sw_fields e swV astruct sizeofX plast [f] [m] [(part, off, optoff)] seen later acur base data =
    let top (r : Z) := if later then cpp_align astruct r else r in
    if pm_greedy m || (pm_kind m =? K_UNLIMITED)
    then Some (data, top (cpp_align acur (base + off)))
    else
      match sw_member e swV seen f m data (base + off) (base + optoff) with
      | Some (d, r, _) =>
          if pm_part_ends m
          then Some (d, top (cpp_align acur r))
          else if later
          then Some (d, top (base + cpp_nearest acur (off + pm_size m + Z.max 0 plast)))
          else Some (d, base + sizeofX)
      | None => None
      end.
  Proof. reflexivity. Qed.

  Lemma sw_fields_more astruct sizeofX plast f g fr m mr part off optoff ofr seen later acur base data :
    sw_fields e swV astruct sizeofX plast (f :: g :: fr) (m :: mr) ((part, off, optoff) :: ofr) seen later acur base data =
    match sw_member e swV seen f m data (base + off) (base + optoff) with
    | Some (d, r, rec) =>
        if pm_part_ends m
        then
          let r' := if later then cpp_align acur r else r in
          let anext := pc_part_max mr in
          sw_fields e swV astruct sizeofX plast (g :: fr) mr ofr (seen ++ [rec]) true anext (cpp_align anext r') d
        else sw_fields e swV astruct sizeofX plast (g :: fr) mr ofr (seen ++ [rec]) later acur base d
    | None => None
    end.
  Proof. reflexivity. Qed.

  Lemma sw_fields_conv sa sizeofX plast all_fs all_vs : okal sa ->
    (existsb ends_block all_fs = true -> plast <= 0) ->
    forall fs pre_fs, all_fs = pre_fs ++ fs -> legal_fields legal pre_fs fs = true ->
    forall vs, Forall2 (fun f v => wt_field wt f v = true) fs vs ->
    Forall (fun f => swP e (snd f)) fs ->
    Forall (fun f => pc_align (snd f) = align (snd f) /\ pc_size (snd f) = size (snd f)) fs ->
    Forall (fun f => fstiff stiffness f <> Unlimited) (removelast fs) -> fs <> [] ->
    Forall (fun f => kfc_free (snd f) = true) fs -> salign align fs <= sa ->
    forall decoded seen (after later : bool) acur base part rel B pre post,
      length decoded = length pre_fs -> all_vs = decoded ++ vs ->
      HHc all_vs (length decoded) fs vs -> HSc all_fs (length decoded) fs vs ->
      seen_ok all_fs decoded seen ->
      kfc_fields fs later acur = true ->
      okal acur -> acur <= sa -> (later = false -> acur = sa) -> (later = true -> base mod acur = 0) ->
      (if after then later = true /\ rel = 0 /\ base = len pre + pad (blockal fs) (len pre) /\ acur = blockal fs
       else base + rel = len pre /\ okal B /\ blockal fs <= B /\ base mod B = 0) ->
      (later = false -> Forall (fun f => ends_block f = false) fs ->
         base + sizeofX = swap_ret sa fs vs after (len pre)) ->
      (later = true -> plast <= 0) ->
      sw_fields e swV sa sizeofX plast fs (pcms fs) (member_offsets fs part rel) seen later acur base
                (pre ++ F (conv_fields sa fs vs after (len pre)) ++ post)
      = Some (pre ++ N (conv_fields sa fs vs after (len pre)) ++ post, swap_ret sa fs vs after (len pre)).
  Proof.
    intros Hsa Hplg fs. induction fs as [|f r IH]; intros pre_fs Eall Hl vs H2 HP Hboth Hnu Hne Hkt Hsle decoded seen after later acur base part rel B pre post
      Hdl; [congruence|].
    pose proof (legal_fields_fok _ _ Hl) as Hok. inversion Hok as [|? ? Hokf Hokr]; subst.
    inversion Hboth as [|? ? [Haf Hsf] Hbr]; subst. inversion HP as [|? ? HPf HPr]; subst.
    inversion H2 as [|? v ? vr Hwf H2r]; subst.
    inversion Hkt as [|? ? Hktf Hktr]; subst.
    intros Hall Hhh Hhs Hseen Hkfc Hac Hacsa Hmain Hbase Hinv Hsz Hpl.
    set (m := pc_member pc_size pc_align pc_kind f) in *.
    set (a := if after then blockal (f :: r) else falign align f).
    destruct (match r with [] => unl_field f | _ => false end) eqn:Eunl.
    { (* the unlimited last member: nothing is converted, its (struct-aligned) address is returned *)
      destruct r as [|g r']; [|discriminate Eunl].
      assert (Evr : vr = []) by (inversion H2r; reflexivity). subst vr.
      assert (Hao : okal a) by (unfold a; destruct after; [apply blockal_ok|apply falign_ok]).
      pose proof (falign_ok f) as Hfo. pose proof (falign_le_blockal f []) as Hfb.
      pose proof (pad_nonneg a (len pre) Hao) as Hp0.
      set (o1 := rel + pad (falign align f) rel).
      assert (Haddr : base + o1 = len pre + pad a (len pre)).
      { unfold o1, a. destruct after.
        - destruct Hinv as [_ [-> [-> _]]]. rewrite (pad_zero _ 0 Hfo) by (apply Z.mod_0_l; apply okal_pos in Hfo; lia). lia.
        - destruct Hinv as [Hrel [HB [HbB HbaseB]]].
          rewrite <- (pad_shift (falign align f) B base rel Hfo HB ltac:(lia) HbaseB). rewrite Hrel. lia. }
      cbn [conv_fields swap_ret]. fold a. rewrite Eunl. rewrite member_offsets_cons. fold o1.
      cbn [pcms map]. fold m.
      assert (Emo : (if ends_block f then member_offsets [] (part + 1) 0 else member_offsets [] part (o1 + fsize size f)) = [])
        by (destruct (ends_block f); reflexivity).
      rewrite Emo, sw_fields_last. cbn zeta.
      assert (Engr : pm_greedy m || (pm_kind m =? K_UNLIMITED) = true).
      { unfold unl_field in Eunl. apply stiff_eqb_eq in Eunl. destruct Hokf as [Hlf Hkf]. unfold m, pc_member, fstiff in *.
        pose proof (pc_kind_eq (snd f) Hlf) as Hkd.
        destruct (fst f); cbn [pm_greedy pm_kind orb]; try discriminate Eunl; try reflexivity.
        rewrite Hkd, Eunl. reflexivity. }
      rewrite Engr, Haddr. unfold cpp_align_up.
      assert (Eend : (if later then cpp_align sa (cpp_align acur (len pre + pad a (len pre))) else cpp_align acur (len pre + pad a (len pre)))
                     = len pre + pad a (len pre) + pad sa (len pre + pad a (len pre))).
      { destruct later.
        - rewrite align_twice by assumption. apply cpp_align_spec. exact Hsa.
        - rewrite (Hmain eq_refl). apply cpp_align_spec. exact Hsa. }
      rewrite Eend. reflexivity. }
    assert (Hnuf : fstiff stiffness f <> Unlimited).
    { destruct r as [|g r']; [unfold unl_field in Eunl; apply stiff_eqb_neq in Eunl; exact Eunl|].
      cbn [removelast] in Hnu. inversion Hnu; assumption. }
    assert (Hnur : Forall (fun f => fstiff stiffness f <> Unlimited) (removelast r)).
    { destruct r as [|g r']; [constructor|]. cbn [removelast] in Hnu. inversion Hnu; assumption. }
    assert (Econv : conv_fields sa (f :: r) (v :: vr) after (len pre)
                    = SPad (pad a (len pre)) :: lay_body layout f v (len pre + pad a (len pre))
                      ++ conv_fields sa r vr (ends_block f) (len pre + pad a (len pre) + segslen (lay_body layout f v (len pre + pad a (len pre))))).
    { cbn [conv_fields]. fold a. destruct r as [|g r']; [|reflexivity]. rewrite Eunl.
      assert (Evr : vr = []) by (inversion H2r; reflexivity). subst vr. reflexivity. }
    assert (Hao : okal a) by (unfold a; destruct after; [apply blockal_ok|apply falign_ok]).
    pose proof (falign_ok f) as Hfo. pose proof (falign_le_blockal f r) as Hfb.
    assert (Hfa : falign align f <= a) by (unfold a; destruct after; lia).
    pose proof (len_nonneg pre) as Hpre. pose proof (len_nonneg post) as Hpost.
    pose proof (pad_nonneg a (len pre) Hao) as Hp0.
    set (p0 := pad a (len pre)) in *.
    set (pre1 := pre ++ zeros p0).
    assert (Hl1 : len pre1 = len pre + p0) by (unfold pre1; rewrite len_app, len_zeros by lia; lia).
    assert (Ho1 : len pre1 mod falign align f = 0).
    { rewrite Hl1. apply (mod_down _ a); try assumption. apply pad_aligned. exact Hao. }
    (* the member's address *)
    set (o1 := rel + pad (falign align f) rel).
    assert (Haddr : base + o1 = len pre1).
    { rewrite Hl1. unfold o1, p0, a. destruct after.
      - destruct Hinv as [_ [-> [-> _]]]. rewrite (pad_zero _ 0 Hfo) by (apply Z.mod_0_l; apply okal_pos in Hfo; lia). lia.
      - destruct Hinv as [Hrel [HB [HbB HbaseB]]].
        rewrite <- (pad_shift (falign align f) B base rel Hfo HB ltac:(lia) HbaseB). rewrite Hrel. lia. }
    rewrite Econv. fold p0. rewrite !render_pad_cons, !render_app. rewrite <- Hl1.
    destruct (body_len f v (len pre1) (layout_lengths (snd f)) Hokf Hwf Ho1) as [B1 B2].
    set (body := lay_body layout f v (len pre1)) in *.
    assert (HlB : len (N body) = segslen body) by (apply len_render; assumption).
    pose proof (segslen_nonneg _ B1) as HB0.
    set (o' := len pre1 + segslen body) in *.
    set (rest := conv_fields sa r vr (ends_block f) o') in *.
    rewrite member_offsets_cons. fold o1.
    (* the member itself *)
    destruct (sw_member_rt e seen f v pre1 (F rest ++ post) HPf Hokf Haf Hsf Hnuf Hktf Hwf Ho1) as [R [rec [Hmem [HR Hrec]]]].
    { intros s Hs. destruct (Hhh 0%nat f v eq_refl eq_refl s Hs) as [xs [Ev [Hn Hlt]]].
      exists xs. split; [exact Ev|]. rewrite Hall in Hn. rewrite nth_error_app1 in Hn by lia.
      destruct Hseen as [_ Hseen]. apply Hseen; [|exact Hn]. apply is_sizer_mid. exact Hs. }
    fold m in Hmem. fold body in Hmem.
    assert (Hdata : pre ++ (zeros p0 ++ F body ++ F rest) ++ post = pre1 ++ F body ++ F rest ++ post)
      by (unfold pre1; rewrite <- !app_assoc; reflexivity).
    rewrite Hdata.
    assert (Eopt : base + match fst f with FOpt => o1 + falign align f | _ => -1 end = len pre1 + falign align f \/ fst f <> FOpt).
    { destruct (fst f); try (right; discriminate). left. lia. }
    assert (Hmem' : sw_member e swV seen f m (pre1 ++ F body ++ F rest ++ post) (base + o1)
                      (base + match fst f with FOpt => o1 + falign align f | _ => -1 end)
                    = Some (pre1 ++ N body ++ F rest ++ post, R, rec)).
    { rewrite Haddr. destruct Eopt as [-> | Hno]; [exact Hmem|].
      rewrite <- Hmem. unfold sw_member. destruct (fst f); try reflexivity. congruence. }
    destruct (pc_member_flags pc_size f Hokf Hnuf) as [Eends _]. cbn zeta in Eends. fold m in Eends.
    pose proof (member_not_greedy f Hokf Hnuf) as Engr. cbn zeta in Engr. fold m in Engr.
    assert (Esz0 : pm_size m = fsize size f) by (apply pc_member_size; assumption).
    destruct r as [|g r'].
    - (* the last member *)
      assert (Evr : vr = []) by (inversion H2r; reflexivity). subst vr.
      cbn [pcms map]. fold m. destruct (ends_block f) eqn:Eeb; rewrite sw_fields_last; cbn zeta; rewrite Engr, Hmem', Eends.
      + (* dynamic last member *)
        assert (ER : R = o') by (rewrite (HR eq_refl); reflexivity). rewrite ER in *. clear ER.
        unfold rest. cbn [conv_fields]. rewrite !render_one. cbn [render_seg].
        assert (Eend : (if later then cpp_align sa (cpp_align acur o') else cpp_align acur o') = o' + pad sa o').
        { destruct later.
          - rewrite align_twice by assumption. apply cpp_align_spec. exact Hsa.
          - rewrite (Hmain eq_refl). apply cpp_align_spec. exact Hsa. }
        rewrite Eend. unfold pre1. rewrite <- !app_assoc. do 2 f_equal.
        cbn [swap_ret]. fold a. fold p0. rewrite Eunl, <- Hl1. fold body. unfold o'. lia.
      + (* fixed last member *)
        apply ends_block_false in Eeb. specialize (B2 Eeb).
        unfold rest. cbn [conv_fields]. rewrite !render_one. cbn [render_seg].
        destruct later.
        * specialize (Hpl eq_refl). specialize (Hbase eq_refl). rewrite Z.max_l by lia. rewrite Z.add_0_r, Esz0.
          assert (Eend : cpp_align sa (base + cpp_nearest acur (o1 + fsize size f)) = o' + pad sa o').
          { rewrite cpp_nearest_spec by exact Hac.
            replace (base + (o1 + fsize size f + pad acur (o1 + fsize size f))) with (cpp_align acur o').
            - rewrite align_twice by assumption. apply cpp_align_spec. exact Hsa.
            - rewrite cpp_align_spec by exact Hac. unfold o'. rewrite B2, <- Haddr.
              replace (base + o1 + fsize size f) with ((o1 + fsize size f) + base) by lia.
              rewrite (pad_shift' acur base _ Hac Hbase). lia. }
          rewrite Eend. unfold pre1. rewrite <- !app_assoc. do 2 f_equal.
          cbn [swap_ret]. fold a. fold p0. rewrite Eunl, <- Hl1. fold body. unfold o'. lia.
        * rewrite (Hsz eq_refl) by (constructor; [apply ends_block_false; exact Eeb|constructor]).
          unfold pre1. rewrite <- !app_assoc. reflexivity.
    - (* a member followed by g *)
      destruct vr as [|w wr]; [inversion H2r|].
      assert (H2r' : Forall2 (fun f v => wt_field wt f v = true) r' wr) by (inversion H2r; assumption).
      assert (Hlr' : legal_fields legal (pre_fs ++ [f]) (g :: r') = true).
      { cbn [legal_fields] in Hl. apply andb_prop in Hl. apply Hl. }
      assert (Har' : Forall (fun f => pc_align (snd f) = align (snd f)) (g :: r')).
      { apply Forall_forall. intros y Hy. rewrite Forall_forall in Hbr. apply (Hbr y Hy). }
      change (pcms (f :: g :: r')) with (m :: pcms (g :: r')).
      rewrite sw_fields_more, Hmem', Eends. cbn zeta.
      set (pre2 := pre1 ++ N body).
      assert (Hl2 : len pre2 = o') by (unfold pre2, o'; rewrite len_app, HlB; reflexivity).
      assert (Hhh' : HHc all_vs (length (decoded ++ [v])) (g :: r') (w :: wr)).
      { intros j h u Hh Hu s Hs. destruct (Hhh (S j) h u Hh Hu s Hs) as [xs [Ev [Hn Hlt]]].
        exists xs. repeat split; auto. rewrite app_length. cbn [length]. lia. }
      assert (Hhs' : HSc (pre_fs ++ f :: g :: r') (length (decoded ++ [v])) (g :: r') (w :: wr)).
      { intros j h u Hh Hu Ek Es. rewrite app_length in Es. cbn [length] in Es.
        replace (length decoded + 1 + j)%nat with (length decoded + S j)%nat in Es by lia.
        destruct (Hhs (S j) h u Hh Hu Ek Es) as [k [n [Ef [Ev [Hr [Hn0 [Hmax [j' [g' [xs [Hj' [Hg' [Hxs [Hszr Hlx]]]]]]]]]]]]]].
        exists k, n. rewrite app_length. cbn [length]. replace (length decoded + 1 + j)%nat with (length decoded + S j)%nat by lia.
        repeat split; try assumption. destruct j' as [|j']; [lia|]. exists j', g', xs. repeat split; try assumption. lia. }
      assert (Hall' : all_vs = (decoded ++ [v]) ++ w :: wr) by (rewrite Hall, <- app_assoc; reflexivity).
      assert (Hseen' : seen_ok (pre_fs ++ f :: g :: r') (decoded ++ [v]) (seen ++ [rec])).
      { destruct Hseen as [Hsl Hsn]. split; [rewrite !app_length; cbn [length]; lia|].
        intros s n Hs Hn. destruct (Nat.lt_ge_cases s (length decoded)) as [Hlt|Hge].
        - rewrite nth_error_app1 in Hn by exact Hlt. rewrite app_nth1 by lia. apply Hsn; assumption.
        - rewrite nth_error_app2 in Hn by exact Hge. destruct (s - length decoded)%nat as [|q] eqn:Eq; [|destruct q; discriminate Hn].
          cbn [nth_error] in Hn. injection Hn as Hv. assert (s = length decoded) by lia. subst s.
          rewrite app_nth2 by lia. rewrite Hsl, Nat.sub_diag. cbn [nth].
          destruct (fst f) eqn:Ekf.
          + destruct (Hhs 0%nat f v eq_refl eq_refl Ekf ltac:(rewrite Nat.add_0_r; exact Hs))
              as [k [n' [Ef [Ev [Hr [Hn0 [Hmax _]]]]]]].
            rewrite Ev in Hv. injection Hv as <-. apply (Hrec k n' Ef Ev).
            rewrite Nat.add_0_r in Hmax. destruct (maxn_cases (pre_fs ++ f :: g :: r') (length decoded)) as [Em|[h [_ Hh]]]; [lia|].
            split; [exact Hn0|]. unfold in_range, sk_max in Hr. destruct k; cbn in Hr; lia.
          + exfalso. unfold wt_field in Hwf. rewrite Ekf in Hwf. rewrite Hv in Hwf. discriminate Hwf.
          + exfalso. unfold wt_field in Hwf. rewrite Ekf in Hwf. rewrite Hv in Hwf. discriminate Hwf.
          + exfalso. unfold wt_field in Hwf. rewrite Ekf in Hwf. rewrite Hv in Hwf. discriminate Hwf.
          + exfalso. unfold wt_field in Hwf. rewrite Ekf in Hwf. rewrite Hv in Hwf. discriminate Hwf.
          + exfalso. unfold wt_field in Hwf. rewrite Ekf in Hwf. rewrite Hv in Hwf. discriminate Hwf. }
      assert (Hsle' : salign align (g :: r') <= sa) by (rewrite salign_cons in Hsle; lia).
      assert (Hdata2 : pre1 ++ N body ++ F rest ++ post = pre2 ++ F rest ++ post) by (unfold pre2; rewrite <- app_assoc; reflexivity).
      rewrite Hdata2.
      assert (Hfin : forall X, X = Some (pre2 ++ N rest ++ post, swap_ret sa (g :: r') (w :: wr) (ends_block f) (len pre2)) ->
                X = Some (pre ++ (zeros p0 ++ N body ++ N rest) ++ post, swap_ret sa (f :: g :: r') (v :: w :: wr) after (len pre))).
      { intros X ->. unfold pre2, pre1. rewrite <- !app_assoc. do 2 f_equal.
        change (swap_ret sa (f :: g :: r') (v :: w :: wr) after (len pre))
          with (swap_ret sa (g :: r') (w :: wr) (ends_block f) (len pre + pad a (len pre) + segslen (lay_body layout f v (len pre + pad a (len pre))))).
        fold p0. rewrite <- Hl1. fold body. fold o'. rewrite <- Hl2. unfold pre2, pre1. rewrite <- !app_assoc. reflexivity. }
      apply Hfin. unfold rest. rewrite <- Hl2.
      destruct (ends_block f) eqn:Eeb.
      + (* f ends its block: the next part *)
        assert (ER : R = o') by (rewrite (HR eq_refl); reflexivity). rewrite ER in *. clear ER.
        rewrite (pc_part_max_blockal (pre_fs ++ [f]) (g :: r') Hlr' Har').
        cbn [kfc_fields] in Hkfc. rewrite Eeb in Hkfc. apply andb_prop in Hkfc. destruct Hkfc as [Hk1 Hk2].
        pose proof (blockal_ok (g :: r')) as Hbo.
        assert (Ebase : cpp_align (blockal (g :: r')) (if later then cpp_align acur o' else o') = len pre2 + pad (blockal (g :: r')) (len pre2)).
        { rewrite Hl2. destruct later.
          - cbn [negb orb] in Hk1. rewrite align_twice by (try assumption; lia). apply cpp_align_spec. exact Hbo.
          - apply cpp_align_spec. exact Hbo. }
        rewrite Ebase.
        apply (IH (pre_fs ++ [f]) ltac:(rewrite <- app_assoc; reflexivity) Hlr' (w :: wr) H2r HPr Hbr Hnur ltac:(discriminate) Hktr Hsle'
                  (decoded ++ [v]) (seen ++ [rec]) true true (blockal (g :: r')) _ (part + 1) 0 1 pre2 post); try assumption.
        * rewrite !app_length. cbn [length]. lia.
        * pose proof (blockal_le (g :: r')) as Hble. lia.
        * discriminate.
        * intros _. apply pad_aligned. exact Hbo.
        * repeat split; reflexivity.
        * discriminate.
        * intros _. apply Hplg. rewrite existsb_app. cbn [existsb]. rewrite Eeb, orb_true_r. reflexivity.
      + (* same block *)
        cbn [kfc_fields] in Hkfc. rewrite Eeb in Hkfc.
        pose proof Eeb as Efx. apply ends_block_false in Efx. specialize (B2 Efx).
        apply (IH (pre_fs ++ [f]) ltac:(rewrite <- app_assoc; reflexivity) Hlr' (w :: wr) H2r HPr Hbr Hnur ltac:(discriminate) Hktr Hsle'
                  (decoded ++ [v]) (seen ++ [rec]) false later acur base part (o1 + fsize size f)
                  (if after then blockal (f :: g :: r') else B) pre2 post); try assumption.
        * rewrite !app_length. cbn [length]. lia.
        * assert (Hbg : blockal (g :: r') <= blockal (f :: g :: r')).
          { change (blockal (f :: g :: r')) with (if ends_block f then falign align f else Z.max (falign align f) (blockal (g :: r'))). rewrite Eeb. lia. }
          split; [rewrite Hl2; unfold o'; rewrite B2; lia|].
          destruct after.
          -- destruct Hinv as [_ [_ [Hb _]]]. split; [apply blockal_ok|]. split; [exact Hbg|].
             rewrite Hb. apply pad_aligned. apply blockal_ok.
          -- destruct Hinv as [_ [HB [HbB HbaseB]]]. split; [exact HB|]. split; [lia|exact HbaseB].
        * intros Hlat Hallf. rewrite (Hsz Hlat) by (constructor; assumption).
          change (swap_ret sa (f :: g :: r') (v :: w :: wr) after (len pre))
            with (swap_ret sa (g :: r') (w :: wr) (ends_block f) (len pre + pad a (len pre) + segslen (lay_body layout f v (len pre + pad a (len pre))))).
          fold p0. rewrite <- Hl1. fold body. fold o'. rewrite Hl2, Eeb. reflexivity.
  Qed.
End SWF.

(* ---- facts about the whole struct ---- *)
Lemma kfc_fields_main fs a b : kfc_fields fs false a = kfc_fields fs false b.
Proof.
  revert a b. induction fs as [|f r IH]; intros a b; [reflexivity|]. cbn [kfc_fields].
  destruct r as [|g r']; [reflexivity|]. destruct (ends_block f); [reflexivity|apply IH].
Qed.

Lemma fixed_of_all fs : Forall (fun f => ends_block f = false) fs -> is_fixed (TStruct fs) = true.
Proof.
  intros H. unfold is_fixed. cbn [stiffness]. apply stiff_eqb_eq. induction H as [|f r Hf Hr IH]; [reflexivity|].
  unfold stiff_fields in *. cbn [fold_right]. apply ends_block_false in Hf. rewrite Hf, IH. reflexivity.
Qed.

Lemma last_padding_dyn fs : legal (TStruct fs) = true -> existsb ends_block fs = true -> last (pc_paddings fs) 0 <= 0.
Proof.
  intros Hl0 Hex. pose proof Hl0 as Hl. apply legal_struct in Hl. destruct Hl as [Hne Hok].
  assert (Ha : Forall (fun f => pc_align (snd f) = align (snd f)) fs).
  { rewrite Forall_forall in *. intros f Hf. destruct (Hok f Hf) as [Hlf' _]. apply (pc_layout_eq (snd f) Hlf'). }
  unfold pc_paddings, pc_struct_layout. fold (pcms fs).
  destruct fs as [|f0 r0]; [congruence|]. cbn [legal] in Hl0.
  destruct (pc_partial (pcms (f0 :: r0)) false) as [|m0 ms] eqn:Ep; [discriminate Ep|]. rewrite <- Ep in *. cbn zeta.
  destruct (pc_walk m0 (pc_partial (pcms (f0 :: r0)) false) 0) as [[ps lastm] bs] eqn:Ew. cbn [snd fst].
  rewrite last_last. rewrite (dynamic_exists (f0 :: r0) [] false Hl0 Ha), Hex.
  assert (Ealn : pc_max_align (pc_partial (pcms (f0 :: r0)) false) = salign align (f0 :: r0)).
  { destruct (amax_pcms (f0 :: r0) Hok Ha) as [_ A2].
    rewrite pc_max_align_amax, amax_partial, A2 by (apply partial_align_ge, pcms_align_ge; assumption). reflexivity. }
  rewrite Ealn. pose proof (salign_ok (f0 :: r0)) as Hsa. apply okal_pos in Hsa.
  destruct ((pm_align lastm <? salign align (f0 :: r0)) || pm_optional lastm); lia.
Qed.

Lemma sw_arm_rt swV arms : nodupZ (map fst arms) = true ->
  forall i a data pos d r, nth_error arms i = Some a ->
  sw_obj swV (snd a) data pos = Some (d, r) ->
  sw_arm swV arms (fst a) data pos = Some d.
Proof.
  induction arms as [|b rest IH]; intros Hnd i a data pos d r Hn Hb; [destruct i; discriminate|].
  cbn [map] in Hnd. apply nodupZ_notin in Hnd. destruct Hnd as [Hnotin Hnd].
  destruct i as [|i]; cbn in Hn.
  - injection Hn as ->. cbn [sw_arm]. rewrite Z.eqb_refl, Hb. reflexivity.
  - cbn [sw_arm].
    assert (E : (fst b =? fst a) = false).
    { destruct (fst b =? fst a) eqn:E; [|reflexivity]. exfalso.
      assert (Hin : existsb (Z.eqb (fst b)) (map fst rest) = true).
      { apply existsb_exists. exists (fst a). split; [|exact E]. apply in_map. eapply nth_error_In; exact Hn. }
      congruence. }
    rewrite E. apply (IH Hnd i a data pos d r Hn Hb).
Qed.

(* ---- converted and kept segments ---- *)
Lemma conv_lay sa fs : Forall (fun f => fstiff stiffness f <> Unlimited) fs -> forall vs after o,
  conv_fields sa fs vs after o = lay_fields layout sa fs vs after o /\
  swap_ret sa fs vs after o = o + segslen (lay_fields layout sa fs vs after o).
Proof.
  intros H. induction H as [|f r Hf Hr IH]; intros vs after o.
  - cbn [conv_fields lay_fields swap_ret segslen fold_right seglen]. split; [reflexivity|lia].
  - destruct vs as [|v vr]; [cbn [conv_fields lay_fields swap_ret segslen fold_right seglen]; split; [reflexivity|lia]|].
    cbn [conv_fields lay_fields swap_ret].
    set (a := if after then blockal (f :: r) else falign align f). set (p := pad a o).
    set (body := lay_body layout f v (o + p)).
    destruct r as [|g r'].
    + assert (Eu : unl_field f = false) by (unfold unl_field; apply stiff_eqb_neq; exact Hf). rewrite Eu.
      cbn [lay_fields]. split; [reflexivity|]. rewrite segslen_cons, segslen_app. cbn [segslen fold_right seglen]. lia.
    + destruct (IH vr (ends_block f) (o + p + segslen body)) as [I1 I2]. rewrite I1, I2. split; [reflexivity|].
      rewrite segslen_cons, segslen_app. cbn [seglen]. lia.
Qed.

Lemma conv_kept sa fs : forall vs after o,
  lay_fields layout sa fs vs after o = conv_fields sa fs vs after o ++ kept_fields sa fs vs after o.
Proof.
  induction fs as [|f r IH]; intros vs after o; [reflexivity|].
  destruct vs as [|v vr]; [reflexivity|]. cbn [conv_fields lay_fields kept_fields].
  destruct r as [|g r'].
  - destruct (unl_field f); cbn [lay_fields app]; [reflexivity|]. rewrite <- app_assoc, app_nil_r. reflexivity.
  - rewrite IH. cbn [app]. rewrite <- app_assoc. reflexivity.
Qed.

Lemma conv_unl sa fs : forall vs after o, length vs = length fs -> unl_field (last fs (FPlain, TByte)) = true ->
  segslen (conv_fields sa fs vs after o) = last_member_offset fs vs after o - o /\
  swap_ret sa fs vs after o = cpp_align_up sa (last_member_offset fs vs after o).
Proof.
  induction fs as [|f r IH]; intros vs after o Hlen Hu; [discriminate Hu|].
  destruct vs as [|v vr]; [discriminate Hlen|]. cbn [conv_fields swap_ret last_member_offset].
  destruct r as [|g r'].
  - cbn [last] in Hu. rewrite Hu. cbn [segslen fold_right seglen]. split; [lia|reflexivity].
  - change (last (f :: g :: r') (FPlain, TByte)) with (last (g :: r') (FPlain, TByte)) in Hu.
    cbn [length] in Hlen. cbn iota. change (fkind * ty)%type with field in *.
    set (a := if after then blockal (f :: g :: r') else falign align f). set (p := pad a o).
    set (body := lay_body layout f v (o + p)).
    destruct (IH vr (ends_block f) (o + p + segslen body) ltac:(cbn [length]; lia) Hu) as [I1 I2].
    rewrite I2. split; [|reflexivity]. rewrite segslen_cons, segslen_app, I1. cbn [seglen]. lia.
Qed.

Lemma struct_counters fs vs : legal_fields legal [] fs = true ->
  Forall2 (fun f v => wt_field wt f v = true) fs vs -> counts_ok vs fs vs = true ->
  HSc fs (length (@nil value)) fs vs.
Proof.
  intros Hlf H2 Hcnt.
  intros j f v Hf Hv Ek Es. cbn [length Nat.add] in Es |- *.
  destruct (sizer_field fs vs j f v Hlf H2 Hcnt Hf Hv Es) as [k [n [Ef [Evn [Hr _]]]]].
  pose proof Es as Es0. unfold is_sizer in Es0. apply existsb_exists in Es0. destruct Es0 as [g [Hin Hb]].
  apply In_nth_error in Hin. destruct Hin as [jj Hjj].
  assert (Hvj : exists w, nth_error vs jj = Some w).
  { clear -H2 Hjj. revert jj Hjj. induction H2 as [|a b r br Hab Hr IHr]; intros [|jj] H; cbn in H; try discriminate; cbn; eauto. }
  destruct Hvj as [w Hw].
  destruct (counts_ok_nth vs fs vs jj g w j Hcnt Hjj Hw (bound_to_sizer j g Hb)) as [xs [Hn Hx]].
  rewrite Hv, Evn in Hn. injection Hn as ->. subst w.
  exists k, (len xs). repeat split; try assumption.
  * apply len_nonneg.
  * destruct (maxn_cases fs j) as [-> | [h [Hinh Hh]]].
    -- unfold in_range, sk_max in Hr. subst f. cbn [fst snd] in *.
       destruct (legal_sizer [] fs Hlf j Es) as [ts [Hn' Hi]]. cbn [app] in Hn'. rewrite Hf in Hn'. injection Hn' as <-.
       cbn [int_scalar] in Hi. rewrite Hi in Hr.
       destruct k; cbn [sk_signed sk_size] in Hr; cbn in Hr; lia.
    -- apply In_nth_error in Hinh. destruct Hinh as [jh Hjh].
       assert (Hvh : exists u, nth_error vs jh = Some u).
       { clear -H2 Hjh. revert jh Hjh. induction H2 as [|a b r br Hab Hr IHr]; intros [|jh] H; cbn in H; try discriminate; cbn; eauto. }
       destruct Hvh as [u Hu'].
       assert (Hsh : sizer_of (fst h) = Some j) by (rewrite Hh; reflexivity).
       destruct (counts_ok_nth vs fs vs jh h u j Hcnt Hjh Hu' Hsh) as [ys [Hny Hy]].
       rewrite Hv, Evn in Hny. injection Hny as Hny. subst u.
       assert (Hwh : wt_field wt h (VList ys) = true).
       { clear -H2 Hjh Hu'. revert jh Hjh Hu'. induction H2 as [|a b r br Hab Hr IHr]; intros [|jh] H1 H3; cbn in H1, H3; try discriminate.
         - injection H1 as <-. injection H3 as <-. exact Hab.
         - eapply IHr; eassumption. }
       unfold wt_field in Hwh. rewrite Hh in Hwh. apply andb_prop in Hwh. destruct Hwh as [Hle _]. lia.
  * exists jj, g, xs. pose proof (legal_sizer_lt [] fs jj g j Hlf Hjj (bound_to_sizer j g Hb)) as Hlt. cbn [length] in Hlt.
    repeat split; try assumption; try lia. exists j. apply bound_to_sizer. exact Hb.
Qed.

(* ---- C09 ---- *)
Theorem cpp_swap_roundtrip e : forall t, swP e t.
Proof.
  intros t. induction t as [k| |vals|fs IH|arms IH] using ty_ind'; intros Hl Hc Hu Hkf v pre post; try discriminate.
  - (* struct *)
    intros Hw Ha.
    pose proof Hl as Hl0. pose proof Hw as Hw0. apply wt_struct in Hw. destruct Hw as [vs [Ev [H2 Hcnt]]]. subst v.
    apply legal_struct in Hl. destruct Hl as [Hne Hok].
    cbn [layout align] in *. cbn [cpp_swap]. fold (pcms fs).
    assert (Hlf : legal_fields legal [] fs = true) by (cbn [legal] in Hl0; destruct fs; [congruence|exact Hl0]).
    assert (Hboth : Forall (fun f => pc_align (snd f) = align (snd f) /\ pc_size (snd f) = size (snd f)) fs).
    { rewrite Forall_forall in *. intros f Hf. destruct (Hok f Hf) as [Hlf' _]. apply (pc_layout_eq (snd f) Hlf'). }
    assert (Hnu : Forall (fun f => fstiff stiffness f <> Unlimited) fs).
    { cbn [stiffness] in Hu. clear -Hu. induction fs as [|f r IHr]; [constructor|].
      cbn [stiff_fields fold_right] in Hu. constructor.
      - intros E. apply Hu. rewrite E. reflexivity.
      - apply IHr. intros E. apply Hu. unfold stiff_fields in E. rewrite E. destruct (fstiff stiffness f); reflexivity. }
    pose proof (salign_ok fs) as Hsa.
    cbn [kfc_free] in Hkf. apply andb_prop in Hkf. destruct Hkf as [Hkf1 Hkf2].
    destruct (pc_layout_eq _ Hl0) as [Eal Esz]. cbn [align] in Eal. rewrite Eal, Esz, (pc_raw_layout_eq fs Hl0).
    destruct (conv_lay (salign align fs) fs Hnu vs false (len pre)) as [Ecv Ert]. rewrite <- Ert, <- Ecv.
    apply (sw_fields_conv e (salign align fs) (size (TStruct fs)) (last (pc_paddings fs) 0) fs vs Hsa (last_padding_dyn fs Hl0)
             fs [] eq_refl Hlf vs H2 IH Hboth (removelast_not_unl fs [] Hlf) Hne (forallb_Forall _ _ Hkf2) ltac:(lia)
             [] [] false false (salign align fs) (len pre) 0 0 (salign align fs) pre post eq_refl eq_refl).
    + (* hints *)
      intros j f v Hf Hv s Hs. cbn [length Nat.add].
      destruct (counts_ok_nth vs fs vs j f v s Hcnt Hf Hv Hs) as [xs [Hn Hx]].
      exists xs. repeat split; auto. pose proof (legal_sizer_lt [] fs j f s Hlf Hf Hs) as Hlt. cbn [length] in Hlt. lia.
    + (* counters *)
      apply (struct_counters fs vs Hlf H2 Hcnt).
    + (* nothing seen yet *)
      split; [reflexivity|]. intros s n _ Hn. destruct s; discriminate Hn.
    + rewrite (kfc_fields_main fs _ 1). exact Hkf1.
    + exact Hsa.
    + lia.
    + reflexivity.
    + discriminate.
    + split; [lia|]. split; [exact Hsa|]. split; [apply blockal_le|exact Ha].
    + (* sizeof(X) of a fixed struct *)
      intros _ Hallf. pose proof (fixed_of_all fs Hallf) as Hfx.
      destruct (layout_lengths_at (TStruct fs) (VStruct vs) (len pre) Hl0 Hw0 Ha) as [_ [_ A3]].
      specialize (A3 Hfx). cbn [layout] in A3. rewrite Ert, A3. reflexivity.
    + discriminate.
  - (* union *)
    intros Hw Ha.
    pose proof Hl as Hl0. apply wt_union in Hw. destruct Hw as [i [x [-> Hw]]]. apply wt_arms_nth in Hw. destruct Hw as [a [Hn Hwa]].
    apply legal_union in Hl. destruct Hl as [_ [Hok Hnd]].
    pose proof (nth_error_In _ _ Hn) as Hin.
    rewrite Forall_forall in Hok, IH. destruct (Hok a Hin) as [Hdr [Hla [Hnba Hfa]]].
    pose proof (ualign_ok arms) as Hua. pose proof (ualign_ge4 arms) as H4.
    cbn [layout align] in *. rewrite (lay_arm_nth arms i x _ a Hn) in *.
    rewrite !render_cons, !render_app, !render_one. cbn [render_seg]. rewrite <- !app_assoc.
    cbn [cpp_swap]. destruct (pc_layout_eq _ Hl0) as [Eal Esz]. cbn [align] in Eal. rewrite Eal, Esz, pc_disc_size_spec.
    pose proof (len_nonneg pre) as Hpre. pose proof (len_nonneg post) as Hpost.
    rewrite sw_rev_enc by lia. rewrite sw_read_mid by lia. change (256 ^ 4) with (2 ^ 32). rewrite Z.mod_small by lia.
    set (pre' := pre ++ enc_int e 4 (fst a) ++ zeros (ualign align arms - 4)).
    assert (Hl' : len pre' = len pre + ualign align arms).
    { unfold pre'. rewrite !len_app, len_enc_int, len_zeros by lia. lia. }
    assert (Hoa : len pre' mod align (snd a) = 0).
    { rewrite Hl'. apply (mod_down _ (ualign align arms)); [apply align_ok|assumption|apply arm_le_ualign; assumption|].
      apply add_mod_keep; [assumption|assumption|apply self_mod; assumption]. }
    assert (Hus : stiffness (snd a) <> Unlimited).
    { unfold is_fixed in Hfa. apply stiff_eqb_eq in Hfa. rewrite Hfa. discriminate. }
    cbn [kfc_free] in Hkf. rewrite forallb_forall in Hkf. pose proof (Hkf a Hin) as Hka.
    assert (Epos : len pre + 4 + (if 4 <? ualign align arms then ualign align arms - 4 else 0) = len pre').
    { rewrite Hl'. destruct (4 <? ualign align arms) eqn:E; lia. }
    rewrite Epos. rewrite <- Hl'.
    set (tailz := zeros (size (TUnion arms) - ualign align arms - segslen (layout (snd a) x (len pre')))).
    assert (HB : sw_obj (cpp_swap e) (snd a)
                   (pre ++ enc_int e 4 (fst a) ++ zeros (ualign align arms - 4) ++ render (flip e) (layout (snd a) x (len pre')) ++ tailz ++ post)
                   (len pre')
                 = Some (pre' ++ render e (layout (snd a) x (len pre')) ++ tailz ++ post,
                         len pre' + segslen (layout (snd a) x (len pre')))).
    { rewrite <- (sw_obj_rt e (snd a) x pre' (tailz ++ post) (IH a Hin) Hla Hus Hka Hwa Hoa).
      unfold pre'. rewrite <- !app_assoc. reflexivity. }
    rewrite (sw_arm_rt (cpp_swap e) arms Hnd i a _ _ _ _ Hn HB).
    unfold pre'. rewrite <- !app_assoc. do 2 f_equal.
    destruct (layout_lengths_at (snd a) x (len pre') Hla Hwa Hoa) as [A1 [_ A3]]. specialize (A3 Hfa).
    rewrite !segslen_cons, segslen_app, segslen_cons. cbn [seglen segslen fold_right]. lia.
Qed.

(* any legal struct at the root, the unlimited ones included: the converted segments are converted, whatever
   follows them in the buffer is left as it is *)
Theorem cpp_swap_struct_conv e fs vs pre rest :
  legal (TStruct fs) = true -> wt (TStruct fs) (VStruct vs) = true -> kfc_free (TStruct fs) = true ->
  len pre mod salign align fs = 0 ->
  cpp_swap e (TStruct fs) (pre ++ render (flip e) (conv_fields (salign align fs) fs vs false (len pre)) ++ rest) (len pre)
  = Some (pre ++ render e (conv_fields (salign align fs) fs vs false (len pre)) ++ rest,
          swap_ret (salign align fs) fs vs false (len pre)).
Proof.
  intros Hl0 Hw0 Hkf Ha. pose proof Hl0 as Hl. pose proof Hw0 as Hw.
  apply wt_struct in Hw. destruct Hw as [vs' [Ev [H2 Hcnt]]]. injection Ev as <-.
  apply legal_struct in Hl. destruct Hl as [Hne Hok].
  cbn [cpp_swap]. fold (pcms fs).
  assert (Hlf : legal_fields legal [] fs = true) by (cbn [legal] in Hl0; destruct fs; [congruence|exact Hl0]).
  assert (Hboth : Forall (fun f => pc_align (snd f) = align (snd f) /\ pc_size (snd f) = size (snd f)) fs).
  { rewrite Forall_forall in *. intros f Hf. destruct (Hok f Hf) as [Hlf' _]. apply (pc_layout_eq (snd f) Hlf'). }
  pose proof (salign_ok fs) as Hsa.
  cbn [kfc_free] in Hkf. apply andb_prop in Hkf. destruct Hkf as [Hkf1 Hkf2].
  destruct (pc_layout_eq _ Hl0) as [Eal Esz]. cbn [align] in Eal. rewrite Eal, Esz, (pc_raw_layout_eq fs Hl0).
  assert (IH : Forall (fun f => swP e (snd f)) fs) by (apply Forall_forall; intros f _; apply cpp_swap_roundtrip).
  apply (sw_fields_conv e (salign align fs) (size (TStruct fs)) (last (pc_paddings fs) 0) fs vs Hsa (last_padding_dyn fs Hl0)
           fs [] eq_refl Hlf vs H2 IH Hboth (removelast_not_unl fs [] Hlf) Hne (forallb_Forall _ _ Hkf2) ltac:(lia)
           [] [] false false (salign align fs) (len pre) 0 0 (salign align fs) pre rest eq_refl eq_refl).
  + intros j f v Hf Hv s Hs. cbn [length Nat.add].
    destruct (counts_ok_nth vs fs vs j f v s Hcnt Hf Hv Hs) as [xs [Hn Hx]].
    exists xs. repeat split; auto. pose proof (legal_sizer_lt [] fs j f s Hlf Hf Hs) as Hlt. cbn [length] in Hlt. lia.
  + apply (struct_counters fs vs Hlf H2 Hcnt).
  + split; [reflexivity|]. intros s n _ Hn. destruct s; discriminate Hn.
  + rewrite (kfc_fields_main fs _ 1). exact Hkf1.
  + exact Hsa.
  + lia.
  + reflexivity.
  + discriminate.
  + split; [lia|]. split; [exact Hsa|]. split; [apply blockal_le|exact Ha].
  + intros _ Hallf. pose proof (fixed_of_all fs Hallf) as Hfx.
    assert (Hnu : Forall (fun f => fstiff stiffness f <> Unlimited) fs).
    { apply Forall_forall. intros f Hf. rewrite Forall_forall in Hallf. specialize (Hallf f Hf). apply ends_block_false in Hallf. rewrite Hallf. discriminate. }
    destruct (conv_lay (salign align fs) fs Hnu vs false (len pre)) as [_ Ert].
    destruct (layout_lengths_at (TStruct fs) (VStruct vs) (len pre) Hl0 Hw0 Ha) as [_ [_ A3]].
    specialize (A3 Hfx). cbn [layout] in A3. rewrite Ert, A3. reflexivity.
  + discriminate.
Qed.

Theorem cpp_swap_prefix :
  forall e fs vs pre post,
    let t := TStruct fs in let v := VStruct vs in
    legal t = true -> kfc_free t = true -> wt t v = true -> len pre mod align t = 0 ->
    let k := segslen (conv_segs t v (len pre)) in
    cpp_swap e t (pre ++ wire (flip e) t v ++ post) (len pre)
    = Some (pre ++ firstn (Z.to_nat k) (wire e t v) ++ skipn (Z.to_nat k) (wire (flip e) t v) ++ post,
            swap_ret (align t) fs vs false (len pre)) /\
    (stiffness t = Unlimited ->
       k = last_member_offset fs vs false (len pre) - len pre /\
       swap_ret (align t) fs vs false (len pre) = cpp_align_up (align t) (last_member_offset fs vs false (len pre))).
Proof.
  intros e fs vs pre post t v Hl Hk Hw Ha k.
  assert (Hlay : layout t v 0 = conv_segs t v (len pre) ++ kept_segs t v (len pre)).
  { rewrite <- (layout_at_aligned t v (len pre) Ha). unfold t, v. cbn [layout conv_segs kept_segs]. apply conv_kept. }
  destruct (layout_lengths t v Hl Hw) as [L1 _]. rewrite Hlay in L1.
  apply Forall_app in L1. destruct L1 as [Lc Lk].
  assert (Hlc : forall e', len (render e' (conv_segs t v (len pre))) = k) by (intros e'; apply len_render; exact Lc).
  split.
  - unfold wire. rewrite Hlay, !render_app.
    replace (firstn (Z.to_nat k) (render e (conv_segs t v (len pre)) ++ render e (kept_segs t v (len pre))))
      with (render e (conv_segs t v (len pre))) by (rewrite <- (Hlc e); symmetry; apply firstn_pre).
    replace (skipn (Z.to_nat k) (render (flip e) (conv_segs t v (len pre)) ++ render (flip e) (kept_segs t v (len pre))))
      with (render (flip e) (kept_segs t v (len pre))) by (rewrite <- (Hlc (flip e)); symmetry; apply skipn_mid).
    cbn [align] in Ha. rewrite <- !app_assoc.
    apply (cpp_swap_struct_conv e fs vs pre (render (flip e) (kept_segs t v (len pre)) ++ post) Hl Hw Hk Ha).
  - intros Hu. pose proof Hl as Hl0. apply wt_struct in Hw. destruct Hw as [vs' [Ev [H2 _]]]. injection Ev as <-.
    assert (Hlen : length vs = length fs) by (clear -H2; induction H2; cbn [length]; congruence).
    assert (Hlf : legal_fields legal [] fs = true) by (unfold t in Hl0; cbn [legal] in Hl0; destruct fs; [discriminate Hl0|exact Hl0]).
    pose proof (unl_is_last fs (removelast_not_unl fs [] Hlf) Hu) as Hlast.
    destruct (conv_unl (align t) fs vs false (len pre) Hlen Hlast) as [C1 C2].
    split; [exact C1|exact C2].
Qed.
