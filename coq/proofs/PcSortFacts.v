(* proofs/PcSortFacts.v — topological_sort (model) terminates on EVERY node list with either a
   sorted list or the cycle diagnostic (C13), and on acyclic definition sets with unique names
   it returns a permutation in which every definition follows the definitions it depends on
   (C15). *)
From Coq Require Import List Bool Arith Lia Permutation.
From Prophy Require Import PcSort.
Import ListNotations.

(* ---- pop/insert ---- *)
Lemma firstn_skipn_perm {A} (x : A) (l : list A) i : Permutation (firstn i l ++ x :: skipn i l) (x :: l).
Proof.
  rewrite <- (firstn_skipn i l) at 3. symmetry. apply Permutation_middle.
Qed.

Lemma remove_nth_perm {A} (l : list A) j x : nth_error l j = Some x ->
  Permutation (x :: firstn j l ++ skipn (S j) l) l.
Proof.
  revert j. induction l as [|a l IH]; intros [|j] H; cbn in H; try discriminate.
  - injection H as ->. cbn. reflexivity.
  - cbn [firstn skipn app]. rewrite perm_swap. constructor. apply IH. exact H.
Qed.

Lemma pop_insert_perm l i j : Permutation (pop_insert l i j) l.
Proof.
  unfold pop_insert. destruct (nth_error l j) as [x|] eqn:E; [|reflexivity].
  rewrite firstn_skipn_perm. apply remove_nth_perm. exact E.
Qed.

Lemma pop_insert_length l i j : length (pop_insert l i j) = length l.
Proof. apply Permutation_length, pop_insert_perm. Qed.

(* ---- C13: totality on arbitrary node lists ---- *)
Definition fresh (l : list node) (visited : list nat) : nat :=
  length (filter (fun n => negb (mem (nid n) visited)) l).

Lemma fresh_perm l l' v : Permutation l l' -> fresh l v = fresh l' v.
Proof.
  intros H. unfold fresh. induction H as [|x l l' H IH|x y l|l l' l'' H1 IH1 H2 IH2]; cbn [filter].
  - reflexivity.
  - destruct (negb _); cbn [length]; lia.
  - destruct (negb (mem (nid y) v)), (negb (mem (nid x) v)); cbn [length]; lia.
  - lia.
Qed.

Lemma mem_cons x y l : mem x (y :: l) = Nat.eqb x y || mem x l.
Proof. reflexivity. Qed.

Lemma fresh_add l v nd : In nd l -> mem (nid nd) v = false -> fresh l (nid nd :: v) < fresh l v.
Proof.
  unfold fresh. induction l as [|a l IH]; intros Hin Hm; [destruct Hin|].
  cbn [filter]. destruct Hin as [->|Hin].
  - rewrite mem_cons, Nat.eqb_refl. cbn [orb negb]. rewrite Hm. cbn [negb length].
    assert (length (filter (fun n => negb (mem (nid n) (nid nd :: v))) l) <= length (filter (fun n => negb (mem (nid n) v)) l)).
    { clear. induction l as [|b l IH]; cbn [filter]; [lia|]. rewrite mem_cons.
      destruct (Nat.eqb (nid b) (nid nd)), (mem (nid b) v); cbn [orb negb length]; lia. }
    lia.
  - specialize (IH Hin Hm). rewrite mem_cons.
    destruct (Nat.eqb (nid a) (nid nd)), (mem (nid a) v); cbn [orb negb length]; lia.
Qed.

Definition terminal (r : sres) : Prop :=
  match r with Sorted _ | Cycle _ => True | _ => False end.

Lemma rotate_cases l index known available : index < length l ->
  (exists l', rotate l index known available = Rotated l' /\ Permutation l' l) \/
  (exists k, rotate l index known available = Settled k).
Proof.
  intros Hi. unfold rotate. destruct (nth_error l index) as [nd|] eqn:E.
  2:{ apply nth_error_None in E. lia. }
  destruct (find _ (ndeps nd)) as [d|]; [|right; eauto].
  left. destruct (find_first_dep d (S index) l) as [[|j]|]; eexists; split; try reflexivity.
  apply pop_insert_perm.
Qed.

Lemma settle_total fuel l index known available visited :
  index < length l -> fresh l visited < fuel ->
  match settle fuel l index known available visited with
  | (Sorted l', _) => Permutation l' l
  | (Cycle _, _) => True
  | _ => False
  end.
Proof.
  revert l visited. induction fuel as [|f IH]; intros l visited Hi Hf; [lia|].
  cbn [settle]. destruct (rotate_cases l index known available Hi) as [[l' [-> Hp]]|[k ->]]; [|reflexivity].
  assert (Hi' : index < length l') by (rewrite (Permutation_length Hp); exact Hi).
  destruct (nth_error l' index) as [nd|] eqn:E.
  2:{ apply nth_error_None in E. lia. }
  destruct (mem (nid nd) visited) eqn:Em; [exact I|].
  assert (Hin : In nd l') by (eapply nth_error_In; exact E).
  pose proof (fresh_add l' visited nd Hin Em) as Hlt. rewrite (fresh_perm l' l visited Hp) in Hlt.
  specialize (IH l' (nid nd :: visited) Hi' ltac:(lia)).
  destruct (settle f l' index known available (nid nd :: visited)) as [[l''|?| |] k']; try exact IH.
  etransitivity; eassumption.
Qed.

Lemma fresh_le l v : fresh l v <= length l.
Proof. unfold fresh. induction l as [|a l IH]; cbn [filter length]; [lia|]. destruct (negb _); cbn [length]; lia. Qed.

Lemma sort_from_total count l index known available :
  index + count = length l -> terminal (sort_from count l index known available).
Proof.
  revert l index known. induction count as [|c IH]; intros l index known H; [exact I|].
  cbn [sort_from]. destruct (nth_error l index) as [nd0|] eqn:E.
  2:{ apply nth_error_None in E. lia. }
  pose proof (settle_total (S (length l)) l index known available [nid nd0] ltac:(lia)) as HS.
  pose proof (fresh_le l [nid nd0]). specialize (HS ltac:(lia)).
  destruct (settle (S (length l)) l index known available [nid nd0]) as [[l'|?| |] k']; try exact I; try contradiction.
  apply IH. rewrite (Permutation_length HS). lia.
Qed.

Theorem topological_sort_total builtins l : terminal (topological_sort builtins l).
Proof. unfold topological_sort. apply sort_from_total. lia. Qed.

(* ---- C15: acyclic definition sets are sorted ---- *)
Lemma mem_true x l : mem x l = true <-> In x l.
Proof.
  unfold mem. rewrite existsb_exists. split.
  - intros [y [Hy E]]. apply Nat.eqb_eq in E. subst. exact Hy.
  - intros H. exists x. split; [exact H|apply Nat.eqb_refl].
Qed.

Lemma find_from_some d l s : (exists k m, nth_error l k = Some m /\ nname m = d) ->
  exists j m, find_from d l s = Some j /\ s <= j /\ nth_error l (j - s) = Some m /\ nname m = d.
Proof.
  revert s. induction l as [|a l IH]; intros s [k [m [Hk Hm]]]; [destruct k; discriminate|].
  cbn [find_from]. destruct (Nat.eqb (nname a) d) eqn:E.
  - apply Nat.eqb_eq in E. exists s, a. rewrite Nat.sub_diag. repeat split; auto.
  - destruct k as [|k]; cbn in Hk.
    + injection Hk as ->. rewrite Hm, Nat.eqb_refl in E. discriminate.
    + destruct (IH (S s) (ex_intro _ k (ex_intro _ m (conj Hk Hm)))) as [j [m' [H1 [H2 [H3 H4]]]]].
      exists j, m'. repeat split; auto; try lia.
      replace (j - s) with (S (j - S s)) by lia. exact H3.
Qed.

Lemma nth_error_skipn' {A} (l : list A) n k : nth_error (skipn n l) k = nth_error l (n + k).
Proof. revert l. induction n as [|n IH]; intros l; [reflexivity|]. destruct l; [destruct k; reflexivity|]. cbn. apply IH. Qed.

Lemma find_first_dep_some d i l : (exists j m, S i <= j /\ nth_error l j = Some m /\ nname m = d) ->
  exists j m, find_first_dep d (S i) l = Some j /\ S i <= j /\ nth_error l j = Some m /\ nname m = d.
Proof.
  intros [j [m [Hj [Hn Hm]]]]. unfold find_first_dep.
  destruct (find_from_some d (skipn (S i) l) (S i)) as [j' [m' [H1 [H2 [H3 H4]]]]].
  { exists (j - S i), m. split; [|exact Hm]. rewrite nth_error_skipn'. replace (S i + (j - S i)) with j by lia. exact Hn. }
  exists j', m'. repeat split; auto. rewrite nth_error_skipn' in H3. replace (S i + (j' - S i)) with j' in H3 by lia. exact H3.
Qed.

Lemma pop_insert_prefix l i j x : i < j -> nth_error l j = Some x ->
  firstn i (pop_insert l i j) = firstn i l /\ nth_error (pop_insert l i j) i = Some x.
Proof.
  intros Hij Hx. unfold pop_insert. rewrite Hx.
  assert (Hj : j < length l) by (apply nth_error_Some; congruence).
  set (l' := firstn j l ++ skipn (S j) l).
  assert (E1 : firstn i l' = firstn i l).
  { unfold l'. rewrite firstn_app, firstn_length. replace (i - Nat.min j (length l)) with 0 by lia.
    cbn [firstn]. rewrite app_nil_r, firstn_firstn. f_equal. lia. }
  assert (Hl : length (firstn i l') = i).
  { rewrite E1, firstn_length. lia. }
  split.
  - rewrite firstn_app, Hl, Nat.sub_diag. cbn [firstn]. rewrite app_nil_r, firstn_firstn, Nat.min_id. exact E1.
  - rewrite nth_error_app2 by lia. rewrite Hl, Nat.sub_diag. reflexivity.
Qed.

Section Acyclic.
  Variable builtins : list nat.
  Variable rank : nat -> nat.
  Variable l0 : list node.
  Let avail := map nname l0.

  Hypothesis Hnames : NoDup (map nname l0).
  Hypothesis Hids : NoDup (map nid l0).
  Hypothesis Hacyc : forall n, In n l0 -> forall d, In d (ndeps n) -> mem d avail = true ->
                     rank d < rank (nname n).

  Definition placed (l : list node) (i : nat) (d : nat) : Prop :=
    exists j m, j < i /\ nth_error l j = Some m /\ nname m = d.

  Definition ok_at (l : list node) (p : nat) : Prop :=
    forall n, nth_error l p = Some n -> forall d, In d (ndeps n) -> mem d avail = true ->
      mem d builtins = true \/ placed l p d.

  Definition known_inv (l : list node) (i : nat) (K : list nat) : Prop :=
    forall x, mem x K = true <-> (mem x builtins = true \/ placed l i x).

  Lemma nth_firstn {A} (l : list A) i j : j < i -> nth_error (firstn i l) j = nth_error l j.
  Proof.
    revert i j. induction l as [|a l IH]; intros [|i] [|j] H; cbn; try reflexivity; try lia.
    apply IH. lia.
  Qed.

  Lemma placed_prefix l l' i d : firstn i l' = firstn i l -> placed l i d -> placed l' i d.
  Proof.
    intros E [j [m [Hj [Hn Hm]]]]. exists j, m. repeat split; auto.
    rewrite <- (nth_firstn l' i j Hj), E, (nth_firstn l i j Hj). exact Hn.
  Qed.

  Lemma perm_node_unique l m m' : Permutation l l0 -> In m l -> In m' l -> nid m = nid m' -> m = m'.
  Proof.
    intros Hp H1 H2 E. assert (Hnd : NoDup (map nid l)).
    { eapply Permutation_NoDup; [apply Permutation_map; symmetry; exact Hp|exact Hids]. }
    clear Hp. induction l as [|a l IH]; [destruct H1|]. cbn [map] in Hnd. inversion Hnd as [|? ? Hna Hnd']; subst.
    destruct H1 as [->|H1], H2 as [->|H2]; auto.
    - exfalso. apply Hna. rewrite E. apply in_map. exact H2.
    - exfalso. apply Hna. rewrite <- E. apply in_map. exact H1.
  Qed.

  Lemma perm_name_pos l d : Permutation l l0 -> mem d avail = true ->
    exists j m, nth_error l j = Some m /\ nname m = d.
  Proof.
    intros Hp Hm. apply mem_true in Hm. unfold avail in Hm. apply in_map_iff in Hm.
    destruct Hm as [m [Hn Hin]]. apply (Permutation_in _ (Permutation_sym Hp)) in Hin.
    apply In_nth_error in Hin. destruct Hin as [j Hj]. eauto.
  Qed.

  (* the inner loop *)
  Lemma settle_sorted fuel : forall l visited i K nd,
    Permutation l l0 -> nth_error l i = Some nd ->
    known_inv l i K -> fresh l visited < fuel ->
    In (nid nd) visited ->
    (forall v, In v visited -> exists m, In m l /\ nid m = v /\ rank (nname nd) <= rank (nname m)) ->
    exists l' nd', settle fuel l i K avail visited = (Sorted l', nname nd' :: K) /\
      Permutation l' l0 /\ firstn i l' = firstn i l /\ nth_error l' i = Some nd' /\ ok_at l' i.
  Proof.
    induction fuel as [|f IH]; intros l visited i K nd Hp Hnd Hk Hf Hcur Hvis; [lia|].
    cbn [settle]. unfold rotate. rewrite Hnd.
    destruct (find (fun d => negb (mem d K) && mem d avail) (ndeps nd)) as [d|] eqn:Ef.
    - apply find_some in Ef. destruct Ef as [Hd Hc]. apply andb_prop in Hc. destruct Hc as [HnK Hav].
      apply negb_true_iff in HnK.
      assert (Hin_nd : In nd l) by (eapply nth_error_In; exact Hnd).
      assert (Hrk : rank d < rank (nname nd)).
      { apply Hacyc; try assumption. apply (Permutation_in _ Hp). exact Hin_nd. }
      destruct (perm_name_pos l d Hp Hav) as [j [m [Hj Hm]]].
      assert (Hji : S i <= j).
      { destruct (le_lt_dec (S i) j) as [|Hlt]; [assumption|]. exfalso.
        destruct (Nat.eq_dec j i) as [->|Hne].
        - rewrite Hnd in Hj. injection Hj as <-. rewrite Hm in Hrk. lia.
        - assert (Hpl : placed l i d) by (exists j, m; repeat split; auto; lia).
          assert (Hk1 : mem d K = true) by (apply Hk; right; exact Hpl). congruence. }
      destruct (find_first_dep_some d i l (ex_intro _ j (ex_intro _ m (conj Hji (conj Hj Hm))))) as [j' [m' [Hff [Hj' [Hn' Hm']]]]].
      rewrite Hff. destruct j' as [|j'']; [lia|].
      destruct (pop_insert_prefix l i (S j'') m' ltac:(lia) Hn') as [Epre Enth].
      rewrite Enth.
      pose proof (pop_insert_perm l i (S j'')) as Hpp.
      assert (Hin_m' : In m' l) by (eapply nth_error_In; exact Hn').
      destruct (mem (nid m') visited) eqn:Emv.
      + exfalso. apply mem_true in Emv. destruct (Hvis _ Emv) as [m2 [Hin2 [Eid Hr2]]].
        assert (m2 = m') by (eapply perm_node_unique; eassumption). subst m2. rewrite Hm' in Hr2. lia.
      + assert (Hin_pi : In m' (pop_insert l i (S j''))) by (eapply nth_error_In; exact Enth).
        pose proof (fresh_add _ visited m' Hin_pi Emv) as Hlt. rewrite (fresh_perm _ l visited Hpp) in Hlt.
        destruct (IH (pop_insert l i (S j'')) (nid m' :: visited) i K m') as [l' [nd' [Es [Hp' [Ef' [En' Hok']]]]]].
        * etransitivity; eassumption.
        * exact Enth.
        * intros x. rewrite (Hk x). split; intros [Hb|Hpl]; auto; right.
          -- eapply placed_prefix; [exact Epre|exact Hpl].
          -- eapply placed_prefix; [symmetry; exact Epre|exact Hpl].
        * lia.
        * left. reflexivity.
        * intros v [<-|Hv].
          -- exists m'. repeat split; auto.
          -- destruct (Hvis v Hv) as [m2 [Hin2 [Eid Hr2]]]. exists m2. repeat split; auto.
             ++ apply (Permutation_in _ (Permutation_sym Hpp)). exact Hin2.
             ++ rewrite Hm'. lia.
        * exists l', nd'. repeat split; auto. rewrite Ef'. exact Epre.
    - exists l, nd. repeat split; auto.
      intros n Hn d Hd Hav. rewrite Hnd in Hn. injection Hn as <-.
      pose proof (find_none _ _ Ef d Hd) as Hc. cbn beta in Hc. rewrite Hav, andb_true_r in Hc.
      apply negb_false_iff in Hc. apply Hk. exact Hc.
  Qed.

  Definition sorted_upto (l : list node) (i : nat) : Prop := forall p, p < i -> ok_at l p.

  Lemma ok_at_prefix l l' p : firstn (S p) l' = firstn (S p) l -> ok_at l p -> ok_at l' p.
  Proof.
    intros E H n Hn d Hd Hav.
    assert (Hn' : nth_error l p = Some n).
    { rewrite <- (nth_firstn l (S p) p ltac:(lia)), <- E, (nth_firstn l' (S p) p ltac:(lia)). exact Hn. }
    destruct (H n Hn' d Hd Hav) as [Hb|Hpl]; [left; exact Hb|right].
    eapply placed_prefix; [|exact Hpl].
    assert (E2 : firstn p (firstn (S p) l') = firstn p (firstn (S p) l)) by (rewrite E; reflexivity).
    rewrite !firstn_firstn in E2. replace (Nat.min p (S p)) with p in E2 by lia. exact E2.
  Qed.

  Lemma firstn_less {A} (l l' : list A) i p : p <= i -> firstn i l' = firstn i l -> firstn p l' = firstn p l.
  Proof.
    intros Hp E. assert (E2 : firstn p (firstn i l') = firstn p (firstn i l)) by (rewrite E; reflexivity).
    rewrite !firstn_firstn in E2. replace (Nat.min p i) with p in E2 by lia. exact E2.
  Qed.

  (* the outer loop *)
  Lemma sort_from_sorted count : forall l i K,
    Permutation l l0 -> i + count = length l -> known_inv l i K -> sorted_upto l i ->
    exists l', sort_from count l i K avail = Sorted l' /\ Permutation l' l0 /\ sorted_upto l' (length l').
  Proof.
    induction count as [|c IH]; intros l i K Hp Hlen Hk Hs.
    - exists l. cbn [sort_from]. repeat split; auto. replace (length l) with i by lia. exact Hs.
    - cbn [sort_from]. destruct (nth_error l i) as [nd0|] eqn:E.
      2:{ apply nth_error_None in E. lia. }
      pose proof (fresh_le l [nid nd0]) as Hfl.
      destruct (settle_sorted (S (length l)) l [nid nd0] i K nd0 Hp E Hk ltac:(lia) ltac:(left; reflexivity))
        as [l' [nd' [Es [Hp' [Ef [En Hok]]]]]].
      { intros v [<-|[]]. exists nd0. repeat split; auto. eapply nth_error_In; exact E. }
      rewrite Es.
      assert (Hl' : length l' = length l) by (rewrite (Permutation_length Hp'), (Permutation_length Hp); reflexivity).
      apply IH; auto; try lia.
      + (* known set *)
        intros x. rewrite mem_cons. split.
        * intros H. apply orb_prop in H. destruct H as [H|H].
          -- apply Nat.eqb_eq in H. subst x. right. exists i, nd'. repeat split; auto.
          -- apply Hk in H. destruct H as [Hb|Hpl]; [left; exact Hb|right].
             destruct Hpl as [j [m [Hj [Hn Hm]]]]. exists j, m. repeat split; auto.
             rewrite <- (nth_firstn l' i j Hj), Ef, (nth_firstn l i j Hj). exact Hn.
        * intros [Hb|[j [m [Hj [Hn Hm]]]]].
          -- apply orb_true_intro. right. apply Hk. left. exact Hb.
          -- destruct (Nat.eq_dec j i) as [->|Hne].
             ++ rewrite En in Hn. injection Hn as <-. rewrite Hm, Nat.eqb_refl. reflexivity.
             ++ apply orb_true_intro. right. apply Hk. right. exists j, m. repeat split; auto; try lia.
                rewrite <- (nth_firstn l i j ltac:(lia)), <- Ef, (nth_firstn l' i j ltac:(lia)). exact Hn.
      + (* sorted prefix *)
        intros p Hpi. destruct (Nat.eq_dec p i) as [->|Hne]; [exact Hok|].
        apply (ok_at_prefix l l' p); [|apply Hs; lia].
        apply (firstn_less l l' i (S p)); [lia|exact Ef].
  Qed.

  Theorem topological_sort_sorted :
    exists l', topological_sort builtins l0 = Sorted l' /\ Permutation l' l0 /\
      forall p n, nth_error l' p = Some n -> forall d, In d (ndeps n) -> mem d avail = true ->
        mem d builtins = true \/ exists j m, j < p /\ nth_error l' j = Some m /\ nname m = d.
  Proof.
    unfold topological_sort.
    destruct (sort_from_sorted (length l0) l0 0 builtins (Permutation_refl _) eq_refl) as [l' [E [Hp Hs]]].
    - intros x. split; [intros H; left; exact H|]. intros [H|[j [m [Hj _]]]]; [exact H|lia].
    - intros p Hp. lia.
    - exists l'. repeat split; auto. intros p n Hn d Hd Hav.
      assert (Hpl : p < length l') by (apply nth_error_Some; congruence).
      exact (Hs p Hpl n Hn d Hd Hav).
  Qed.
End Acyclic.
