(* proofs/BytesFacts.v — integer <-> byte-string facts: decoding the n-byte image of an
   in-range integer gives the integer back, in both byte orders; slicing. *)
From Coq Require Import ZArith List Bool Lia ZifyBool.
From Prophy Require Import Bytes Schema Arith.
Import ListNotations.
Local Open Scope Z_scope.
Ltac Zify.zify_post_hook ::= Z.to_euclidean_division_equations.

Lemma unle_le w z : unle (le w z) = z mod 256 ^ Z.of_nat w.
Proof.
  revert z. induction w as [|w IH]; intros z.
  - cbn [le unle]. change (256 ^ Z.of_nat 0) with 1. rewrite Z.mod_1_r. reflexivity.
  - cbn [le unle]. rewrite IH. rewrite Nat2Z.inj_succ, Z.pow_succ_r by lia.
    pose proof (Z.pow_pos_nonneg 256 (Z.of_nat w) ltac:(lia) ltac:(lia)) as Hp.
    rewrite (Z.mul_comm 256), Z.rem_mul_r by lia. lia.
Qed.

Lemma dec_enc_uint e w z : 0 <= w -> dec_uint e (enc_int e w z) = z mod 256 ^ w.
Proof.
  intros Hw. destruct e; unfold dec_uint, enc_int, unbe, be; rewrite ?rev_involutive, unle_le, Z2Nat.id by lia; reflexivity.
Qed.

Lemma len_firstn_le {A} (l : list A) n : 0 <= n <= len l -> len (firstn (Z.to_nat n) l) = n.
Proof. intros H. unfold len in *. rewrite firstn_length. lia. Qed.

Lemma slice_mid pre b post : slice (pre ++ b ++ post) (len pre) (len b) = b.
Proof.
  unfold slice, len. rewrite !Nat2Z.id. rewrite skipn_app, skipn_all, Nat.sub_diag. cbn [skipn app].
  rewrite firstn_app, firstn_all, Nat.sub_diag. cbn [firstn]. apply app_nil_r.
Qed.

Lemma slice_mid' pre b post pos n : pos = len pre -> n = len b -> slice (pre ++ b ++ post) pos n = b.
Proof. intros -> ->. apply slice_mid. Qed.

Lemma skipn_mid {A} (pre b : list A) : skipn (Z.to_nat (len pre)) (pre ++ b) = b.
Proof. unfold len. rewrite Nat2Z.id, skipn_app, skipn_all, Nat.sub_diag. reflexivity. Qed.

(* decode (encode z) = z for every in-range scalar value *)
Lemma scalar_roundtrip k z : in_range k z = true ->
  (if sk_signed k then to_signed (sk_size k) (z mod 256 ^ sk_size k) else z mod 256 ^ sk_size k) = z.
Proof.
  unfold in_range, sk_min, sk_max, to_signed. intros H.
  destruct k; cbn [sk_signed sk_is_int sk_size] in *;
    change (256 ^ 1) with 256; change (256 ^ 2) with 65536; change (256 ^ 4) with 4294967296;
    change (256 ^ 8) with 18446744073709551616;
    change (8 * 1 - 1) with 7 in *; change (8 * 2 - 1) with 15 in *; change (8 * 4 - 1) with 31 in *; change (8 * 8 - 1) with 63 in *;
    change (8 * 1) with 8 in *; change (8 * 2) with 16 in *; change (8 * 4) with 32 in *; change (8 * 8) with 64 in *;
    change (2 ^ 7) with 128 in *; change (2 ^ 15) with 32768 in *; change (2 ^ 31) with 2147483648 in *;
    change (2 ^ 63) with 9223372036854775808 in *;
    change (2 ^ 8) with 256 in *; change (2 ^ 16) with 65536 in *; change (2 ^ 32) with 4294967296 in *;
    change (2 ^ 64) with 18446744073709551616 in *;
    try (match goal with |- (if ?c then _ else _) = _ => destruct c eqn:E end); lia.
Qed.
